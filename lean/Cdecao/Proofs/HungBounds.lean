import Cdecao.Proofs.HungI32Conv
/-! Label bounds for the unbounded model `H2` of hungarian.rs and, from them, the simulation
    `H2.run I = some r → H2B.run B I = some r` of the unbounded model by the range-checked one
    (Cdecao/Model/HungarianI32.lean) for weights in `[0, W]` and `(2·ny + 2)·W + 1 < B`.

    Bounds (with `L = 2·ny·W`): every row label that ever occurs in a run that returns lies in `[-L, W]`,
    every column label in `[0, L + W]`, every sum `lx + ly` in `[-L, L + 2W]`, every delta
    `lx + ly - w` in `[-L - W, L + 2W]`, every partial score sum in `[0, ny·W]`. -/
namespace H2B
open H2

/-! ### sign and monotonicity invariants -/

/-- `ly ≥ 0`, an unmatched column has `ly = 0`, `lx ≤ W` -/
structure BInv (W : Int) (st : St) : Prop where
  ly0 : ∀ y, 0 ≤ st.ly.get y
  un : ∀ y, st.m.get y = false → st.ly.get y = 0
  lxW : ∀ x, st.lx.get x ≤ W

theorem default_int : (default : Int) = 0 := rfl

/-- the label update on rows, for every index (members of `S` are in range) -/
theorem relabel_lx_all (I : Inp) (st : St) (u : Nat) (tr : Tr) (d : Int) (ho : OInv I st) (ht : TInv I st u tr)
    (x : Nat) : (H2.relabel I st tr d).lx.get x = if tr.s.get x then st.lx.get x - d else st.lx.get x := by
  by_cases hx : x < I.nx
  · exact relabel_lx I st tr d x hx
  · have hs : tr.s.get x = false := by
      cases h : tr.s.get x with
      | false => rfl
      | true => exact absurd (ht.sX ho x h).1 hx
    rw [hs]
    rw [Vec.get_of_size_le _ _ (by simp [H2.relabel]; omega), Vec.get_of_size_le _ _ (by rw [ho.szlx]; omega)]
    rfl

theorem relabel_ly_all (I : Inp) (st : St) (u : Nat) (tr : Tr) (d : Int) (ho : OInv I st) (ht : TInv I st u tr)
    (y : Nat) : (H2.relabel I st tr d).ly.get y = if tr.t.get y then st.ly.get y + d else st.ly.get y := by
  by_cases hy : y < I.ny
  · exact relabel_ly I st tr d y hy
  · have hs : tr.t.get y = false := by
      cases h : tr.t.get y with
      | false => rfl
      | true => exact absurd (ho.mrow y (ht.tT y h).1).1.1 hy
    rw [hs]
    rw [Vec.get_of_size_le _ _ (by simp [H2.relabel]; omega), Vec.get_of_size_le _ _ (by rw [ho.szly]; omega)]
    rfl

/-- the minimal slack found by the scan is non-negative (feasibility of the labels) -/
theorem dmin_nonneg (I : Inp) (st : St) (u : Nat) (tr : Tr) (ho : OInv I st) (ht : TInv I st u tr)
    (hempty : ∀ y, tr.nlxt.get y = false) (d : Int) (hd : (H2.scan I st tr).dmin = some d) : 0 ≤ d := by
  have sp := scan_post I st tr ht.szN ht.szB hempty
  obtain ⟨x, y, ⟨_, hy, _⟩, ⟨hs, _, hsk, hal⟩, hsl⟩ := sp.att d hd
  have := ho.feas x y (ht.sX ho x hs) ⟨hy, hsk⟩ hal
  simp only [slack] at hsl; omega

/-- (b) the sign invariants survive a label update: `lx` only decreases (on `S`), `ly` only increases (on `T`),
    columns outside `T` – in particular all unmatched ones – keep their label -/
theorem relabel_binv (I : Inp) (W : Int) (st : St) (u : Nat) (tr : Tr) (d : Int) (ho : OInv I st)
    (ht : TInv I st u tr) (hd : 0 ≤ d) (hb : BInv W st) : BInv W (H2.relabel I st tr d) := by
  refine ⟨?_, ?_, ?_⟩
  · intro y; rw [relabel_ly_all I st u tr d ho ht]
    have := hb.ly0 y
    split <;> omega
  · intro y hm
    have hm' : st.m.get y = false := hm
    rw [relabel_ly_all I st u tr d ho ht]
    have : tr.t.get y = false := by
      cases h : tr.t.get y with
      | false => rfl
      | true => have := (ht.tT y h).1; simp [hm'] at this
    simp [this, hb.un y hm']
  · intro x; rw [relabel_lx_all I st u tr d ho ht]
    have := hb.lxW x
    split <;> omega

/-! ### the alternating tree: label differences along tree edges -/

theorem growTr_s (I : Inp) (st : St) (tr : Tr) (y : Nat) (hz : TSz I tr) (hlt : st.mm.get y < I.nx) (x : Nat) :
    (growTr I st tr y).s.get x = (decide (x = st.mm.get y) || tr.s.get x) := by
  simp only [growTr, Vec.get_set, hz.szS]
  by_cases e : st.mm.get y = x
  · subst e; simp [hlt]
  · have : ¬ x = st.mm.get y := fun h => e h.symm
    simp [e, this]

theorem growTr_t (I : Inp) (st : St) (tr : Tr) (y : Nat) (hz : TSz I tr) (hlt : y < I.ny) (y' : Nat) :
    (growTr I st tr y).t.get y' = (decide (y' = y) || tr.t.get y') := by
  simp only [growTr, Vec.get_set, hz.szT]
  by_cases e : y = y'
  · subst e; simp [hlt]
  · have : ¬ y' = y := fun h => e h.symm
    simp [e, this]

/-- (c) a row `x ≠ u` of the tree and its grandparent row differ by at most `W` in their labels:
    both edges to the column between them are tight. -/
theorem tree_parent_diff (I : Inp) (W : Int) (hw : ∀ x y, 0 ≤ I.wt x y ∧ I.wt x y ≤ W) (st : St) (u : Nat) (tr : Tr)
    (rk : Nat → Nat) (ho : OInv I st) (ht : TInv I st u tr) (hp : PInv I st u tr rk)
    (x : Nat) (hx : tr.s.get x = true) (hxu : x ≠ u) :
    st.lx.get (tr.tPar.get (tr.sPar.get x)) - W ≤ st.lx.get x ∧
      st.lx.get x ≤ st.lx.get (tr.tPar.get (tr.sPar.get x)) + W := by
  obtain ⟨h1, h2⟩ := hp.spar x hx hxu
  obtain ⟨_, _, h3⟩ := hp.tpar _ h1
  obtain ⟨_, _, _, h4⟩ := ho.mrow _ (ht.tT _ h1).1
  rw [h2] at h4
  simp only [tight] at h3 h4
  have a := hw x (tr.sPar.get x)
  have b := hw (tr.tPar.get (tr.sPar.get x)) (tr.sPar.get x)
  omega

/-- the same for the row that is about to enter the tree -/
theorem tree_edge_diff (I : Inp) (W : Int) (hw : ∀ x y, 0 ≤ I.wt x y ∧ I.wt x y ≤ W) (st : St) (u : Nat) (tr : Tr)
    (ho : OInv I st) (ht : TInv I st u tr) (y : Nat) (hy : tr.nlxt.get y = true) (hm : st.m.get y = true) :
    st.lx.get (tr.nb.get y) - W ≤ st.lx.get (st.mm.get y) ∧ st.lx.get (st.mm.get y) ≤ st.lx.get (tr.nb.get y) + W := by
  obtain ⟨_, _, _, _, h3⟩ := ht.nl y hy
  obtain ⟨_, _, _, h4⟩ := ho.mrow y hm
  simp only [tight] at h3 h4
  have a := hw (st.mm.get y) y
  have b := hw (tr.nb.get y) y
  omega

/-- all rows of the tree have their label within `R` of the root's label -/
structure DInv (st : St) (u : Nat) (tr : Tr) (R : Int) : Prop where
  root : tr.s.get u = true
  lo : ∀ x, tr.s.get x = true → st.lx.get u - R ≤ st.lx.get x
  hi : ∀ x, tr.s.get x = true → st.lx.get x ≤ st.lx.get u + R

theorem relabel_dinv (I : Inp) (st : St) (u : Nat) (tr : Tr) (d R : Int) (nl : Vec Bool) (nb : Vec Nat)
    (ho : OInv I st) (ht : TInv I st u tr) (hd : DInv st u tr R) :
    DInv (H2.relabel I st tr d) u { tr with nlxt := nl, nb := nb } R := by
  have hu : tr.s.get u = true := hd.root
  refine ⟨hd.root, ?_, ?_⟩
  · intro x hx
    have hx' : tr.s.get x = true := hx
    rw [relabel_lx_all I st u tr d ho ht, relabel_lx_all I st u tr d ho ht, hu, hx']
    have := hd.lo x hx'
    simp only [if_true]; omega
  · intro x hx
    have hx' : tr.s.get x = true := hx
    rw [relabel_lx_all I st u tr d ho ht, relabel_lx_all I st u tr d ho ht, hu, hx']
    have := hd.hi x hx'
    simp only [if_true]; omega

theorem growth_dinv (I : Inp) (W : Int) (hw : ∀ x y, 0 ≤ I.wt x y ∧ I.wt x y ≤ W) (st : St) (u : Nat) (tr : Tr)
    (R : Int) (y : Nat) (ho : OInv I st) (ht : TInv I st u tr) (hz : TSz I tr)
    (hy : tr.nlxt.get y = true) (hm : st.m.get y = true) (hd : DInv st u tr R) :
    DInv st u (growTr I st tr y) (R + W) := by
  have hzX := (ho.mrow y hm).2.1
  obtain ⟨_, _, hsnb, _, _⟩ := ht.nl y hy
  have e := tree_edge_diff I W hw st u tr ho ht y hy hm
  refine ⟨?_, ?_, ?_⟩
  · rw [growTr_s I st tr y hz hzX.1]; simp [hd.root]
  · intro x hx
    rw [growTr_s I st tr y hz hzX.1] at hx
    by_cases ex : x = st.mm.get y
    · subst ex; have := hd.lo _ hsnb; omega
    · simp [ex] at hx; have := hd.lo x hx; omega
  · intro x hx
    rw [growTr_s I st tr y hz hzX.1] at hx
    by_cases ex : x = st.mm.get y
    · subst ex; have := hd.hi _ hsnb; omega
    · simp [ex] at hx; have := hd.hi x hx; omega

/-! ### bounds for the labels outside the tree (unchanged since the start of the phase) and the
    post-condition of a phase -/

structure Pre (L W : Int) (st : St) (tr : Tr) : Prop where
  lo : ∀ x, tr.s.get x = false → -L ≤ st.lx.get x
  hi : ∀ y, tr.t.get y = false → st.ly.get y ≤ L + W

/-- what a phase that ends successfully guarantees, seen from an intermediate state `st` of the phase:
    the final labels are bounded, and the labels moved monotonically (so the bounds hold for `st` too) -/
structure Post (L W : Int) (st st' : St) : Prop where
  lo : ∀ x, -L ≤ st'.lx.get x
  hi : ∀ y, st'.ly.get y ≤ L + W
  monox : ∀ x, st'.lx.get x ≤ st.lx.get x
  monoy : ∀ y, st.ly.get y ≤ st'.ly.get y
  un : ∀ y, st'.m.get y = false → st'.ly.get y = 0

theorem Post.binv {L W : Int} {st st' : St} (h : Post L W st st') (hb : BInv W st) : BInv W st' :=
  ⟨fun y => Int.le_trans (hb.ly0 y) (h.monoy y), h.un, fun x => Int.le_trans (h.monox x) (hb.lxW x)⟩

theorem relabel_pre (I : Inp) (L W : Int) (st : St) (u : Nat) (tr : Tr) (d : Int) (nl : Vec Bool) (nb : Vec Nat)
    (ho : OInv I st) (ht : TInv I st u tr) (hp : Pre L W st tr) :
    Pre L W (H2.relabel I st tr d) { tr with nlxt := nl, nb := nb } := by
  refine ⟨?_, ?_⟩
  · intro x hx
    have hx' : tr.s.get x = false := hx
    rw [relabel_lx_all I st u tr d ho ht, hx']; exact hp.lo x hx'
  · intro y hy
    have hy' : tr.t.get y = false := hy
    rw [relabel_ly_all I st u tr d ho ht, hy']; exact hp.hi y hy'

theorem growth_pre (I : Inp) (L W : Int) (st : St) (tr : Tr) (y : Nat) (hz : TSz I tr)
    (hzX : st.mm.get y < I.nx) (hyY : y < I.ny) (hp : Pre L W st tr) : Pre L W st (growTr I st tr y) := by
  refine ⟨?_, ?_⟩
  · intro x hx
    rw [growTr_s I st tr y hz hzX] at hx
    simp at hx; exact hp.lo x hx.2
  · intro y' hy'
    rw [growTr_t I st tr y hz hyY] at hy'
    simp at hy'; exact hp.hi y' hy'.2

/-! ### the checked pieces succeed (and agree with the unchecked ones) on bounded labels -/

/-- a state all of whose labels are in the range proved for successful runs -/
structure Bnd (L W : Int) (st : St) : Prop where
  lxlo : ∀ x, -L ≤ st.lx.get x
  lxhi : ∀ x, st.lx.get x ≤ W
  lylo : ∀ y, 0 ≤ st.ly.get y
  lyhi : ∀ y, st.ly.get y ≤ L + W

theorem scanStep_sim (I : Inp) (W L B : Int) (hw : ∀ x y, 0 ≤ I.wt x y ∧ I.wt x y ≤ W)
    (hB : L + 2 * W + 1 < B) (st : St) (tr : Tr) (hb : Bnd L W st) (x : Nat) (acc : Scan) (y : Nat) :
    scanStep B I st tr x acc y = some (H2.scanStep I st tr x acc y) := by
  unfold scanStep H2.scanStep
  have a := hw x y
  have b1 := hb.lxlo x
  have b2 := hb.lxhi x
  have b3 := hb.lylo y
  have b4 := hb.lyhi y
  split
  · rw [chk_some (by omega) (by omega)]
    simp only
    rw [chk_some (by omega) (by omega)]
    simp only
    rw [if_neg (by omega)]
    rfl
  · rfl

theorem scan_sim (I : Inp) (W L B : Int) (hw : ∀ x y, 0 ≤ I.wt x y ∧ I.wt x y ≤ W)
    (hB : L + 2 * W + 1 < B) (st : St) (tr : Tr) (hb : Bnd L W st) :
    scan B I st tr = some (H2.scan I st tr) := by
  rw [H2.scan_eq]
  unfold scan
  apply foldlM_sim
  intro acc x _
  unfold scanRow H2.scanRow
  split
  · apply foldlM_sim
    intro acc y _
    exact scanStep_sim I W L B hw hB st tr hb x acc y
  · rfl

theorem relabel_sim (B : Int) (I : Inp) (st : St) (tr : Tr) (d : Int)
    (hx : ∀ x, -B ≤ (H2.relabel I st tr d).lx.get x ∧ (H2.relabel I st tr d).lx.get x < B)
    (hy : ∀ y, -B ≤ (H2.relabel I st tr d).ly.get y ∧ (H2.relabel I st tr d).ly.get y < B) :
    relabel B I st tr d = some (H2.relabel I st tr d) := by
  unfold relabel
  rw [tabM_some I.nx _ (fun x => if tr.s.get x then st.lx.get x - d else st.lx.get x)
    (by
      intro i hi
      have := hx i
      rw [relabel_lx I st tr d i hi] at this
      exact chk_some this.1 this.2)]
  simp only
  rw [tabM_some I.ny _ (fun y => if tr.t.get y then st.ly.get y + d else st.ly.get y)
    (by
      intro i hi
      have := hy i
      rw [relabel_ly I st tr d i hi] at this
      exact chk_some this.1 this.2)]
  rfl

theorem sumsOk_sim (I : Inp) (W L B : Int) (hW : 0 ≤ W) (hB : L + 2 * W + 1 < B) (st : St)
    (hb : Bnd L W st) (z : Nat) : sumsOk B I st z = true := by
  unfold sumsOk
  rw [all_range]
  intro y _
  have b1 := hb.lxlo z
  have b2 := hb.lxhi z
  have b3 := hb.lylo y
  have b4 := hb.lyhi y
  rw [chk_some (by omega) (by omega)]; rfl

theorem initTr_sim (I : Inp) (W L B : Int) (hW : 0 ≤ W) (hB : L + 2 * W + 1 < B) (st : St)
    (hb : Bnd L W st) (u : Nat) : H2B.initTr B I st u = some (H2.initTr I st u) := by
  unfold H2B.initTr
  rw [if_pos]
  rw [all_range]
  intro y _
  have b1 := hb.lxlo u
  have b2 := hb.lxhi u
  have b3 := hb.lylo y
  have b4 := hb.lyhi y
  rw [chk_some (by omega) (by omega)]; rfl

/-! ### the simulation of one phase (inner loop), by induction on the fuel.

The bounds for the current step come from the post-condition of the recursive call (success of the rest
of the phase) together with monotonicity. -/

/-- the statement proved by induction on the fuel -/
def GrowSim (I : Inp) (W L B : Int) (u fuel : Nat) : Prop :=
  ∀ (st : St) (tr : Tr) (rk : Nat → Nat) (R : Int) (st' : St),
    OInv I st → TInv I st u tr → PInv I st u tr rk → TSz I tr → BInv W st → DInv st u tr R → 0 ≤ R →
    R + (fuel : Int) * W ≤ (I.ny : Int) * W + W → Pre L W st tr →
    H2.grow I u fuel st tr = some st' → H2B.grow B I u fuel st tr = some st' ∧ Post L W st st'

/-- (d) end-of-phase bounds and the step through a matched column -/
theorem tail_sim (I : Inp) (W L B : Int) (hw : ∀ x y, 0 ≤ I.wt x y ∧ I.wt x y ≤ W) (hW : 0 ≤ W)
    (hL : 2 * ((I.ny : Int) * W) ≤ L) (hB : L + 2 * W + 1 < B) (u fuel : Nat)
    (ih : GrowSim I W L B u fuel)
    (st : St) (tr : Tr) (rk : Nat → Nat) (R : Int) (st' : St)
    (ho : OInv I st) (ht : TInv I st u tr) (hp : PInv I st u tr rk) (hz : TSz I tr) (hb : BInv W st)
    (hd : DInv st u tr R) (hR : 0 ≤ R) (hbud : R + (fuel : Int) * W ≤ (I.ny : Int) * W) (hpre : Pre L W st tr)
    (y : Nat) (hy : tr.nlxt.get y = true)
    (h : tailH I u (H2.grow I u fuel) st tr y = some st') :
    tailB B I u (H2B.grow B I u fuel) st tr y = some st' ∧ Post L W st st' := by
  obtain ⟨hyY, hty, hsnb, halnb, htinb⟩ := ht.nl y hy
  have hf0 : 0 ≤ (fuel : Int) * W := Int.mul_nonneg (Int.natCast_nonneg _) hW
  unfold tailH at h
  unfold tailB
  by_cases hm : st.m.get y = true
  · rw [if_pos hm] at h ⊢
    obtain ⟨a, b, c⟩ := growth_step I st u tr rk y ho ht hp hz hy hm
    have hzX := (ho.mrow y hm).2.1
    have hd' := growth_dinv I W hw st u tr R y ho ht hz hy hm hd
    have hpre' := growth_pre I L W st tr y hz hzX.1 hyY.1 hpre
    obtain ⟨hB', hpost⟩ := ih st (growTr I st tr y) _ (R + W) st' ho a b c hb hd' (by omega) (by omega) hpre' h
    have bnd : Bnd L W st :=
      ⟨fun x => Int.le_trans (hpost.lo x) (hpost.monox x), hb.lxW, hb.ly0,
        fun y => Int.le_trans (hpost.monoy y) (hpost.hi y)⟩
    rw [if_pos (sumsOk_sim I W L B hW hB st bnd _)]
    exact ⟨hB', hpost⟩
  · rw [if_neg hm] at h ⊢
    cases haug : augment u tr (I.ny + 1) y (tr.nb.get y) st.mm with
    | none => simp [haug] at h
    | some mm' =>
      simp only [haug] at h ⊢
      cases h
      refine ⟨rfl, ?_⟩
      have hmf : st.m.get y = false := by simpa using hm
      have hly0 : st.ly.get y = 0 := hb.un y hmf
      -- the row through which the unmatched column was reached has a non-negative label
      have hx0 : 0 ≤ st.lx.get (tr.nb.get y) := by
        simp only [tight] at htinb
        have := hw (tr.nb.get y) y
        omega
      have hlo : ∀ x, -L ≤ st.lx.get x := by
        intro x
        cases hs : tr.s.get x with
        | false => exact hpre.lo x hs
        | true =>
          have := hd.lo x hs
          have := hd.hi _ hsnb
          omega
      have hhi : ∀ y', st.ly.get y' ≤ L + W := by
        intro y'
        cases hs : tr.t.get y' with
        | false => exact hpre.hi y' hs
        | true =>
          obtain ⟨hm', _⟩ := ht.tT y' hs
          obtain ⟨_, _, _, hti⟩ := ho.mrow y' hm'
          simp only [tight] at hti
          have := hlo (st.mm.get y')
          have := hw (st.mm.get y') y'
          omega
      refine ⟨hlo, hhi, fun x => Int.le_refl _, fun y => Int.le_refl _, ?_⟩
      intro y' hy'
      apply hb.un y'
      simp only [Vec.get_set] at hy'
      split at hy'
      · cases hy'
      · exact hy'

theorem natsucc_mul (k : Nat) (W : Int) : ((k + 1 : Nat) : Int) * W = (k : Int) * W + W := by
  rw [Int.natCast_succ, Int.add_mul, Int.one_mul]

/-- (e) the simulation of the inner loop -/
theorem grow_sim (I : Inp) (W L B : Int) (hw : ∀ x y, 0 ≤ I.wt x y ∧ I.wt x y ≤ W) (hW : 0 ≤ W)
    (hL : 2 * ((I.ny : Int) * W) ≤ L) (hB : L + 2 * W + 1 < B) (u : Nat) :
    ∀ fuel, GrowSim I W L B u fuel := by
  have hL0 : 0 ≤ L := by have := Int.mul_nonneg (Int.natCast_nonneg I.ny) hW; omega
  intro fuel
  induction fuel with
  | zero => intro st tr rk R st' _ _ _ _ _ _ _ _ _ h; simp [H2.grow] at h
  | succ fuel ih =>
    intro st tr rk R st' ho ht hp hz hb hd hR hbud hpre h
    rw [growH_succ] at h
    rw [growB_succ]
    rw [natsucc_mul] at hbud
    cases hf : findPos I.ny tr.nlxt.get with
    | some y =>
      have e1 : pickH I st tr = some (st, tr, y) := by simp [pickH, hf]
      have e2 : pick B I st tr = some (st, tr, y) := by simp [pick, hf]
      rw [e1] at h
      rw [e2]
      exact tail_sim I W L B hw hW hL hB u fuel ih st tr rk R st' ho ht hp hz hb hd hR (by omega) hpre y
        (findPos_some hf).2 h
    | none =>
      cases hdm : (H2.scan I st tr).dmin with
      | none => simp [pickH, hf, hdm] at h
      | some d =>
        cases hf2 : findPos I.ny (H2.scan I st tr).nlxt.get with
        | none => simp [pickH, hf, hdm, hf2] at h
        | some y =>
          have e1 : pickH I st tr = some (H2.relabel I st tr d,
              { tr with nlxt := (H2.scan I st tr).nlxt, nb := (H2.scan I st tr).nb }, y) := by
            simp [pickH, hf, hdm, hf2]
          rw [e1] at h
          have hempty : ∀ y, tr.nlxt.get y = false := by
            intro y
            by_cases hy : y < I.ny
            · exact findPos_none hf y hy
            · rw [Vec.get_of_size_le _ _ (by rw [ht.szN]; omega)]; rfl
          obtain ⟨ho', ht'⟩ := label_update I st u tr ho ht hempty d hdm
          have hp' := pinv_relabel I st u tr rk d (H2.scan I st tr).nlxt (H2.scan I st tr).nb ho ht hp
          have hd0 := dmin_nonneg I st u tr ho ht hempty d hdm
          have hb' := relabel_binv I W st u tr d ho ht hd0 hb
          have hd' := relabel_dinv I st u tr d R (H2.scan I st tr).nlxt (H2.scan I st tr).nb ho ht hd
          have hpre' := relabel_pre I L W st u tr d (H2.scan I st tr).nlxt (H2.scan I st tr).nb ho ht hpre
          obtain ⟨hB', hpost⟩ := tail_sim I W L B hw hW hL hB u fuel ih (H2.relabel I st tr d)
            { tr with nlxt := (H2.scan I st tr).nlxt, nb := (H2.scan I st tr).nb } rk R st' ho' ht' hp'
            ⟨hz.szS, hz.szT, hz.szSP, hz.szTP⟩ hb' hd' hR (by omega) hpre' y (findPos_some hf2).2 h
          -- bounds for the relabelled state and, by monotonicity, for the current one
          have bnd1 : Bnd L W (H2.relabel I st tr d) :=
            ⟨fun x => Int.le_trans (hpost.lo x) (hpost.monox x), hb'.lxW, hb'.ly0,
              fun y => Int.le_trans (hpost.monoy y) (hpost.hi y)⟩
          have mx : ∀ x, (H2.relabel I st tr d).lx.get x ≤ st.lx.get x := by
            intro x; rw [relabel_lx_all I st u tr d ho ht]; split <;> omega
          have my : ∀ y, st.ly.get y ≤ (H2.relabel I st tr d).ly.get y := by
            intro y; rw [relabel_ly_all I st u tr d ho ht]; split <;> omega
          have bnd : Bnd L W st :=
            ⟨fun x => Int.le_trans (bnd1.lxlo x) (mx x), hb.lxW, hb.ly0, fun y => Int.le_trans (my y) (bnd1.lyhi y)⟩
          have e2 : pick B I st tr = some (H2.relabel I st tr d,
              { tr with nlxt := (H2.scan I st tr).nlxt, nb := (H2.scan I st tr).nb }, y) := by
            unfold pick
            simp only [hf]
            rw [scan_sim I W L B hw hB st tr bnd]
            simp only [hdm]
            rw [relabel_sim B I st tr d
              (fun x => ⟨by have := bnd1.lxlo x; omega, by have := bnd1.lxhi x; omega⟩)
              (fun y => ⟨by have := bnd1.lylo y; omega, by have := bnd1.lyhi y; omega⟩)]
            simp only [hf2]
          rw [e2]
          exact ⟨hB', hpost.lo, hpost.hi, fun x => Int.le_trans (hpost.monox x) (mx x),
            fun y => Int.le_trans (my y) (hpost.monoy y), hpost.un⟩

#print axioms grow_sim

/-! ### the outer loop -/

theorem initTr_s (I : Inp) (st : St) (u : Nat) (hu : u < I.nx) (x : Nat) :
    (H2.initTr I st u).s.get x = decide (x = u) := by
  simp only [H2.initTr, Vec.get_set, Vec.get_const, Vec.size_const]
  by_cases e : u = x
  · subst e; simp [hu]
  · have : ¬ x = u := fun h => e h.symm
    simp [e, this]
    try (intro _; rfl)

theorem initTr_t (I : Inp) (st : St) (u : Nat) (y : Nat) : (H2.initTr I st u).t.get y = false := by
  simp only [H2.initTr, Vec.get_const]; split <;> rfl

/-- between two phases: the invariants of `outer_correct`, the sign invariants and the label bounds -/
structure OutB (I : Inp) (W L : Int) (free : List Nat) (st : St) : Prop where
  out : OutInv I free st
  binv : BInv W st
  lo : ∀ x, -L ≤ st.lx.get x
  hi : ∀ y, st.ly.get y ≤ L + W

/-- (d) one whole phase, started between two phases with bounded labels: if it ends successfully, the checked
    inner loop returns the same state, all labels of the final state are within the bounds, and during the
    phase `lx` only decreased and `ly` only increased (so all intermediate labels are within the bounds too). -/
theorem phase_sim (I : Inp) (W L B : Int) (hw : ∀ x y, 0 ≤ I.wt x y ∧ I.wt x y ≤ W) (hW : 0 ≤ W)
    (hL : 2 * ((I.ny : Int) * W) ≤ L) (hB : L + 2 * W + 1 < B) (u : Nat) (rest : List Nat) (st st1 : St)
    (hob : OutB I W L (u :: rest) st) (huX : InX I u)
    (hg : H2.grow I u (I.ny + 1) st (H2.initTr I st u) = some st1) :
    H2B.grow B I u (I.ny + 1) st (H2.initTr I st u) = some st1 ∧ Post L W st st1 := by
  have h := hob.out
  have hfree : ∀ y, st.m.get y = true → st.mm.get y ≠ u := by
    intro y hy e; exact h.rowsDone y hy (by rw [e]; exact List.mem_cons_self)
  obtain ⟨a, b, c⟩ := initTr_inv I st u huX hfree
  have hd : DInv st u (H2.initTr I st u) 0 := by
    refine ⟨by rw [initTr_s I st u huX.1]; simp, ?_, ?_⟩
    · intro x hx; rw [initTr_s I st u huX.1] at hx; simp at hx; subst hx; omega
    · intro x hx; rw [initTr_s I st u huX.1] at hx; simp at hx; subst hx; omega
  have hpre : Pre L W st (H2.initTr I st u) := ⟨fun x _ => hob.lo x, fun y _ => hob.hi y⟩
  exact grow_sim I W L B hw hW hL hB u (I.ny + 1) st (H2.initTr I st u) _ 0 st1
    h.inv a b c hob.binv hd (Int.le_refl _) (by rw [natsucc_mul]; omega) hpre hg

theorem outer_sim (I : Inp) (W L B : Int) (hw : ∀ x y, 0 ≤ I.wt x y ∧ I.wt x y ≤ W) (hW : 0 ≤ W)
    (hL : 2 * ((I.ny : Int) * W) ≤ L) (hB : L + 2 * W + 1 < B) :
    ∀ (free : List Nat) (st st' : St), OutB I W L free st → (∀ u ∈ free, InX I u) → free.Nodup →
      H2.outer I free st = some st' → H2B.outer B I free st = some st' ∧ OutB I W L [] st' := by
  intro free
  induction free with
  | nil =>
    intro st st' h _ _ hres
    simp [H2.outer] at hres; subst hres
    exact ⟨rfl, h⟩
  | cons u rest ih =>
    intro st st' hob hX hnd hres
    have h := hob.out
    simp only [H2.outer] at hres
    cases hg : H2.grow I u (I.ny + 1) st (H2.initTr I st u) with
    | none => simp [hg] at hres
    | some st1 =>
      simp only [hg] at hres
      have hfree : ∀ y, st.m.get y = true → st.mm.get y ≠ u := by
        intro y hy e; exact h.rowsDone y hy (by rw [e]; exact List.mem_cons_self)
      have huX := hX u List.mem_cons_self
      obtain ⟨a, b, c⟩ := initTr_inv I st u huX hfree
      -- the simulation of this phase
      obtain ⟨hgB, hpost⟩ := phase_sim I W L B hw hW hL hB u rest st st1 hob huX hg
      have bnd : Bnd L W st := ⟨hob.lo, hob.binv.lxW, hob.binv.ly0, hob.hi⟩
      -- the outer invariant for the rest (as in `outer_correct`)
      obtain ⟨hinv1, hsz1, y0, hy0, hy0Y, hm1, hrows⟩ :=
        grow_correct I u (I.ny + 1) st (H2.initTr I st u) _ st1 h.inv a b c h.szmm hg
      have hnd' := List.nodup_cons.1 hnd
      have gm : ∀ y, st1.m.get y = true ↔ (st.m.get y = true ∨ y = y0) := by
        intro y; rw [hm1, Vec.get_set, h.szm]
        by_cases e : y0 = y
        · subst e; simp [hy0Y.1]
        · have : ¬ y = y0 := fun h => e h.symm
          simp [e, this]
      have h1 : OutInv I rest st1 := by
        refine ⟨hinv1, by rw [hm1]; simp [h.szm], hsz1, ?_⟩
        intro y hy hmem
        have hM : M' st y0 y := by
          rcases (gm y).1 hy with h | h
          · exact Or.inl h
          · exact Or.inr h
        rcases hrows y hM with e | ⟨c0, hc0, e⟩
        · rw [e] at hmem; exact hnd'.1 hmem
        · rw [← e] at hmem; exact h.rowsDone c0 hc0 (List.mem_cons_of_mem _ hmem)
      have hob1 : OutB I W L rest st1 := ⟨h1, hpost.binv hob.binv, hpost.lo, hpost.hi⟩
      obtain ⟨hrest, hfin⟩ := ih st1 st' hob1 (fun v hv => hX v (List.mem_cons_of_mem _ hv)) hnd'.2 hres
      refine ⟨?_, hfin⟩
      simp only [H2B.outer]
      rw [initTr_sim I W L B hW hB st bnd u]
      simp only [hgB]
      exact hrest

/-! ### initial labels and the score -/

theorem foldlM_range_sim {β : Type} (f : β → Nat → β) (g : β → Nat → Option β) (P : Nat → β → Prop) (n : Nat) (b : β)
    (h0 : P 0 b) (hstep : ∀ i b, i < n → P i b → g b i = some (f b i) ∧ P (i + 1) (f b i)) :
    (List.range n).foldlM g b = some ((List.range n).foldl f b) ∧ P n ((List.range n).foldl f b) := by
  induction n with
  | zero => exact ⟨rfl, by simpa using h0⟩
  | succ n ih =>
    obtain ⟨e, hp⟩ := ih (fun i b hi hp => hstep i b (Nat.lt_succ_of_lt hi) hp)
    obtain ⟨e2, hp2⟩ := hstep n _ (Nat.lt_succ_self n) hp
    rw [List.range_succ, List.foldlM_append, List.foldl_append, e]
    simp only [List.foldl_cons, List.foldl_nil]
    refine ⟨?_, hp2⟩
    simp [e2]

theorem rowMax_sim (I : Inp) (W B : Int) (hw : ∀ x y, 0 ≤ I.wt x y ∧ I.wt x y ≤ W) (hB : W < B) (x : Nat) :
    H2B.rowMax B I x = some (H2.rowMax I x) ∧ 0 ≤ H2.rowMax I x ∧ H2.rowMax I x ≤ W := by
  unfold H2B.rowMax H2.rowMax
  have hW : 0 ≤ W := by have := hw 0 0; omega
  refine foldlM_range_sim (fun acc y => max acc (I.wt x y)) _ (fun _ acc => 0 ≤ acc ∧ acc ≤ W) I.ny 0
    ⟨Int.le_refl _, hW⟩ ?_
  intro i b _ hb
  have a := hw x i
  rw [chk_some (by omega) (by omega)]
  simp only
  rw [chk_some (by omega) (by omega)]
  exact ⟨rfl, by omega, by omega⟩

theorem rowMax_ge' (I : Inp) (x y : Nat) (hy : y < I.ny) : I.wt x y ≤ H2.rowMax I x := by
  unfold H2.rowMax
  have := foldl_range_inv (fun acc y => max acc (I.wt x y))
    (fun n acc => ∀ y, y < n → I.wt x y ≤ acc) I.ny 0 (by intro y h; omega)
    (by
      intro i b _ hb y hy
      by_cases e : y = i
      · subst e; omega
      · have := hb y (by omega); omega)
  exact this y hy

theorem score_sim (I : Inp) (W B : Int) (hw : ∀ x y, 0 ≤ I.wt x y ∧ I.wt x y ≤ W) (hB : (I.ny : Int) * W < B)
    (mm : Vec Nat) :
    score B I mm = some ((List.range I.ny).foldl (fun acc y => if I.skipy.get y then acc else acc + I.wt (mm.get y) y) 0)
      ∧ 0 ≤ (List.range I.ny).foldl (fun acc y => if I.skipy.get y then acc else acc + I.wt (mm.get y) y) 0
      ∧ (List.range I.ny).foldl (fun acc y => if I.skipy.get y then acc else acc + I.wt (mm.get y) y) 0
          ≤ (I.ny : Int) * W := by
  unfold score
  have hW : 0 ≤ W := by have := hw 0 0; omega
  refine foldlM_range_sim (fun acc y => if I.skipy.get y then acc else acc + I.wt (mm.get y) y) _
    (fun i acc => 0 ≤ acc ∧ acc ≤ (i : Int) * W) I.ny 0 ⟨Int.le_refl _, by simp⟩ ?_
  intro i b hi hb
  have a := hw (mm.get i) i
  have e := natsucc_mul i W
  have hle : ((i + 1 : Nat) : Int) * W ≤ (I.ny : Int) * W :=
    Int.mul_le_mul_of_nonneg_right (Int.ofNat_le.2 hi) hW
  by_cases hs : I.skipy.get i = true
  · simp only [hs, if_true]
    exact ⟨trivial, by omega, by omega⟩
  · simp only [hs]
    rw [chk_some (by omega) (by omega)]
    exact ⟨rfl, by omega, by omega⟩

/-! ### the whole routine -/

/-- the initial state satisfies the between-phases invariant -/
theorem init_outB (I : Inp) (W L : Int) (hw : ∀ x y, 0 ≤ I.wt x y ∧ I.wt x y ≤ W) (hL0 : 0 ≤ L) (B : Int) (hB : W < B) :
    OutB I W L ((List.range I.nx).filter (fun x => !I.skipx.get x)).reverse
      { lx := Vec.tab I.nx (H2.rowMax I), ly := Vec.const I.ny 0, m := Vec.const I.ny false, mm := Vec.const I.ny 0 } := by
  have hW : 0 ≤ W := by have := hw 0 0; omega
  have m0 : ∀ y, (Vec.const I.ny false).get y = false := by
    intro y; simp only [Vec.get_const]; split <;> rfl
  have l0 : ∀ y, (Vec.const I.ny (0 : Int)).get y = 0 := by
    intro y; simp only [Vec.get_const]; split <;> rfl
  have lx0 : ∀ x, 0 ≤ (Vec.tab I.nx (H2.rowMax I)).get x ∧ (Vec.tab I.nx (H2.rowMax I)).get x ≤ W := by
    intro x
    rw [Vec.get_tab]
    split
    · exact (rowMax_sim I W B hw hB x).2
    · exact ⟨Int.le_refl _, hW⟩
  refine ⟨⟨⟨by simp, by simp, ?_, ?_, ?_⟩, by simp, by simp, ?_⟩, ⟨?_, ?_, ?_⟩, ?_, ?_⟩
  · intro x y hx hy _
    simp only [Vec.get_tab, Vec.get_const, hx.1, hy.1, if_true]
    have := rowMax_ge' I x y hy.1; omega
  · intro y hy; simp [m0 y] at hy
  · intro y1 _ hy; simp [m0 y1] at hy
  · intro y hy; simp [m0 y] at hy
  · intro y; simp only [l0 y]; exact Int.le_refl _
  · intro y _; exact l0 y
  · intro x; exact (lx0 x).2
  · intro x; have := (lx0 x).1; simp only; omega
  · intro y; simp only [l0 y]; omega

/-- **Main theorem.**  For weights in `[0, W]` and `(2·ny + 2)·W + 1 < B`, whenever the unbounded model returns,
    the range-checked model returns the same: no intermediate value of the routine leaves `[-B, B)` and no
    delta collides with the sentinel `B - 1`. -/
theorem run_sim (I : Inp) (W B : Int) (hw : ∀ x y, 0 ≤ I.wt x y ∧ I.wt x y ≤ W)
    (hB : (2 * (I.ny : Int) + 2) * W + 1 < B) (r : Vec Nat × Int) (h : H2.run I = some r) :
    H2B.run B I = some r := by
  have hW : 0 ≤ W := by have := hw 0 0; omega
  have hnW : 0 ≤ (I.ny : Int) * W := Int.mul_nonneg (Int.natCast_nonneg _) hW
  have e : (2 * (I.ny : Int) + 2) * W = 2 * ((I.ny : Int) * W) + 2 * W := by
    rw [Int.add_mul, Int.mul_assoc]
  rw [e] at hB
  generalize hLdef : 2 * ((I.ny : Int) * W) = L at hB
  have hL : 2 * ((I.ny : Int) * W) ≤ L := by omega
  have hL0 : 0 ≤ L := by omega
  unfold H2.run at h
  unfold H2B.run
  rw [tabM_some I.nx (H2B.rowMax B I) (H2.rowMax I) (fun i _ => (rowMax_sim I W B hw (by omega) i).1)]
  simp only
  have hfreeX : ∀ u, u ∈ ((List.range I.nx).filter (fun x => !I.skipx.get x)).reverse → InX I u := by
    intro u hu; simp at hu; exact ⟨hu.1, hu.2⟩
  have hnd : ((List.range I.nx).filter (fun x => !I.skipx.get x)).reverse.Nodup := by
    unfold List.Nodup
    rw [List.pairwise_reverse]
    exact ((List.nodup_range (n := I.nx)).filter _).imp (fun h => Ne.symm h)
  cases ho : H2.outer I ((List.range I.nx).filter (fun x => !I.skipx.get x)).reverse
      { lx := Vec.tab I.nx (H2.rowMax I), ly := Vec.const I.ny 0, m := Vec.const I.ny false, mm := Vec.const I.ny 0 } with
  | none => simp [ho] at h
  | some st =>
    simp only [ho] at h
    obtain ⟨hoB, _⟩ := outer_sim I W L B hw hW hL (by omega) _ _ st
      (init_outB I W L hw hL0 B (by omega)) hfreeX hnd ho
    simp only [hoB]
    rw [(score_sim I W B hw (by omega) st.mm).1]
    exact h

/-- Under the same hypotheses the two models agree completely (also when they fail). -/
theorem run_eq (I : Inp) (W B : Int) (hw : ∀ x y, 0 ≤ I.wt x y ∧ I.wt x y ≤ W)
    (hB : (2 * (I.ny : Int) + 2) * W + 1 < B) : H2B.run B I = H2.run I := by
  cases h : H2.run I with
  | some r => exact run_sim I W B hw hB r h
  | none =>
    cases hb : H2B.run B I with
    | none => rfl
    | some r => rw [run_conv B I r hb] at h; cases h

/-- The same with the (cruder) bound in terms of `n = max nx ny`. -/
theorem run_sim_max (I : Inp) (W B : Int) (hw : ∀ x y, 0 ≤ I.wt x y ∧ I.wt x y ≤ W)
    (hB : (4 * ((max I.nx I.ny : Nat) : Int) + 4) * W < B) (hB1 : 1 < B) (r : Vec Nat × Int)
    (h : H2.run I = some r) : H2B.run B I = some r := by
  apply run_sim I W B hw ?_ r h
  have hW : 0 ≤ W := by have := hw 0 0; omega
  have hle : (I.ny : Int) * W ≤ ((max I.nx I.ny : Nat) : Int) * W :=
    Int.mul_le_mul_of_nonneg_right (Int.ofNat_le.2 (Nat.le_max_right _ _)) hW
  have h0 : 0 ≤ (I.ny : Int) * W := Int.mul_nonneg (Int.natCast_nonneg _) hW
  have e1 : (2 * (I.ny : Int) + 2) * W = 2 * ((I.ny : Int) * W) + 2 * W := by
    rw [Int.add_mul, Int.mul_assoc]
  have e2 : (4 * ((max I.nx I.ny : Nat) : Int) + 4) * W = 4 * (((max I.nx I.ny : Nat) : Int) * W) + 4 * W := by
    rw [Int.add_mul, Int.mul_assoc]
  rw [e1]
  rw [e2] at hB
  by_cases hW0 : W = 0
  · subst hW0; simp; omega
  · omega

/-- Explicit form of the bounds: the range-checked model with the *smallest* admissible bound
    `B = (2·ny + 2)·W + 2` already agrees with the unbounded model, i.e. in every run every intermediate value
    (labels, sums `lx + ly`, deltas, partial score sums) lies in `[-((2·ny+2)·W + 2), (2·ny+2)·W + 2)`. -/
theorem run_values_bounded (I : Inp) (W : Int) (hw : ∀ x y, 0 ≤ I.wt x y ∧ I.wt x y ≤ W) :
    H2B.run ((2 * (I.ny : Int) + 2) * W + 2) I = H2.run I :=
  run_eq I W _ hw (by omega)

/-- Label bounds at the end of a run of the outer loop (and, by `Post.monox`/`Post.monoy` in `phase_sim`,
    throughout): `lx ∈ [-2·ny·W, W]`, `ly ∈ [0, (2·ny + 1)·W]`. -/
theorem outer_bounds (I : Inp) (W : Int) (hw : ∀ x y, 0 ≤ I.wt x y ∧ I.wt x y ≤ W) (st' : St)
    (h : H2.outer I ((List.range I.nx).filter (fun x => !I.skipx.get x)).reverse
      { lx := Vec.tab I.nx (H2.rowMax I), ly := Vec.const I.ny 0, m := Vec.const I.ny false, mm := Vec.const I.ny 0 }
      = some st') :
    (∀ x, -(2 * ((I.ny : Int) * W)) ≤ st'.lx.get x ∧ st'.lx.get x ≤ W) ∧
    (∀ y, 0 ≤ st'.ly.get y ∧ st'.ly.get y ≤ 2 * ((I.ny : Int) * W) + W) := by
  have hW : 0 ≤ W := by have := hw 0 0; omega
  have hnW : 0 ≤ (I.ny : Int) * W := Int.mul_nonneg (Int.natCast_nonneg _) hW
  have hfreeX : ∀ u, u ∈ ((List.range I.nx).filter (fun x => !I.skipx.get x)).reverse → InX I u := by
    intro u hu; simp at hu; exact ⟨hu.1, hu.2⟩
  have hnd : ((List.range I.nx).filter (fun x => !I.skipx.get x)).reverse.Nodup := by
    unfold List.Nodup
    rw [List.pairwise_reverse]
    exact ((List.nodup_range (n := I.nx)).filter _).imp (fun h => Ne.symm h)
  obtain ⟨_, hfin⟩ := outer_sim I W (2 * ((I.ny : Int) * W)) (2 * ((I.ny : Int) * W) + 2 * W + 2) hw hW
    (Int.le_refl _) (by omega) _ _ st'
    (init_outB I W _ hw (by omega) (W + 1) (by omega)) hfreeX hnd h
  exact ⟨fun x => ⟨hfin.lo x, hfin.binv.lxW x⟩, fun y => ⟨hfin.binv.ly0 y, hfin.hi y⟩⟩

/-- the returned score lies in `[0, ny·W]` -/
theorem run_score_bounds (I : Inp) (W : Int) (hw : ∀ x y, 0 ≤ I.wt x y ∧ I.wt x y ≤ W) (mm : Vec Nat) (sc : Int)
    (h : H2.run I = some (mm, sc)) : 0 ≤ sc ∧ sc ≤ (I.ny : Int) * W := by
  simp only [H2.run] at h
  split at h
  · cases h
  · rename_i st _
    cases h
    exact (score_sim I W ((I.ny : Int) * W + 1) hw (by omega) st.mm).2

/-! ### non-vacuity: concrete instances -/

/-- a 3×3 instance with a dummy row and a mandatory column; the run needs label updates
    (final labels `lx = [7, 4, 7]`, `ly = [0, 1, 0]`) -/
def exI : Inp :=
  { nx := 3, ny := 3,
    w := ⟨#[⟨#[7, 5, 3]⟩, ⟨#[7, 5, 4]⟩, ⟨#[7, 8, 1]⟩]⟩,
    dummy := ⟨#[false, true, false]⟩, mand := ⟨#[true, false, false]⟩,
    skipx := ⟨#[false, false, false]⟩, skipy := ⟨#[false, false, false]⟩ }

/-- the weight hypothesis of `run_sim` holds for `exI` with `W = 8` (indices out of range read `0`) -/
theorem exI_wt : ∀ x y, 0 ≤ exI.wt x y ∧ exI.wt x y ≤ 8 := by
  intro x y
  have h : ∀ x, x < 3 → ∀ y, y < 3 → 0 ≤ exI.wt x y ∧ exI.wt x y ≤ 8 := by decide
  have hs : ∀ x, x < 3 → (exI.w.get x).size = 3 := by decide
  by_cases hx : x < 3
  · by_cases hy : y < 3
    · exact h x hx y hy
    · unfold Inp.wt
      rw [Vec.get_of_size_le _ _ (by rw [hs x hx]; omega)]; decide
  · unfold Inp.wt
    rw [Vec.get_of_size_le exI.w x (by show 3 ≤ x; omega), Vec.get_of_size_le _ _ (Nat.zero_le _)]; decide

/-- the `i32` routine on `exI` -/
example : (H2B.run (2^31) exI).map (fun r => (r.1.a, r.2)) = some (#[0, 2, 1], 19) := by decide
example : (H2.run exI).map (fun r => (r.1.a, r.2)) = some (#[0, 2, 1], 19) := by decide
/-- `run_sim` applied to `exI` (all hypotheses hold: `W = 8`, `(2·3+2)·8 + 1 = 65 < 2^31`) -/
example : ∃ r, H2.run exI = some r ∧ H2B.run (2^31) exI = some r := by
  have h : (H2.run exI).isSome = true := by decide
  obtain ⟨r, hr⟩ := Option.isSome_iff_exists.1 h
  exact ⟨r, hr, run_sim exI 8 (2^31) exI_wt (by decide) r hr⟩
/-- the smallest bound allowed by `run_sim` for `exI` is `66`; the checked routine indeed succeeds there … -/
example : (H2B.run 66 exI).map (fun r => (r.1.a, r.2)) = some (#[0, 2, 1], 19) := by decide
/-- … and tiny bounds make it fail: with `B = 19` the score `19` is not representable, with `B = 8` the
    initial label `8` of row 2 is not -/
example : (H2B.run 19 exI).isNone = true := by decide
example : (H2B.run 8 exI).isNone = true := by decide
/-- the sentinel: with `B = 6` the delta `5 + 0 - 0 = 5 = B - 1` is representable but equals `LARGE_LABEL`,
    so the checked scan step fails; with `B = 7` it succeeds -/
example :
    let I : Inp := { nx := 1, ny := 1, w := ⟨#[⟨#[0]⟩]⟩, dummy := ⟨#[false]⟩, mand := ⟨#[false]⟩,
                     skipx := ⟨#[false]⟩, skipy := ⟨#[false]⟩ }
    let st : St := { lx := ⟨#[5]⟩, ly := ⟨#[0]⟩, m := ⟨#[false]⟩, mm := ⟨#[0]⟩ }
    let tr : Tr := { s := ⟨#[true]⟩, sPar := ⟨#[0]⟩, t := ⟨#[false]⟩, tPar := ⟨#[0]⟩, nlxt := ⟨#[false]⟩, nb := ⟨#[0]⟩ }
    (chk 6 5).isSome = true ∧ (scan 6 I st tr).isNone = true ∧ ((scan 7 I st tr).map (·.dmin)) = some (some 5) := by
  decide

#print axioms run_sim
#print axioms run_eq
#print axioms run_sim_max
#print axioms run_values_bounded
#print axioms outer_bounds
#print axioms run_score_bounds

end H2B
