import Cdecao.Proofs.NodeCols
import Cdecao.Model.NodeS
import Cdecao.Proofs.HungFinal
/-! Spike: the `Inp` that `runNode` hands to the Hungarian model is square once the guards of
    `runNode` have passed — the hypothesis `hsq` of `hung_partial` for every node. -/
open Finset
namespace N2
open H2

theorem countP_range_eq_card (n : Nat) (p : Nat → Bool) :
    (List.range n).countP p = #((range n).filter (fun x => p x = true)) := by
  induction n with
  | zero => simp
  | succ n ih =>
    rw [List.range_succ, List.countP_append, ih, Finset.range_add_one, filter_insert]
    by_cases h : p n = true
    · simp [h]
    · simp [h]

theorem foldl_add_eq_sum (n : Nat) (f : Nat → Nat) :
    (List.range n).foldl (fun acc c => acc + f c) 0 = ∑ c ∈ range n, f c := by
  induction n with
  | zero => simp
  | succ n ih => rw [List.range_succ, List.foldl_append, ih, sum_range_succ]; rfl

theorem liveInstructor_oob (I : Inst) (nd : Node) (hp : I.precomputeOk = true) (x : Nat) (hx : I.P ≤ x) :
    liveInstructor I nd x = false := by
  simp only [Inst.precomputeOk, Bool.and_eq_true, List.all_eq_true, decide_eq_true_eq] at hp
  rw [Bool.eq_false_iff]
  intro h
  simp only [liveInstructor, List.any_eq_true, List.mem_range, Bool.and_eq_true, List.contains_iff_mem] at h
  obtain ⟨c, hc, _, hin⟩ := h
  have hmem : I.course c ∈ I.cs := by
    simp only [Inst.course, Inst.C] at hc ⊢
    simp [List.getD_eq_getElem?_getD, List.getElem?_eq_getElem hc]
  have := hp.1 _ hmem x hin
  omega

theorem skipXBase_oob (I : Inst) (nd : Node) (hp : I.precomputeOk = true) (x : Nat) (hx : I.P ≤ x) :
    skipXBase I nd x = false := by
  simp only [skipXBase, liveInstructor_oob I nd hp x hx, Bool.or_false, Bool.and_eq_false_iff,
    decide_eq_false_iff_not]
  left; omega

theorem node_square (I : Inst) (nd : Node) (hp : I.precomputeOk = true)
    (hu : I.m + numSkipX I nd ≤ I.n + numSkipY I nd)
    (hfit : I.P + (I.n - I.m + numSkipY I nd - numSkipX I nd) ≤ I.n) :
    #(probOf (nodeInp I nd)).X = #(probOf (nodeInp I nd)).Y := by
  have hnm : I.m ≤ I.n := by unfold Inst.n; omega
  have hsq := Cols.square (numMaxOf I) (effMax I nd) I.C I.n I.P (skipXBase I nd)
    (fun c _ => effMax_le I nd c) (skipXBase_oob I nd hp)
    (numSkipX I nd) (numSkipY I nd) (I.n - I.m + numSkipY I nd - numSkipX I nd)
    (by rw [numSkipX, countP_range_eq_card])
    (by rw [numSkipY, foldl_add_eq_sum]; rfl)
    (by rw [← inv_eq]; exact hu) (by rw [← inv_eq]; rfl) hfit (by rw [← inv_eq]; exact hnm)
  have hX : (probOf (nodeInp I nd)).X = (range I.n).filter (fun x => (skipXBase I nd x ||
      (decide (I.P ≤ x) && decide (x < I.P + (I.n - I.m + numSkipY I nd - numSkipX I nd)))) = false) := by
    simp only [probOf, nodeInp]
    apply filter_congr
    intro x hx
    rw [Vec.get_tab]; simp [mem_range.1 hx]
  have hY : (probOf (nodeInp I nd)).Y = (range (Cols.inv (numMaxOf I) I.C)).filter
      (fun cp => Cols.skipY (numMaxOf I) (effMax I nd) I.C cp = false) := by
    simp only [probOf, nodeInp, ← inv_eq]
    apply filter_congr
    intro cp hcp
    have hcp' : cp < inv I I.C := by simpa [Inst.m] using hcp
    rw [Vec.get_tab, ← skipY_eq]; simp [Inst.m, hcp']
  rw [hX, hY]; exact hsq

#print axioms node_square
end N2
