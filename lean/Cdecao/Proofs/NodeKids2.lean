import Cdecao.Proofs.NodeKids
/-! Spike: the stronger node invariant needed for totality (C10) is inherited by all children:
    indices in range, cancelled courses are neither fixed nor enforced, shrink sizes are at least the
    minimum (this is what the F9 repair guarantees). -/
namespace N2
open H2

structure NodeOK2 (I : Inst) (nd : Node) : Prop where
  canc : ∀ c ∈ nd.cancelled, c < I.C ∧ (I.course c).fixed = false ∧ c ∉ nd.enforced
  enf : ∀ c ∈ nd.enforced, c < I.C
  shr : ∀ cs ∈ nd.shrinked, cs.1 < I.C ∧ (I.course cs.1).numMin ≤ cs.2

theorem createRCS_spec (I : Inst) (R : RoomFns) (nd : Node) (toSize : Nat) (allReq : Bool) :
    ∀ (l : List Nat) (sh : List (Nat × Nat)) (ca : List Nat) (r : RCS),
      createRCS I R nd toSize allReq l sh ca = some r → (∀ c ∈ l, c < I.C) →
      (∀ c ∈ ca, c < I.C ∧ (I.course c).fixed = false ∧ c ∉ nd.enforced) →
      (∀ cs ∈ sh, cs.1 < I.C ∧ (I.course cs.1).numMin ≤ cs.2) →
      (∀ c ∈ r.cancel, c < I.C ∧ (I.course c).fixed = false ∧ c ∉ nd.enforced) ∧
      (∀ cs ∈ r.shrink, cs.1 < I.C ∧ (I.course cs.1).numMin ≤ cs.2) := by
  intro l
  induction l with
  | nil =>
    intro sh ca r h _ hca hsh
    simp only [createRCS, Option.some.injEq] at h
    rw [← h]; exact ⟨hca, hsh⟩
  | cons ci rest ih =>
    intro sh ca r h hl hca hsh
    have hci : ci < I.C := hl ci (by simp)
    have hrest : ∀ c ∈ rest, c < I.C := fun c hc => hl c (by simp [hc])
    unfold createRCS at h
    dsimp only at h
    split at h
    · split at h
      · contradiction
      · exact ih _ _ _ h hrest hca hsh
    · split at h
      · split at h
        · split at h
          · contradiction
          · exact ih _ _ _ h hrest hca hsh
        · apply ih _ _ _ h hrest hca
          intro cs hcs
          rw [List.mem_append] at hcs
          rcases hcs with hcs | hcs
          · exact hsh cs hcs
          · simp only [List.mem_singleton] at hcs
            subst hcs
            exact ⟨hci, Nat.le_max_right _ _⟩
      · split at h
        · split at h
          · contradiction
          · exact ih _ _ _ h hrest hca hsh
        · rename_i hnf
          apply ih _ _ _ h hrest _ hsh
          intro c hc
          rw [List.mem_append] at hc
          rcases hc with hc | hc
          · exact hca c hc
          · simp only [List.mem_singleton] at hc
            subst hc
            simp only [Bool.or_eq_true, not_or, Bool.not_eq_true, List.contains_iff_mem] at hnf
            refine ⟨hci, hnf.2, ?_⟩
            intro hm; simp [hm] at hnf

theorem effSizes_fst (I : Inst) (R : RoomFns) (a : Nat → Option Nat) : ∀ x ∈ effSizes I R a, x.1 < I.C := by
  intro x hx
  simp only [effSizes, List.mem_map, List.mem_range] at hx
  obtain ⟨c, hc, rfl⟩ := hx
  split <;> exact hc

theorem stable_mem (l : List (Nat × Nat)) (x : Nat × Nat) : x ∈ stableByKey l ↔ x ∈ l :=
  List.mem_mergeSort

theorem selections_sub {α : Type} (l : List α) (k : Nat) : ∀ sel ∈ selections l k, ∀ x ∈ sel, x ∈ l := by
  intro sel hsel x hx
  unfold selections at hsel
  split at hsel
  · simp at hsel
  · simp only [List.mem_map] at hsel
    obtain ⟨idx, _, rfl⟩ := hsel
    simp only [List.mem_filterMap] at hx
    obtain ⟨i, _, hi⟩ := hx
    exact List.mem_of_getElem? hi

theorem checkRoom_spec (I : Inst) (R : RoomFns) (nd : Node) (a : Nat → Option Nat) (rooms : List Nat)
    (b : Bool) (sets : List RCS) (h : checkRoom I R nd a rooms = .ok (b, sets)) :
    ∀ r ∈ sets, (∀ c ∈ r.cancel, c < I.C ∧ (I.course c).fixed = false ∧ c ∉ nd.enforced) ∧
      (∀ cs ∈ r.shrink, cs.1 < I.C ∧ (I.course cs.1).numMin ≤ cs.2) := by
  have hsrc : ∀ x ∈ stableByKey (effSizes I R a), x.1 < I.C :=
    fun x hx => effSizes_fst I R a x ((stable_mem _ x).1 hx)
  unfold checkRoom at h
  dsimp only at h
  split at h
  · simp only [Except.ok.injEq, Prod.mk.injEq] at h
    rw [← h.2]; simp
  · split at h
    · contradiction
    · split at h
      · contradiction
      · split at h
        · contradiction
        · rename_i always halways
          have hal := createRCS_spec I R nd _ _ _ _ _ _ halways (by
            intro c hc
            simp only [List.mem_map, List.mem_filter] at hc
            obtain ⟨x, ⟨hx, _⟩, rfl⟩ := hc
            exact hsrc x hx) (by simp) (by simp)
          repeat' split at h
          all_goals first
            | contradiction
            | (simp only [Except.ok.injEq, Prod.mk.injEq] at h
               rw [← h.2]
               intro r hr
               simp only [List.mem_filterMap, Option.map_eq_some_iff] at hr
               obtain ⟨sel, hsel, r0, hr0, rfl⟩ := hr
               have h0 := createRCS_spec I R nd _ _ _ _ _ _ hr0 (by
                 intro c hc
                 simp only [List.mem_map] at hc
                 obtain ⟨x, hx, rfl⟩ := hc
                 have := selections_sub _ _ sel hsel x hx
                 exact hsrc x (List.mem_of_mem_drop (List.mem_of_mem_take this))) (by simp) (by simp)
               constructor
               · intro c hc
                 simp only [List.mem_append] at hc
                 rcases hc with hc | hc
                 · exact h0.1 c hc
                 · exact hal.1 c hc
               · intro cs hcs
                 simp only [List.mem_append] at hcs
                 rcases hcs with hcs | hcs
                 · exact h0.2 cs hcs
                 · exact hal.2 cs hcs)

#print axioms checkRoom_spec
end N2

namespace N2
open H2

theorem best_mem (I : Inst) (sz : Nat → Nat) (l : List Nat) (acc : Nat × Option Nat) (c : Nat)
    (h : (l.foldl (fun (acc : Nat × Option Nat) c =>
        let d := (I.course c).numMin - sz c
        if d > acc.1 then (d, some c) else acc) acc).2 = some c) : acc.2 = some c ∨ c ∈ l := by
  induction l generalizing acc with
  | nil => left; exact h
  | cons x l ih =>
    simp only [List.foldl_cons] at h
    rcases ih _ h with h' | h'
    · split at h'
      · simp only [Option.some.injEq] at h'; right; simp [h']
      · left; exact h'
    · right; simp [h']

/-- the course `check_feasibility` proposes to restrict is in range, not cancelled and not enforced -/
theorem checkFeas_bc (I : Inst) (nd : Node) (a : Nat → Option Nat) (isI : Nat → Bool) (b pprob : Bool) (c : Nat)
    (h : checkFeas I nd a isI = .ok (b, pprob, some c)) :
    c < I.C ∧ c ∉ nd.cancelled ∧ c ∉ nd.enforced := by
  unfold checkFeas at h
  dsimp only at h
  split at h
  · split at h
    · simp at h
    · rename_i rc sz tl hs
      simp only [Except.ok.injEq, Prod.mk.injEq, Option.some.injEq] at h
      obtain ⟨_, _, rfl⟩ := h
      have hm := (stable_mem _ (rc, sz)).1 (by rw [hs]; exact List.mem_cons_self)
      simp only [List.mem_map, List.mem_filter, List.mem_range, Prod.mk.injEq, Bool.and_eq_true,
        Bool.not_eq_true', List.contains_eq_mem, decide_eq_false_iff_not] at hm
      obtain ⟨x, ⟨hx, ⟨hc, he⟩, _⟩, rfl, _⟩ := hm
      exact ⟨hx, hc, he⟩
  · split at h
    · contradiction
    · rename_i hne
      simp only [Except.ok.injEq, Prod.mk.injEq] at h
      rcases best_mem I _ _ _ c h.2.2 with h' | h'
      · simp at h'
      · simp only [List.mem_filter, List.mem_range, Bool.and_eq_true, Bool.not_eq_true',
          List.contains_eq_mem, decide_eq_false_iff_not, decide_eq_true_eq] at h'
        refine ⟨h'.1, h'.2.1, ?_⟩
        intro hce
        apply hne
        rw [List.any_eq_true]
        exact ⟨c, by simp [List.mem_filter, h'.1, h'.2.1, h'.2.2], by simpa using hce⟩

theorem children_ok2 (I : Inst) (R : RoomFns) (nd : Node) (hn : NodeOK2 I nd) (kids : List Node) (sc : Nat)
    (h : runNodeS I R nd = .ok (.infeasible kids sc)) : ∀ k ∈ kids, NodeOK2 I k := by
  unfold runNodeS at h
  split at h
  · rename_i r hg
    exfalso
    unfold guards at hg
    repeat' split at hg
    all_goals first
      | (simp only [Option.some.injEq] at hg; rw [← hg] at h; simp at h; done)
      | contradiction
  · split at h
    · contradiction
    · unfold post at h
      dsimp only at h
      split at h
      · contradiction
      · rename_i r hr
        unfold roomStage at hr
        split at hr
        · simp at hr
        · split at hr
          · contradiction
          · simp at hr
          · rename_i sets hcr
            simp only [Except.ok.injEq, Option.some.injEq] at hr
            rw [← hr] at h
            simp only [Except.ok.injEq, Res.infeasible.injEq] at h
            rw [← h.1]
            intro k hk
            simp only [List.mem_map] at hk
            obtain ⟨r0, hr0, rfl⟩ := hk
            obtain ⟨hc0, hs0⟩ := checkRoom_spec I R nd _ _ _ _ hcr r0 hr0
            refine ⟨?_, hn.enf, ?_⟩
            · intro c hc
              simp only [List.mem_append] at hc
              rcases hc with hc | hc
              · exact hn.canc c hc
              · exact hc0 c hc
            · intro cs hcs
              simp only [List.mem_append] at hcs
              rcases hcs with hcs | hcs
              · exact hn.shr cs hcs
              · exact hs0 cs hcs
      · unfold feasStage at h
        split at h
        · contradiction
        · simp at h
        · rename_i pprob bc hf
          simp only [Except.ok.injEq, Res.infeasible.injEq] at h
          rw [← h.1]
          intro k hk
          split at hk
          · simp at hk
          · rename_i c
            obtain ⟨hcC, hcc, hce⟩ := checkFeas_bc I nd _ _ _ _ c hf
            simp only [List.mem_append] at hk
            rcases hk with hk | hk
            · split at hk
              · simp at hk
              · simp only [List.mem_singleton] at hk
                subst hk
                refine ⟨?_, ?_, hn.shr⟩
                · intro c' hc'
                  obtain ⟨h1, h2, h3⟩ := hn.canc c' hc'
                  refine ⟨h1, h2, ?_⟩
                  simp only [List.mem_append, List.mem_singleton, not_or]
                  exact ⟨h3, fun he => hcc (he ▸ hc')⟩
                · intro c' hc'
                  simp only [List.mem_append, List.mem_singleton] at hc'
                  rcases hc' with hc' | rfl
                  · exact hn.enf c' hc'
                  · exact hcC
            · split at hk
              · simp at hk
              · rename_i hf'
                simp only [List.mem_singleton] at hk
                subst hk
                refine ⟨?_, hn.enf, hn.shr⟩
                intro c' hc'
                simp only [List.mem_append, List.mem_singleton] at hc'
                rcases hc' with hc' | rfl
                · exact hn.canc c' hc'
                · exact ⟨hcC, by simpa using hf', hce⟩

#print axioms children_ok2
end N2
