import Cdecao.Model.Simple
import Cdecao.Model.Listing
/-! Shape lemmas for the simple-format reader (`SM.read`): one problem entry per document entry, in
    document order, every field the document's member; specification of `SM.dedup`; a structured
    form (`LM'.blocks`) of the printed listing. Core only. -/
namespace SM
open JS

/-! ### `mapM'` -/

theorem mapM'_some {α β : Type} (f : α → M β) :
    ∀ (l : List α) (r : List β), mapM' f l = .ok r →
      r.length = l.length ∧ ∀ i (h : i < l.length) (h' : i < r.length), f l[i] = .ok r[i]
  | [], r, h => by
    simp only [mapM', Except.ok.injEq] at h; subst h
    exact ⟨rfl, fun i h _ => absurd h (Nat.not_lt_zero i)⟩
  | x :: xs, r, h => by
    simp only [mapM'] at h
    cases hx : f x with
    | error e => rw [hx] at h; cases h
    | ok y =>
      rw [hx] at h
      cases hxs : mapM' f xs with
      | error e => rw [hxs] at h; cases h
      | ok ys =>
        rw [hxs] at h
        simp only [Except.ok.injEq] at h; subst h
        obtain ⟨hl, hi⟩ := mapM'_some f xs ys hxs
        refine ⟨by simp [hl], fun i h h' => ?_⟩
        cases i with
        | zero => simpa using hx
        | succ i => simpa using hi i (by simpa using h) (by simpa using h')

theorem mapM'_length {α β : Type} (f : α → M β) (l : List α) (r : List β)
    (h : mapM' f l = .ok r) : r.length = l.length :=
  (mapM'_some f l r h).1

theorem mapM'_getElem {α β : Type} (f : α → M β) (l : List α) (r : List β)
    (h : mapM' f l = .ok r) (i : Nat) (hi : i < l.length) (hi' : i < r.length) :
    f l[i] = .ok r[i] :=
  (mapM'_some f l r h).2 i hi hi'

/-- conversely: if `f` succeeds on every element, `mapM'` delivers exactly those results -/
theorem mapM'_ok_of_all {α β : Type} (f : α → M β) :
    ∀ (l : List α) (r : List β), r.length = l.length →
      (∀ i (h : i < l.length) (h' : i < r.length), f l[i] = .ok r[i]) → mapM' f l = .ok r
  | [], r, hl, _ => by
    cases r with
    | nil => rfl
    | cons _ _ => simp at hl
  | x :: xs, r, hl, hi => by
    cases r with
    | nil => simp at hl
    | cons y ys =>
      have h0 : f x = .ok y := hi 0 (Nat.zero_lt_succ _) (Nat.zero_lt_succ _)
      have hxs : mapM' f xs = .ok ys :=
        mapM'_ok_of_all f xs ys (by simpa using hl) (fun i h h' =>
          hi (i + 1) (Nat.succ_lt_succ h) (Nat.succ_lt_succ h'))
      simp only [mapM', h0, hxs]

/-- a single failing element refuses the whole list -/
theorem mapM'_error_of_bad {α β : Type} (f : α → M β) :
    ∀ (l : List α) (x : α) (e : String), x ∈ l → f x = .error e → ∃ e', mapM' f l = .error e'
  | [], _, _, h, _ => by simp at h
  | y :: ys, x, e, h, hx => by
    simp only [mapM']
    rcases List.mem_cons.1 h with rfl | h
    · rw [hx]; exact ⟨e, rfl⟩
    · obtain ⟨e', he'⟩ := mapM'_error_of_bad f ys x e h hx
      rw [he']
      cases f y with
      | error e2 => exact ⟨e2, rfl⟩
      | ok _ => exact ⟨e', rfl⟩

/-- if every success of `f` determines its input (`f x = ok y → x = g y`), a successful `mapM'`
    determines the input list -/
theorem mapM'_inv {α β : Type} (f : α → M β) (g : β → α) (hg : ∀ x y, f x = .ok y → x = g y)
    : ∀ (l : List α) (r : List β), mapM' f l = .ok r → l = r.map g
  | [], r, h => by
    simp only [mapM', Except.ok.injEq] at h; subst h; rfl
  | x :: xs, r, h => by
    simp only [mapM'] at h
    cases hx : f x with
    | error e => rw [hx] at h; cases h
    | ok y =>
      rw [hx] at h
      cases hxs : mapM' f xs with
      | error e => rw [hxs] at h; cases h
      | ok ys =>
        rw [hxs] at h
        simp only [Except.ok.injEq] at h; subst h
        simp [hg x y hx, ← mapM'_inv f g hg xs ys hxs]

/-! ### `dedup` -/

theorem mem_dedup (x : Nat) : ∀ (l seen : List Nat), x ∈ dedup seen l ↔ x ∈ l ∧ x ∉ seen
  | [], seen => by simp [dedup]
  | y :: ys, seen => by
    simp only [dedup]
    by_cases hy : seen.contains y = true
    · rw [if_pos hy, mem_dedup x ys seen]
      have hy' : y ∈ seen := by simpa using hy
      constructor
      · rintro ⟨h1, h2⟩; exact ⟨List.mem_cons_of_mem _ h1, h2⟩
      · rintro ⟨h1, h2⟩
        rcases List.mem_cons.1 h1 with rfl | h1
        · exact absurd hy' h2
        · exact ⟨h1, h2⟩
    · rw [if_neg hy, List.mem_cons, mem_dedup x ys (y :: seen)]
      have hy' : y ∉ seen := by simpa using hy
      constructor
      · rintro (rfl | ⟨h1, h2⟩)
        · exact ⟨List.mem_cons_self, hy'⟩
        · exact ⟨List.mem_cons_of_mem _ h1, fun h => h2 (List.mem_cons_of_mem _ h)⟩
      · rintro ⟨h1, h2⟩
        by_cases hxy : x = y
        · exact Or.inl hxy
        · rcases List.mem_cons.1 h1 with h | h
          · exact absurd h hxy
          · refine Or.inr ⟨h, fun h3 => ?_⟩
            rcases List.mem_cons.1 h3 with h4 | h4
            · exact hxy h4
            · exact h2 h4

theorem dedup_nodup : ∀ (l seen : List Nat), (dedup seen l).Nodup
  | [], _ => by simp [dedup]
  | y :: ys, seen => by
    simp only [dedup]
    split
    · exact dedup_nodup ys seen
    · refine List.nodup_cons.2 ⟨fun h => ?_, dedup_nodup ys (y :: seen)⟩
      exact ((mem_dedup y ys (y :: seen)).1 h).2 List.mem_cons_self

theorem dedup_sublist : ∀ (l seen : List Nat), List.Sublist (dedup seen l) l
  | [], _ => by simp [dedup]
  | y :: ys, seen => by
    simp only [dedup]
    split
    · exact (dedup_sublist ys seen).cons _
    · exact (dedup_sublist ys (y :: seen)).cons_cons _

/-- exact description: drop what was seen already, then keep first occurrences only -/
theorem dedup_eq_eraseDups : ∀ (l seen : List Nat),
    dedup seen l = (l.filter (fun x => !seen.contains x)).eraseDups
  | [], _ => by simp [dedup]
  | y :: ys, seen => by
    simp only [dedup]
    by_cases hy : seen.contains y = true
    · rw [if_pos hy, List.filter_cons_of_neg (by simpa using hy), dedup_eq_eraseDups ys seen]
    · rw [if_neg hy, List.filter_cons_of_pos (by simpa using hy), List.eraseDups_cons,
        dedup_eq_eraseDups ys (y :: seen), List.filter_filter]
      congr 2
      apply List.filter_congr
      intro x _
      simp only [List.contains_cons, Bool.not_or]

theorem dedup_nil_eq_eraseDups (l : List Nat) : dedup [] l = l.eraseDups := by
  rw [dedup_eq_eraseDups]
  have : l.filter (fun x => !([] : List Nat).contains x) = l := by
    rw [List.filter_eq_self]; intro a _; rfl
  rw [this]

/-! ### the scalar readers determine their input -/

theorem field_ok {kv : List (String × J)} {k : String} {v : J} (h : field kv k = .ok v) :
    J.lookup k kv = some v := by
  unfold field at h
  split at h
  · rename_i w hw; cases h; exact hw
  · cases h

theorem field_bind_ok {β : Type} {kv : List (String × J)} {k : String} {g : J → M β} {b : β}
    (h : (field kv k).bind g = .ok b) : ∃ v, J.lookup k kv = some v ∧ g v = .ok b := by
  cases hf : field kv k with
  | error e => rw [hf] at h; cases h
  | ok v => rw [hf] at h; exact ⟨v, field_ok hf, h⟩

theorem optField_ok {β : Type} {kv : List (String × J)} {k : String} {f : J → M β} {d b : β}
    (h : optField kv k f d = .ok b) :
    (J.lookup k kv = none ∧ b = d) ∨ ∃ v, J.lookup k kv = some v ∧ f v = .ok b := by
  unfold optField at h
  split at h
  · rename_i hn; cases h; exact Or.inl ⟨hn, rfl⟩
  · rename_i v hv; exact Or.inr ⟨v, hv, h⟩

theorem asUsize_ok {j : J} {n : Nat} (h : asUsize j = .ok n) :
    j = .num (.pos n) ∧ n ≤ J.U64_MAX := by
  unfold asUsize at h
  split at h
  · split at h
    · rename_i hn; cases h; exact ⟨rfl, hn⟩
    · cases h
  · cases h

theorem asU32_ok {j : J} {n : Nat} (h : asU32 j = .ok n) :
    j = .num (.pos n) ∧ n ≤ U32_MAX := by
  unfold asU32 at h
  split at h
  · split at h
    · rename_i hn; cases h; exact ⟨rfl, hn⟩
    · cases h
  · cases h

theorem asStr_some {j : J} {s : String} (h : j.asStr = some s) : j = .str s := by
  cases j <;> simp [J.asStr] at h
  subst h; rfl

theorem asBool_some {j : J} {b : Bool} (h : j.asBool = some b) : j = .bool b := by
  cases j <;> simp [J.asBool] at h
  subst h; rfl

theorem asVec_ok {β : Type} {f : J → M β} {j : J} {r : List β} (h : asVec f j = .ok r) :
    ∃ l, j = .arr l ∧ mapM' f l = .ok r := by
  unfold asVec at h
  split at h
  · rename_i l; exact ⟨l, rfl, h⟩
  · cases h

/-! ### `choiceOf`, `partOf`, `courseOf`: every field is the document's member -/

theorem choiceOf_fields {j : J} {ch : N2.Choice} (h : choiceOf j = .ok ch) :
    ∃ kv, j = .obj kv ∧
      J.lookup "course" kv = some (.num (.pos ch.course)) ∧ ch.course ≤ J.U64_MAX ∧
      J.lookup "penalty" kv = some (.num (.pos ch.penalty)) ∧ ch.penalty ≤ U32_MAX := by
  unfold choiceOf at h
  split at h
  · rename_i kv
    refine ⟨kv, rfl, ?_⟩
    split at h
    · cases h
    · rename_i c hc
      split at h
      · cases h
      · rename_i course hcourse
        split at h
        · cases h
        · rename_i p hp
          split at h
          · cases h
          · rename_i penalty hpen
            cases h
            obtain ⟨rfl, h1⟩ := asUsize_ok hcourse
            obtain ⟨rfl, h2⟩ := asU32_ok hpen
            exact ⟨field_ok hc, h1, field_ok hp, h2⟩
  · cases h

theorem partOf_obj {j : J} {p : PartD} (h : partOf j = .ok p) : ∃ kv, j = .obj kv := by
  unfold partOf at h
  split at h
  · exact ⟨_, rfl⟩
  · cases h

theorem partOf_fields {kv : List (String × J)} {p : PartD} (h : partOf (.obj kv) = .ok p) :
    J.lookup "name" kv = some (.str p.name) ∧
    ∃ cl, J.lookup "choices" kv = some (.arr cl) ∧ p.choices.length = cl.length ∧
      ∀ i (hi : i < cl.length) (hi' : i < p.choices.length), choiceOf cl[i] = .ok p.choices[i] := by
  simp only [partOf] at h
  split at h
  · cases h
  · rename_i n hn
    split at h
    · cases h
    · rename_i name hname
      split at h
      · cases h
      · rename_i c hc
        split at h
        · cases h
        · rename_i choices hch
          cases h
          obtain ⟨cl, rfl, hm⟩ := asVec_ok hch
          rw [asStr_some hname] at hn
          exact ⟨field_ok hn, cl, field_ok hc, mapM'_length _ _ _ hm, mapM'_getElem _ _ _ hm⟩

theorem courseOf_obj {j : J} {c : CourseD} (h : courseOf j = .ok c) : ∃ kv, j = .obj kv := by
  unfold courseOf at h
  split at h
  · exact ⟨_, rfl⟩
  · cases h

theorem courseOf_fields {kv : List (String × J)} {c : CourseD} (h : courseOf (.obj kv) = .ok c) :
    J.lookup "name" kv = some (.str c.name) ∧
    (J.lookup "num_max" kv = some (.num (.pos c.numMax)) ∧ c.numMax ≤ J.U64_MAX) ∧
    (J.lookup "num_min" kv = some (.num (.pos c.numMin)) ∧ c.numMin ≤ J.U64_MAX) ∧
    (∃ l : List Nat, J.lookup "instructors" kv = some (.arr (l.map (fun n => .num (.pos n)))) ∧
        (∀ n ∈ l, n ≤ J.U64_MAX) ∧ c.instructors = dedup [] l) ∧
    ((J.lookup "room_factor" kv = none ∧ c.factor = none) ∨
      ∃ n, J.lookup "room_factor" kv = some (.num n) ∧ c.factor = some n) ∧
    ((J.lookup "room_offset" kv = none ∧ c.offset = none) ∨
      ∃ n, J.lookup "room_offset" kv = some (.num n) ∧ c.offset = some n) ∧
    ((J.lookup "fixed_course" kv = none ∧ c.fixed = false) ∨
      J.lookup "fixed_course" kv = some (.bool c.fixed)) ∧
    ((J.lookup "hidden_participant_names" kv = none ∧ c.hidden = []) ∨
      J.lookup "hidden_participant_names" kv = some (.arr (c.hidden.map .str))) := by
  simp only [courseOf] at h
  split at h
  · cases h
  · rename_i n hn
    split at h
    · cases h
    · rename_i name hname
      split at h
      · cases h
      · rename_i numMax hmax
        split at h
        · cases h
        · rename_i numMin hmin
          split at h
          · cases h
          · rename_i instr hinstr
            split at h
            · cases h
            · rename_i factor hfac
              split at h
              · cases h
              · rename_i offset hoff
                split at h
                · cases h
                · rename_i fixed hfix
                  split at h
                  · cases h
                  · rename_i hidden hhid
                    cases h
                    rw [asStr_some hname] at hn
                    refine ⟨field_ok hn, ?_, ?_, ?_, ?_, ?_, ?_, ?_⟩
                    · obtain ⟨v, hv, h2⟩ := field_bind_ok hmax
                      obtain ⟨rfl, h3⟩ := asUsize_ok h2
                      exact ⟨hv, h3⟩
                    · obtain ⟨v, hv, h2⟩ := field_bind_ok hmin
                      obtain ⟨rfl, h3⟩ := asUsize_ok h2
                      exact ⟨hv, h3⟩
                    · obtain ⟨v, hv, h2⟩ := field_bind_ok hinstr
                      obtain ⟨il, rfl, hm⟩ := asVec_ok h2
                      refine ⟨instr, ?_, ?_, rfl⟩
                      · rw [hv, mapM'_inv asUsize (fun n => .num (.pos n))
                          (fun x y hxy => (asUsize_ok hxy).1) il instr hm]
                      · intro n hn'
                        obtain ⟨i, hi, rfl⟩ := List.getElem_of_mem hn'
                        have hi2 : i < il.length := by rw [← mapM'_length _ _ _ hm]; exact hi
                        exact (asUsize_ok (mapM'_getElem _ _ _ hm i hi2 hi)).2
                    · rcases optField_ok hfac with ⟨h1, h2⟩ | ⟨v, hv, h2⟩
                      · exact Or.inl ⟨h1, h2⟩
                      · cases v <;> simp [asF32, Except.map] at h2
                        rename_i x; exact Or.inr ⟨x, hv, h2.symm⟩
                    · rcases optField_ok hoff with ⟨h1, h2⟩ | ⟨v, hv, h2⟩
                      · exact Or.inl ⟨h1, h2⟩
                      · cases v <;> simp [asF32, Except.map] at h2
                        rename_i x; exact Or.inr ⟨x, hv, h2.symm⟩
                    · rcases optField_ok hfix with ⟨h1, h2⟩ | ⟨v, hv, h2⟩
                      · exact Or.inl ⟨h1, h2⟩
                      · right
                        split at h2
                        · rename_i b hb; cases h2; rw [hv, asBool_some hb]
                        · cases h2
                    · rcases optField_ok hhid with ⟨h1, h2⟩ | ⟨v, hv, h2⟩
                      · exact Or.inl ⟨h1, h2⟩
                      · right
                        obtain ⟨hl, rfl, hm⟩ := asVec_ok h2
                        rw [hv, mapM'_inv _ J.str (fun x y hxy => by
                          split at hxy
                          · rename_i s hs; cases hxy; exact asStr_some hs
                          · cases hxy) hl hidden hm]

/-! ### `read`: one problem entry per document entry, in document order -/

theorem read_shape {j : J} {ps : List PartD} {cs : List CourseD} (h : read j = .ok (ps, cs)) :
    ∃ pv cv : List J,
      j.get "participants" = some (.arr pv) ∧ j.get "courses" = some (.arr cv) ∧
      ps.length = pv.length ∧ cs.length = cv.length ∧
      (∀ i (hi : i < pv.length) (hi' : i < ps.length), partOf pv[i] = .ok ps[i]) ∧
      (∀ i (hi : i < cv.length) (hi' : i < cs.length), courseOf cv[i] = .ok cs[i]) := by
  unfold read at h
  split at h
  · cases h
  · rename_i pj hpj
    split at h
    · cases h
    · rename_i parts hparts
      split at h
      · cases h
      · rename_i cj hcj
        split at h
        · cases h
        · rename_i courses hcourses
          cases h
          obtain ⟨pv, rfl, hp⟩ := asVec_ok hparts
          obtain ⟨cv, rfl, hc⟩ := asVec_ok hcourses
          exact ⟨pv, cv, hpj, hcj, mapM'_length _ _ _ hp, mapM'_length _ _ _ hc,
            mapM'_getElem _ _ _ hp, mapM'_getElem _ _ _ hc⟩

/-- conversely, `read` succeeds on every document whose two arrays parse entry by entry -/
theorem read_of_shape {j : J} {pv cv : List J} {ps : List PartD} {cs : List CourseD}
    (hp : j.get "participants" = some (.arr pv)) (hc : j.get "courses" = some (.arr cv))
    (hpl : ps.length = pv.length) (hcl : cs.length = cv.length)
    (hpi : ∀ i (hi : i < pv.length) (hi' : i < ps.length), partOf pv[i] = .ok ps[i])
    (hci : ∀ i (hi : i < cv.length) (hi' : i < cs.length), courseOf cv[i] = .ok cs[i]) :
    read j = .ok (ps, cs) := by
  simp only [read, hp, hc, asVec, mapM'_ok_of_all _ _ _ hpl hpi, mapM'_ok_of_all _ _ _ hcl hci]

/-- a single entry that does not parse refuses the whole document -/
theorem read_error_of_bad_participant {j : J} {pv : List J} {x : J} {e : String}
    (hp : j.get "participants" = some (.arr pv)) (hx : x ∈ pv) (he : partOf x = .error e) :
    ∃ e', read j = .error e' := by
  obtain ⟨e', he'⟩ := mapM'_error_of_bad partOf pv x e hx he
  exact ⟨e', by simp only [read, hp, asVec, he']⟩

theorem toInst_P (ps : List PartD) (cs : List CourseD) (rooms : Option (List Nat)) :
    (toInst ps cs rooms).P = ps.length := by
  simp [toInst, N2.Inst.P]

theorem toInst_C (ps : List PartD) (cs : List CourseD) (rooms : Option (List Nat)) :
    (toInst ps cs rooms).C = cs.length := by
  simp [toInst, N2.Inst.C]

end SM

/-! ### the printed listing, structured -/
namespace LM'
open N2 LM

/-- what is printed for one course -/
structure Block where
  /-- the name in the `===== … =====` header -/
  name : String
  /-- the number in "(… participants incl. instructors)" -/
  count : Nat
  /-- the "(possible course rooms: …)" line, when rooms are given -/
  rooms : Option String
  /-- the "- name[ (instr)]" lines: participant index, instructor flag -/
  entries : List (Nat × Bool)
  /-- the names under "further attendees (not optimized):" -/
  hidden : List String

def block (I : Inst) (a : Nat → Option Nat) (cnames : List String) (hidden : List (List String))
    (rooms : Option (List String)) (c : Nat) : Block :=
  { name := cnames.getD c ""
    count := (entries I a c).length + (hidden.getD c []).length
    rooms := rooms.map (fun r => r.getD c "")
    entries := entries I a c
    hidden := hidden.getD c [] }

/-- one block per course, in course order -/
def blocks (I : Inst) (a : Nat → Option Nat) (cnames : List String) (hidden : List (List String))
    (rooms : Option (List String)) : List Block :=
  (List.range I.C).map (block I a cnames hidden rooms)

/-- the text of one block (`pname`: participant index ↦ printed name) -/
def renderBlock (pname : Nat → String) (b : Block) : String :=
  "\n===== " ++ b.name ++ " =====\n" ++
  "(" ++ toString b.count ++ " participants incl. instructors)\n" ++
  (match b.rooms with
   | some r => "(possible course rooms: " ++ r ++ ")\n"
   | none => "") ++
  String.join (b.entries.map (fun (p, ins) => "- " ++ pname p ++ (if ins then " (instr)" else "") ++ "\n")) ++
  (if b.hidden.isEmpty then "" else
    "further attendees (not optimized):\n" ++ String.join (b.hidden.map (fun n => "- " ++ n ++ "\n")))

theorem renderBlock_block (I : Inst) (a : Nat → Option Nat) (cnames pnames : List String)
    (hidden : List (List String)) (rooms : Option (List String)) (c : Nat) :
    renderBlock (fun p => pnames.getD p "") (block I a cnames hidden rooms c) =
      renderCourse I a (cnames.getD c "") (fun p => pnames.getD p "") (hidden.getD c [])
        (rooms.map (fun r => r.getD c "")) c := rfl

/-- the printed listing is the concatenation of the blocks' texts -/
theorem render_eq_blocks (I : Inst) (a : Nat → Option Nat) (cnames pnames : List String)
    (hidden : List (List String)) (rooms : Option (List String)) :
    render I a cnames pnames hidden rooms =
      String.join ((blocks I a cnames hidden rooms).map (renderBlock (fun p => pnames.getD p ""))) := by
  unfold render blocks
  rw [List.map_map]
  rfl

theorem blocks_length (I : Inst) (a : Nat → Option Nat) (cnames : List String)
    (hidden : List (List String)) (rooms : Option (List String)) :
    (blocks I a cnames hidden rooms).length = I.C := by
  simp [blocks]

theorem blocks_getElem (I : Inst) (a : Nat → Option Nat) (cnames : List String)
    (hidden : List (List String)) (rooms : Option (List String)) (c : Nat)
    (h : c < (blocks I a cnames hidden rooms).length) :
    (blocks I a cnames hidden rooms)[c] = block I a cnames hidden rooms c := by
  simp [blocks]

theorem entries_length (I : Inst) (a : Nat → Option Nat) (c : Nat) :
    (entries I a c).length = (List.range I.P).countP (fun p => a p == some c) := by
  simp [entries, List.countP_eq_length_filter]

end LM'
