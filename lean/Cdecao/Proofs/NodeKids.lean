import Cdecao.Proofs.NodeThm
/-! Spike: the node invariant `NodeOK` (no fixed course is cancelled) is inherited by every child that
    `runNodeS` produces — both branching rules of `check_feasibility` and every room constraint set. -/
namespace N2
open H2

theorem createRCS_cancel (I : Inst) (R : RoomFns) (nd : Node) (toSize : Nat) (allReq : Bool) :
    ∀ (l : List Nat) (sh : List (Nat × Nat)) (ca : List Nat) (r : RCS),
      createRCS I R nd toSize allReq l sh ca = some r →
      (∀ c ∈ ca, (I.course c).fixed = false) → ∀ c ∈ r.cancel, (I.course c).fixed = false := by
  intro l
  induction l with
  | nil =>
    intro sh ca r h hca
    simp only [createRCS, Option.some.injEq] at h
    rw [← h]; exact hca
  | cons ci rest ih =>
    intro sh ca r h hca
    unfold createRCS at h
    dsimp only at h
    split at h
    · split at h
      · contradiction
      · exact ih _ _ _ h hca
    · split at h
      · split at h
        · split at h
          · contradiction
          · exact ih _ _ _ h hca
        · exact ih _ _ _ h hca
      · split at h
        · split at h
          · contradiction
          · exact ih _ _ _ h hca
        · rename_i hnf
          apply ih _ _ _ h
          intro c hc
          rw [List.mem_append] at hc
          rcases hc with hc | hc
          · exact hca c hc
          · simp only [List.mem_singleton] at hc
            subst hc
            simp only [Bool.or_eq_true, not_or, Bool.not_eq_true] at hnf
            exact hnf.2

theorem checkRoom_cancel (I : Inst) (R : RoomFns) (nd : Node) (a : Nat → Option Nat) (rooms : List Nat)
    (b : Bool) (sets : List RCS) (h : checkRoom I R nd a rooms = .ok (b, sets)) :
    ∀ r ∈ sets, ∀ c ∈ r.cancel, (I.course c).fixed = false := by
  unfold checkRoom at h
  dsimp only at h
  split at h
  · simp only [Except.ok.injEq, Prod.mk.injEq] at h
    rw [← h.2]; simp
  · split at h
    · contradiction
    · split at h
      · contradiction
      · split at h
        · contradiction
        · rename_i always halways
          repeat' split at h
          all_goals first
            | contradiction
            | (simp only [Except.ok.injEq, Prod.mk.injEq] at h
               rw [← h.2]
               intro r hr c hc
               simp only [List.mem_filterMap, Option.map_eq_some_iff] at hr
               obtain ⟨sel, _, r0, hr0, rfl⟩ := hr
               simp only [List.mem_append] at hc
               rcases hc with hc | hc
               · exact createRCS_cancel I R nd _ _ _ _ _ _ hr0 (by simp) c hc
               · exact createRCS_cancel I R nd _ _ _ _ _ _ halways (by simp) c hc)

theorem children_ok (I : Inst) (R : RoomFns) (nd : Node) (hn : NodeOK I nd) (kids : List Node) (sc : Nat)
    (h : runNodeS I R nd = .ok (.infeasible kids sc)) : ∀ k ∈ kids, NodeOK I k := by
  unfold runNodeS at h
  split at h
  · rename_i r hg
    exfalso
    unfold guards at hg
    repeat' split at hg
    all_goals first
      | (simp only [Option.some.injEq] at hg; rw [← hg] at h; simp at h; done)
      | contradiction
  · split at h
    · contradiction
    · unfold post at h
      dsimp only at h
      split at h
      · contradiction
      · rename_i r hr
        -- children from a room constraint set
        unfold roomStage at hr
        split at hr
        · simp at hr
        · split at hr
          · contradiction
          · simp at hr
          · rename_i sets hcr
            simp only [Except.ok.injEq, Option.some.injEq] at hr
            rw [← hr] at h
            simp only [Except.ok.injEq, Res.infeasible.injEq] at h
            rw [← h.1]
            intro k hk c hc
            simp only [List.mem_map] at hk
            obtain ⟨r0, hr0, rfl⟩ := hk
            simp only [List.mem_append] at hc
            rcases hc with hc | hc
            · exact hn c hc
            · exact checkRoom_cancel I R nd _ _ _ _ hcr r0 hr0 c hc
      · -- children from check_feasibility
        unfold feasStage at h
        split at h
        · contradiction
        · simp at h
        · rename_i pprob bc _
          simp only [Except.ok.injEq, Res.infeasible.injEq] at h
          rw [← h.1]
          intro k hk
          split at hk
          · simp at hk
          · rename_i c
            simp only [List.mem_append] at hk
            rcases hk with hk | hk
            · split at hk
              · simp at hk
              · simp only [List.mem_singleton] at hk
                subst hk; exact hn
            · split at hk
              · simp at hk
              · rename_i hf
                simp only [List.mem_singleton] at hk
                subst hk
                intro c' hc'
                simp only [List.mem_append, List.mem_singleton] at hc'
                rcases hc' with hc' | hc'
                · exact hn c' hc'
                · subst hc'; simpa using hf

#print axioms children_ok
end N2
