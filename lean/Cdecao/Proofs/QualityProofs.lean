import Cdecao.Model.Score
import Cdecao.Proofs.SpecExec
/-! # C08 (quality half): the figures of caobab/solution_score.rs

* `max_ge`: the "perfect matching" score `QM.theoreticalMax` bounds the documented score
  `G.scoreOfL I a` of every assignment `a` — no hypothesis at all.
* `quality_identity`: if no penalty exceeds `W`, then for every assignment
  `scoreOfL I a + Σ_{p with choices} penaltyPaid I a p = numReal I * W`, so the numerator of the
  reported quality lack is exactly the sum of the penalties paid, and the subtraction in the code
  never underflows.
* `penaltyPaid_hard`: under `HardOK` the penalty paid by a participant with choices is `0` (the
  participant instructs the course they are assigned to) or the penalty of one of the
  participant's own choices, which names the assigned course — the fall-back value `W` never occurs.
* `quality_lack`, `combined_lack`: the two quality figures as (sum of penalties, head count).
-/
namespace QM
open N2 N2.G

/-! ### list sums -/

theorem list_sum_le {l : List Nat} {f g : Nat → Nat} (h : ∀ i ∈ l, f i ≤ g i) :
    (l.map f).sum ≤ (l.map g).sum := by
  induction l with
  | nil => simp
  | cons a r ih =>
    simp only [List.map_cons, List.sum_cons]
    have h1 := h a (by simp)
    have h2 := ih (fun i hi => h i (by simp [hi]))
    omega

theorem list_sum_congr {l : List Nat} {f g : Nat → Nat} (h : ∀ i ∈ l, f i = g i) :
    (l.map f).sum = (l.map g).sum := by
  rw [List.map_congr_left h]

theorem list_sum_add (l : List Nat) (f g : Nat → Nat) :
    (l.map (fun i => f i + g i)).sum = (l.map f).sum + (l.map g).sum := by
  induction l with
  | nil => simp
  | cons a r ih => simp only [List.map_cons, List.sum_cons, ih]; omega

theorem list_sum_ite_const (l : List Nat) (p : Nat → Bool) (k : Nat) :
    (l.map (fun i => if p i = true then k else 0)).sum = l.countP p * k := by
  induction l with
  | nil => simp
  | cons a r ih =>
    simp only [List.map_cons, List.sum_cons, ih, List.countP_cons]
    cases p a <;> simp [Nat.add_mul, Nat.add_comm]

theorem list_sum_filter (l : List Nat) (p : Nat → Bool) (f : Nat → Nat) :
    (l.map (fun i => if p i = true then f i else 0)).sum = ((l.filter p).map f).sum := by
  induction l with
  | nil => simp
  | cons a r ih =>
    simp only [List.map_cons, List.sum_cons, ih, List.filter_cons]
    cases p a <;> simp

/-! ### the edge weight -/

/-- the choice by which participant `p` attends course `c`: the last choice naming the course
    (the one that determines the edge weight) -/
def attended (I : Inst) (p c : Nat) : Option Choice :=
  (I.part p).choices.reverse.find? (fun ch => ch.course == c)

theorem weightOf_eq (I : Inst) (p c : Nat) :
    weightOf I p c = match attended I p c with | some ch => W - ch.penalty | none => 0 := rfl

theorem attended_some {I : Inst} {p c : Nat} {ch : Choice} (h : attended I p c = some ch) :
    ch ∈ (I.part p).choices ∧ ch.course = c := by
  unfold attended at h
  have h1 := List.mem_of_find?_eq_some h
  have h2 := List.find?_some h
  exact ⟨by simpa using h1, by simpa using h2⟩

theorem attended_none {I : Inst} {p c : Nat} (h : attended I p c = none) :
    ∀ ch ∈ (I.part p).choices, ch.course ≠ c := by
  unfold attended at h
  rw [List.find?_eq_none] at h
  intro ch hch e
  have := h ch (by simpa using hch)
  simp [e] at this

/-- if no course is named twice, the attended choice is the one naming the course -/
theorem attended_unique {I : Inst} {p c : Nat} {ch ch' : Choice}
    (hnd : ((I.part p).choices.map (fun ch => ch.course)).Nodup)
    (h : attended I p c = some ch) (hm : ch' ∈ (I.part p).choices) (hc : ch'.course = c) : ch' = ch := by
  obtain ⟨h1, h2⟩ := attended_some h
  exact List.inj_on_of_nodup_map hnd hm h1 (by rw [hc, h2])

theorem weightOf_le_W (I : Inst) (p c : Nat) : weightOf I p c ≤ W := by
  rw [weightOf_eq]; split
  · exact Nat.sub_le _ _
  · exact Nat.zero_le _

theorem weightOf_le_best (I : Inst) (p c : Nat) : weightOf I p c ≤ bestChoice I p := by
  rw [weightOf_eq]
  split
  · rename_i ch h
    obtain ⟨hm, _⟩ := attended_some h
    exact (N2.foldl_max_ge _ 0).2 _ (List.mem_map.2 ⟨ch, hm, rfl⟩)
  · exact Nat.zero_le _

theorem noChoices {I : Inst} {p : Nat} (h : I.hasChoices p = false) : (I.part p).choices = [] := by
  simpa [Inst.hasChoices] using h

theorem weightOf_noChoices {I : Inst} {p : Nat} (h : I.hasChoices p = false) (c : Nat) :
    weightOf I p c = 0 := by
  rw [weightOf_eq, attended, noChoices h]; rfl

theorem bestChoice_noChoices {I : Inst} {p : Nat} (h : I.hasChoices p = false) : bestChoice I p = 0 := by
  rw [bestChoice, noChoices h]; rfl

theorem foldl_max_le (l : List Nat) (m B : Nat) (hm : m ≤ B) (h : ∀ x ∈ l, x ≤ B) :
    l.foldl max m ≤ B := by
  induction l generalizing m with
  | nil => simpa using hm
  | cons y ys ih =>
    simp only [List.foldl_cons]
    exact ih _ (Nat.max_le.2 ⟨hm, h y (by simp)⟩) (fun x hx => h x (by simp [hx]))

theorem bestChoice_le_W (I : Inst) (p : Nat) : bestChoice I p ≤ W := by
  unfold bestChoice
  apply foldl_max_le _ _ _ (Nat.zero_le _)
  intro x hx
  obtain ⟨ch, _, rfl⟩ := List.mem_map.1 hx
  exact Nat.sub_le _ _

theorem instructs_somewhere {I : Inst} {p c : Nat} (h : I.instructs p c = true) :
    I.isInstructorSomewhere p = true := by
  have hc := N2.instructs_lt I h
  simp only [Inst.isInstructorSomewhere, List.any_eq_true]
  exact ⟨I.course c, N2.course_mem I hc, h⟩

/-! ### `max_ge` -/

/-- the summand of participant `p` in `theoreticalMax` -/
def maxTerm (I : Inst) (p : Nat) : Nat :=
  if I.hasChoices p && I.isInstructorSomewhere p then W else bestChoice I p

theorem theoreticalMax_eq (I : Inst) : theoreticalMax I = ((List.range I.P).map (maxTerm I)).sum := rfl

theorem scoreTerm_le_maxTerm (I : Inst) (a : Nat → Option Nat) (p : Nat) :
    scoreTerm I a p ≤ maxTerm I p := by
  unfold scoreTerm maxTerm
  cases hap : a p with
  | none => exact Nat.zero_le _
  | some c =>
    simp only
    cases hi : I.instructs p c with
    | true =>
      have hs := instructs_somewhere hi
      cases hc : I.hasChoices p <;> simp [hs]
    | false =>
      simp only [Bool.false_eq_true, if_false]
      split
      · exact weightOf_le_W I p c
      · exact weightOf_le_best I p c

/-- C08: the "perfect matching" score bounds the documented score of every assignment.
    (No hypothesis: a course index `≥ I.C` has no instructors and is nobody's valid choice only by
    `precomputeOk`, but the bound holds even then — `bestChoice` ranges over all choices.) -/
theorem max_ge (I : Inst) (a : Nat → Option Nat) : scoreOfL I a ≤ theoreticalMax I := by
  rw [theoreticalMax_eq]
  exact list_sum_le (fun p _ => scoreTerm_le_maxTerm I a p)

/-! ### the quality lack -/

/-- no penalty exceeds the weight offset (part of `InstOK2`, implied by `validb`) -/
def PenOK (I : Inst) : Prop := ∀ p ch, ch ∈ (I.part p).choices → ch.penalty ≤ W

theorem penOK_of_instOK2 {I : Inst} (h : InstOK2 I) : PenOK I := h.pen

theorem penOK_of_valid {I : Inst} (h : validb I = true) : PenOK I := (validb_sound I h).1.pen

/-- the penalty participant `p` pays under assignment `a`: nothing when instructing the assigned
    course, otherwise the penalty of the choice by which the assigned course is attended; the
    worst case `W` when unassigned or assigned to a course that was not chosen -/
def penaltyPaid (I : Inst) (a : Nat → Option Nat) (p : Nat) : Nat :=
  match a p with
  | none => W
  | some c =>
    if I.instructs p c = true then 0
    else match attended I p c with
      | some ch => ch.penalty
      | none => W

/-- the participants that count: those with choices (not instructor-only) -/
def realParts (I : Inst) : List Nat := (List.range I.P).filter (fun p => I.hasChoices p)

theorem numReal_eq (I : Inst) : numReal I = (realParts I).length := by
  simp [numReal, realParts, List.countP_eq_length_filter]

theorem mem_realParts {I : Inst} {p : Nat} : p ∈ realParts I ↔ p < I.P ∧ I.hasChoices p = true := by
  simp [realParts]

/-- the sum of the penalties paid by the participants with choices -/
def totalPenalty (I : Inst) (a : Nat → Option Nat) : Nat := ((realParts I).map (penaltyPaid I a)).sum

theorem term_identity (I : Inst) (hpen : PenOK I) (a : Nat → Option Nat) (p : Nat) :
    scoreTerm I a p + (if I.hasChoices p = true then penaltyPaid I a p else 0) =
      if I.hasChoices p = true then W else 0 := by
  unfold scoreTerm penaltyPaid
  cases hap : a p with
  | none => simp
  | some c =>
    simp only
    cases hi : I.instructs p c with
    | true => cases hc : I.hasChoices p <;> simp
    | false =>
      simp only [Bool.false_eq_true, if_false]
      cases hc : I.hasChoices p with
      | false => simp [weightOf_noChoices hc]
      | true =>
        simp only [if_true]
        rw [weightOf_eq]
        cases hat : attended I p c with
        | none => simp
        | some ch =>
          simp only
          exact Nat.sub_add_cancel (hpen p ch (attended_some hat).1)

/-- C08: for every assignment, the documented score and the penalties paid by the participants
    with choices add up to `W` per such participant. -/
theorem quality_identity (I : Inst) (hpen : PenOK I) (a : Nat → Option Nat) :
    scoreOfL I a + totalPenalty I a = numReal I * W := by
  unfold scoreOfL totalPenalty realParts numReal
  rw [← list_sum_filter, ← list_sum_add, ← list_sum_ite_const]
  exact list_sum_congr (fun p _ => term_identity I hpen a p)

/-- the `usize` subtraction in `solution_quality` cannot underflow -/
theorem score_le (I : Inst) (hpen : PenOK I) (a : Nat → Option Nat) : scoreOfL I a ≤ numReal I * W := by
  have := quality_identity I hpen a; omega

/-- C08: the numerator of the reported quality lack is the sum of the penalties paid, the
    denominator the number of participants with choices: the figure is the mean penalty. -/
theorem quality_lack_general (I : Inst) (hpen : PenOK I) (a : Nat → Option Nat) :
    quality I (scoreOfL I a) = (totalPenalty I a, (realParts I).length) := by
  have := quality_identity I hpen a
  unfold quality
  rw [← numReal_eq]
  congr 1
  omega

/-- C08: the combined figure adds the external penalties to the numerator and the external
    attendees and instructors to the head count. -/
theorem combined_lack_general (I : Inst) (hpen : PenOK I) (a : Nat → Option Nat) (extInstr : Nat)
    (extPen : List Nat) :
    combined I (scoreOfL I a) extInstr extPen =
      (totalPenalty I a + extPen.sum, (realParts I).length + extPen.length + extInstr) := by
  have := quality_identity I hpen a
  unfold combined
  rw [← numReal_eq]
  congr 1
  omega

/-- under the hard constraints every participant with choices is assigned, and pays `0` (instructs
    the assigned course) or the penalty of an own choice naming the assigned course: the
    fall-back `W` of `penaltyPaid` never occurs -/
theorem penaltyPaid_hard (I : Inst) (a : Nat → Option Nat) (h : HardOK I a) (p : Nat) (hp : p < I.P)
    (hc : I.hasChoices p = true) :
    ∃ c, a p = some c ∧ c < I.C ∧
      ((I.instructs p c = true ∧ penaltyPaid I a p = 0) ∨
       (I.instructs p c = false ∧ ∃ ch ∈ (I.part p).choices, ch.course = c ∧
          attended I p c = some ch ∧ penaltyPaid I a p = ch.penalty)) := by
  have key : ∀ c, a p = some c → c < I.C → (∃ ch ∈ (I.part p).choices, ch.course = c) ∨ I.instructs p c = true →
      ((I.instructs p c = true ∧ penaltyPaid I a p = 0) ∨
       (I.instructs p c = false ∧ ∃ ch ∈ (I.part p).choices, ch.course = c ∧
          attended I p c = some ch ∧ penaltyPaid I a p = ch.penalty)) := by
    intro c hap hcl hch
    cases hi : I.instructs p c with
    | true => left; exact ⟨rfl, by simp [penaltyPaid, hap, hi]⟩
    | false =>
      right
      refine ⟨rfl, ?_⟩
      cases hat : attended I p c with
      | none =>
        rcases hch with ⟨ch, hm, hcc⟩ | hch
        · exact absurd hcc (attended_none hat ch hm)
        · rw [hi] at hch; cases hch
      | some ch =>
        obtain ⟨h1, h2⟩ := attended_some hat
        exact ⟨ch, h1, h2, rfl, by simp [penaltyPaid, hap, hi, hat]⟩
  by_cases hex : ∃ c, c < I.C ∧ I.instructs p c = true ∧ takesPlace I a c
  · obtain ⟨c, hcl, hi, htp⟩ := hex
    have hap := h.instr c hcl htp p hp hi
    exact ⟨c, hap, hcl, key c hap hcl (Or.inr hi)⟩
  · obtain ⟨ch, hm, hap⟩ := h.chosen p hp hc hex
    have hcl := h.range p hp _ hap
    exact ⟨ch.course, hap, hcl, key _ hap hcl (Or.inl ⟨ch, hm, rfl⟩)⟩

/-- with no course named twice by a participant, the choice paid for is *the* choice naming the
    assigned course -/
theorem penaltyPaid_hard_unique (I : Inst) (a : Nat → Option Nat) (h : HardOK I a) (p : Nat)
    (hp : p < I.P) (hc : I.hasChoices p = true)
    (hnd : ((I.part p).choices.map (fun ch => ch.course)).Nodup)
    (c : Nat) (hap : a p = some c) (hi : I.instructs p c = false)
    (ch : Choice) (hm : ch ∈ (I.part p).choices) (hcc : ch.course = c) :
    penaltyPaid I a p = ch.penalty := by
  obtain ⟨c', hap', _, h1 | h2⟩ := penaltyPaid_hard I a h p hp hc
  · rw [hap] at hap'; cases hap'
    rw [hi] at h1; cases h1.1
  · rw [hap] at hap'; cases hap'
    obtain ⟨_, ch', _, _, hat, hpp⟩ := h2
    rw [hpp, attended_unique hnd hat hm hcc]

/-- the penalty actually paid never exceeds `W` (so the mean lies in `[0, W]`) -/
theorem penaltyPaid_le_W (I : Inst) (hpen : PenOK I) (a : Nat → Option Nat) (p : Nat) :
    penaltyPaid I a p ≤ W := by
  unfold penaltyPaid
  split
  · exact Nat.le_refl _
  · split
    · exact Nat.zero_le _
    · split
      · rename_i ch hat; exact hpen p ch (attended_some hat).1
      · exact Nat.le_refl _

/-- C08 `quality_lack`: for an assignment satisfying the hard constraints the reported quality
    lack `(numReal * W − score) / numReal` is the mean, over the participants with choices, of the
    penalty of the attended choice (`0` for participants instructing the course they are
    assigned to). -/
theorem quality_lack (I : Inst) (hpen : PenOK I) (a : Nat → Option Nat) (h : HardOK I a) :
    quality I (scoreOfL I a) = (totalPenalty I a, (realParts I).length) ∧
    ∀ p ∈ realParts I, ∃ c, a p = some c ∧ c < I.C ∧
      ((I.instructs p c = true ∧ penaltyPaid I a p = 0) ∨
       (I.instructs p c = false ∧ ∃ ch ∈ (I.part p).choices, ch.course = c ∧
          attended I p c = some ch ∧ penaltyPaid I a p = ch.penalty)) :=
  ⟨quality_lack_general I hpen a, fun p hp =>
    penaltyPaid_hard I a h p (mem_realParts.1 hp).1 (mem_realParts.1 hp).2⟩

/-- C08 `combined`: that sum plus the external penalties, over the participants with choices plus
    the external attendees plus the external instructors. -/
theorem combined_lack (I : Inst) (hpen : PenOK I) (a : Nat → Option Nat) (_h : HardOK I a)
    (extInstr : Nat) (extPen : List Nat) :
    combined I (scoreOfL I a) extInstr extPen =
      (totalPenalty I a + extPen.sum, (realParts I).length + extPen.length + extInstr) :=
  combined_lack_general I hpen a extInstr extPen

/-! ### the figures of the "perfect matching" line -/

theorem maxTerm_le (I : Inst) (p : Nat) : maxTerm I p ≤ if I.hasChoices p = true then W else 0 := by
  unfold maxTerm
  cases hc : I.hasChoices p with
  | false => simp [bestChoice_noChoices hc]
  | true =>
    simp only [Bool.true_and, if_true]
    split
    · exact Nat.le_refl _
    · exact bestChoice_le_W I p

/-- the subtraction for the "perfect matching" quality cannot underflow either -/
theorem theoreticalMax_le (I : Inst) : theoreticalMax I ≤ numReal I * W := by
  rw [theoreticalMax_eq, numReal, ← list_sum_ite_const]
  exact list_sum_le (fun p _ => maxTerm_le I p)

/-- the quality lack of every assignment is at least the "perfect matching" one -/
theorem quality_max_le (I : Inst) (a : Nat → Option Nat) :
    (quality I (theoreticalMax I)).1 ≤ (quality I (scoreOfL I a)).1 ∧
    (quality I (theoreticalMax I)).2 = (quality I (scoreOfL I a)).2 := by
  have := max_ge I a
  unfold quality
  exact ⟨by simp only; omega, rfl⟩

/-! ### a concrete instance -/

section Example
/-- course 0 (1–2 attendees, instructor 0), course 1 (fixed, 0–3 attendees);
    participant 0 instructor-only, 1 chose 0 (penalty 0) and 1 (penalty 5), 2 chose 1 (penalty 7) -/
def exI : Inst :=
  { cs := [⟨1, 2, false, [0]⟩, ⟨0, 3, true, []⟩]
    ps := [⟨[]⟩, ⟨[⟨0, 0⟩, ⟨1, 5⟩]⟩, ⟨[⟨1, 7⟩]⟩]
    rooms := none }
def exA : Nat → Option Nat := fun p => if p = 0 then some 0 else if p = 1 then some 0 else some 1
def exB : Nat → Option Nat := fun p => if p = 0 then none else some 1

example : validb exI = true := by decide
example : PenOK exI := penOK_of_valid (by decide)
example : HardOK exI exA := (hardOKb_iff exI exA).1 (by decide)
example : HardOK exI exB := (hardOKb_iff exI exB).1 (by decide)
example : scoreOfL exI exA = 2 * W - 7 ∧ totalPenalty exI exA = 7 ∧ numReal exI = 2 := by decide
example : scoreOfL exI exB = 2 * W - 12 ∧ totalPenalty exI exB = 12 := by decide
example : theoreticalMax exI = 2 * W - 7 := by decide
end Example

#print axioms max_ge
#print axioms quality_identity
#print axioms quality_lack
#print axioms combined_lack
#print axioms penaltyPaid_hard_unique
#print axioms theoreticalMax_le
#print axioms quality_max_le
end QM
