import Mathlib.Algebra.BigOperators.Group.Finset.Piecewise
import Cdecao.Proofs.NodeTotal
import Cdecao.Proofs.NodeScore
import Cdecao.Proofs.Admits
import Cdecao.Proofs.HungTotal
/-! Spike (C10, second part): after the guards, the node's Hungarian input admits a constrained perfect
    matching, so by `hung_total` the matching routine returns (`unwrap` never fails). -/
open Finset
namespace Cols

/-- the number of mandatory columns is the sum of the minima of the enforced courses -/
theorem mand_total (numMax numMin : Nat → Nat) (enforced : Nat → Bool) (C : Nat)
    (hm : ∀ c, c < C → enforced c = true → numMin c ≤ numMax c) :
    #((range (inv numMax C)).filter (fun cp => mandY numMax numMin enforced C cp = true))
      = ∑ c ∈ range C, (if enforced c = true then numMin c else 0) := by
  rw [card_eq_sum_card_fiberwise (f := courseOf numMax C) (t := range C)]
  · apply sum_congr rfl
    intro c hc
    have hc' := mem_range.1 hc
    rw [filter_filter]
    by_cases hen : enforced c = true
    · rw [if_pos hen, mand_cols numMax numMin enforced C c hc' (hm c hc' hen) hen]; simp
    · rw [if_neg hen, card_eq_zero, filter_eq_empty_iff]
      rintro cp _ ⟨h1, h2⟩
      rw [mandY_true_iff, h2] at h1
      exact hen h1.1
  · intro cp hcp
    simp only [coe_filter, mem_range, Set.mem_ofPred_eq] at hcp
    simp only [coe_range, Set.mem_Iio]
    exact (courseOf_spec numMax C cp hcp.1).1

end Cols

namespace N2
open H2

theorem mandY_eq (I : Inst) (nd : Node) (cp : Nat) :
    mandY I nd cp = Cols.mandY (numMaxOf I) (fun c => (I.course c).numMin) (fun c => nd.enforced.contains c) I.C cp := by
  simp only [mandY, Cols.mandY, Inst.colCourse, Inst.colPos, Cols.posOf, courseOf_eq, inv_eq]
  congr

/-- sum over the distinct members of a list is at most the list sum -/
theorem sum_mem_le_foldl (C : Nat) (f : Nat → Nat) (l : List Nat) :
    ∑ c ∈ range C, (if l.contains c = true then f c else 0) ≤ l.foldl (fun acc c => acc + f c) 0 := by
  have hgen : ∀ (l : List Nat) (a : Nat), l.foldl (fun acc c => acc + f c) a = a + l.foldl (fun acc c => acc + f c) 0 := by
    intro l
    induction l with
    | nil => intro a; simp
    | cons x xs ih => intro a; simp only [List.foldl_cons]; rw [ih (a + f x), ih (0 + f x)]; omega
  induction l with
  | nil => simp
  | cons x xs ih =>
    simp only [List.foldl_cons]
    rw [hgen xs (0 + f x)]
    calc ∑ c ∈ range C, (if (x :: xs).contains c = true then f c else 0)
        ≤ ∑ c ∈ range C, ((if c = x then f x else 0) + (if xs.contains c = true then f c else 0)) := by
          apply sum_le_sum
          intro c _
          by_cases hcx : c = x
          · subst hcx; simp
          · simp only [List.contains_iff_mem, List.mem_cons, hcx, false_or, if_false, Nat.zero_add]
            exact Nat.le_refl _
      _ = ∑ c ∈ range C, (if c = x then f x else 0) + ∑ c ∈ range C, (if xs.contains c = true then f c else 0) :=
          sum_add_distrib
      _ ≤ (0 + f x) + xs.foldl (fun acc c => acc + f c) 0 := by
          apply Nat.add_le_add _ ih
          rw [sum_ite_eq']
          split <;> omega

end N2

namespace N2
open H2

theorem node_admits (I : Inst) (nd : Node) (hI : InstOK I)
    (hmm : ∀ c, c < I.C → (I.course c).numMin ≤ (I.course c).numMax) (hn : NodeOK2 I nd)
    (hg : guards I nd = none) : ∃ τ, Admits (nodeInp I nd) τ := by
  classical
  obtain ⟨hpre, hu, hfit⟩ := guards_none I nd hg
  -- the third guard: the enforced minima fit into the active participants
  have henf : nd.enforced.foldl (fun acc c => acc + (I.course c).numMin) 0 ≤ I.P - numSkipX I nd := by
    unfold guards at hg
    split at hg; · contradiction
    split at hg; · contradiction
    split at hg; · contradiction
    rename_i h; omega
  set X := (probOf (nodeInp I nd)).X with hX
  set Y := (probOf (nodeInp I nd)).Y with hY
  let Rr := X.filter (fun x => x < I.P)
  let D := X.filter (fun x => ¬ x < I.P)
  let Mand := Y.filter (fun cp => mandY I nd cp = true)
  have hRD : Disjoint Rr D := disjoint_filter_filter_not _ _ _
  have hun : Rr ∪ D = X := filter_union_filter_not_eq _ _
  have hsq : #(Rr ∪ D) = #Y := by rw [hun]; exact node_square I nd hpre hu hfit
  have hPn : I.P ≤ I.n := by unfold Inst.n; omega
  -- the real rows that are not skipped
  have hR : Rr = (range I.P).filter (fun x => skipXBase I nd x = false) := by
    ext x
    simp only [Rr, hX, mem_filter, mem_X, InX, nodeInp, Vec.get_tab, mem_range]
    constructor
    · rintro ⟨⟨hxn, hs⟩, hxP⟩
      simp only [hxn, if_true, Bool.or_eq_false_iff] at hs
      exact ⟨hxP, hs.1⟩
    · rintro ⟨hxP, hs⟩
      have hxn : x < I.n := by omega
      refine ⟨⟨hxn, ?_⟩, hxP⟩
      simp only [hxn, if_true, hs, Bool.false_or, Bool.and_eq_false_iff, decide_eq_false_iff_not]
      left; omega
  have hRcard : I.P - numSkipX I nd ≤ #Rr := by
    have h1 := card_filter_add_card_filter_not (s := range I.P) (p := fun x => skipXBase I nd x = true)
    have h2 : #((range I.P).filter (fun x => skipXBase I nd x = true)) ≤ numSkipX I nd := by
      rw [numSkipX, countP_range_eq_card]
      apply card_le_card
      intro x hx
      simp only [mem_filter, mem_range] at hx ⊢
      exact ⟨by omega, hx.2⟩
    have h3 : (range I.P).filter (fun x => ¬ skipXBase I nd x = true) = Rr := by
      rw [hR]; apply filter_congr; intro x _; simp
    rw [h3, card_range] at h1
    omega
  have hMcard : #Mand ≤ nd.enforced.foldl (fun acc c => acc + (I.course c).numMin) 0 := by
    calc #Mand ≤ #((range I.m).filter (fun cp => mandY I nd cp = true)) := by
          apply card_le_card
          intro cp hcp
          simp only [Mand, hY, mem_filter, mem_Y_iff, mem_range] at hcp ⊢
          exact ⟨hcp.1.1, hcp.2⟩
      _ = ∑ c ∈ range I.C, (if nd.enforced.contains c = true then (I.course c).numMin else 0) := by
          have := Cols.mand_total (numMaxOf I) (fun c => (I.course c).numMin) (fun c => nd.enforced.contains c) I.C
            (fun c hc _ => hmm c hc)
          rw [← inv_eq] at this
          rw [← this]
          congr 1
          apply filter_congr
          intro cp _
          rw [mandY_eq]
      _ ≤ _ := sum_mem_le_foldl I.C (fun c => (I.course c).numMin) nd.enforced
  obtain ⟨σ, hσ1, hσ2, hσ3⟩ := exists_constrained_bijection Rr D Y Mand hRD (filter_subset _ _) hsq
    (by omega)
  rw [hun] at hσ1
  -- σ is onto X
  have himg : Y.image σ = X := by
    apply eq_of_subset_of_card_le
    · intro x hx
      obtain ⟨y, hy, rfl⟩ := mem_image.1 hx
      exact hσ1 y hy
    · rw [card_image_of_injOn hσ2, ← hsq, hun]
  have hinv : ∀ x ∈ X, ∃ y, y ∈ Y ∧ σ y = x := by
    intro x hx
    rw [← himg] at hx
    obtain ⟨y, hy, h⟩ := mem_image.1 hx
    exact ⟨y, hy, h⟩
  refine ⟨fun x => if h : x ∈ X then (hinv x h).choose else 0, ?_, ?_, ?_⟩
  · intro x hx
    have hxX : x ∈ X := (mem_X _ _).2 hx
    simp only [hxX, dif_pos]
    exact (mem_Y _ _).1 (hinv x hxX).choose_spec.1
  · intro x1 x2 h1 h2 he
    have hx1 : x1 ∈ X := (mem_X _ _).2 h1
    have hx2 : x2 ∈ X := (mem_X _ _).2 h2
    simp only [hx1, hx2, dif_pos] at he
    rw [← (hinv x1 hx1).choose_spec.2, ← (hinv x2 hx2).choose_spec.2, he]
  · intro x hx
    have hxX : x ∈ X := (mem_X _ _).2 hx
    simp only [hxX, dif_pos]
    obtain ⟨hyY, hyx⟩ := (hinv x hxX).choose_spec
    set y := (hinv x hxX).choose
    have hym : y < I.m := ((mem_Y_iff I nd y).1 hyY).1
    have hxn : x < I.n := hx.1
    simp only [allowed, nodeInp, Vec.get_tab, hxn, hym, if_true, Bool.not_eq_true', Bool.and_eq_false_iff,
      decide_eq_false_iff_not]
    by_cases hmand : mandY I nd y = true
    · left
      have : σ y ∈ Rr := hσ3 y (by simp only [Mand, mem_filter]; exact ⟨hyY, hmand⟩)
      rw [hyx] at this
      simp only [Rr, mem_filter] at this
      omega
    · right; simpa using hmand

/-- C10 core: for a well-formed instance and a node of the tree, the matching step never panics -/
theorem hungarian_returns (I : Inst) (nd : Node) (hI : InstOK I)
    (hmm : ∀ c, c < I.C → (I.course c).numMin ≤ (I.course c).numMax) (hn : NodeOK2 I nd)
    (hg : guards I nd = none) : ∃ r, H2.run (nodeInp I nd) = some r := by
  obtain ⟨τ, hτ⟩ := node_admits I nd hI hmm hn hg
  exact hung_total (nodeInp I nd) τ hτ

#print axioms hungarian_returns
end N2
