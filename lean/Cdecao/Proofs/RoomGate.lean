/-! Spike for C06: the room test of `check_room_feasibility` (ascending stable sort of the courses by
    effective size, walked from the back against the descending room list) is the rank-wise
    comparison of the two descending lists. Core only. -/
namespace RG

def leKey (a b : Nat × Nat) : Bool := decide (a.2 ≤ b.2)

/-- sizes in the order the code walks them: ascending stable sort by size, reversed -/
def walked (pairs : List (Nat × Nat)) : List Nat := ((pairs.mergeSort leKey).map (·.2)).reverse

/-- specification: the sizes in descending order -/
def sortedDesc (szs : List Nat) : List Nat := szs.mergeSort (fun a b => decide (b ≤ a))

theorem walked_eq (pairs : List (Nat × Nat)) : walked pairs = sortedDesc (pairs.map (·.2)) := by
  unfold walked sortedDesc
  apply List.Perm.eq_of_pairwise (le := fun a b => b ≤ a)
  · intro a b _ _ h1 h2; omega
  · -- the reversed ascending list is descending
    rw [List.pairwise_reverse]
    have := List.pairwise_mergeSort (le := leKey)
      (by intro a b c h1 h2; simp only [leKey, decide_eq_true_eq] at *; omega)
      (by intro a b; simp only [leKey, Bool.or_eq_true, decide_eq_true_eq]; omega) pairs
    rw [List.pairwise_map]
    exact this.imp (by intro a b h; simpa [leKey] using h)
  · have := List.pairwise_mergeSort (le := fun a b : Nat => decide (b ≤ a))
      (by intro a b c h1 h2; simp only [decide_eq_true_eq] at *; omega)
      (by intro a b; simp only [Bool.or_eq_true, decide_eq_true_eq]; omega) (pairs.map (·.2))
    exact this.imp (by intro a b h; simpa using h)
  · exact ((List.reverse_perm _).trans ((List.mergeSort_perm pairs leKey).map _)).trans
      (List.mergeSort_perm _ _).symm

/-- the code's test: no position at which the walked size exceeds the room -/
def codeOk (pairs : List (Nat × Nat)) (rooms : List Nat) : Bool :=
  ((walked pairs).zip rooms).all (fun (s, r) => decide (s ≤ r))

/-- C06 (room gate): the code accepts exactly when, rank by rank, the descending sizes fit the rooms -/
theorem codeOk_iff (pairs : List (Nat × Nat)) (rooms : List Nat) :
    codeOk pairs rooms = true ↔
      ∀ s r, (s, r) ∈ (sortedDesc (pairs.map (·.2))).zip rooms → s ≤ r := by
  unfold codeOk
  rw [walked_eq]
  simp only [List.all_eq_true, decide_eq_true_eq, Prod.forall]

#print axioms codeOk_iff
end RG
