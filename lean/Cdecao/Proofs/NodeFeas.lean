import Cdecao.Proofs.NodeC01
/-! Spike: `checkFeas … = ok (true, …)` implies the gate `G.gateOk`. -/
namespace N2
open H2

theorem best_some (I : Inst) (sz : Nat → Nat) (l : List Nat) (acc : Nat × Option Nat) (h : acc.2.isSome = true) :
    (l.foldl (fun (acc : Nat × Option Nat) c =>
        let d := (I.course c).numMin - sz c
        if d > acc.1 then (d, some c) else acc) acc).2.isSome = true := by
  induction l generalizing acc with
  | nil => exact h
  | cons c l ih =>
    simp only [List.foldl_cons]
    apply ih
    split
    · rfl
    · exact h

theorem best_none (I : Inst) (sz : Nat → Nat) (l : List Nat) (hl : ∀ c ∈ l, sz c < (I.course c).numMin)
    (h : (l.foldl (fun (acc : Nat × Option Nat) c =>
        let d := (I.course c).numMin - sz c
        if d > acc.1 then (d, some c) else acc) (0, none)).2.isNone = true) : l = [] := by
  cases l with
  | nil => rfl
  | cons c l =>
    exfalso
    simp only [List.foldl_cons] at h
    have hc := hl c (by simp)
    have hd : (I.course c).numMin - sz c > 0 := by omega
    simp only [hd, if_true] at h
    have := best_some I sz l ((I.course c).numMin - sz c, some c) rfl
    rw [Option.isNone_iff_eq_none] at h
    rw [h] at this
    exact absurd this (by simp)

theorem checkFeas_gate (I : Inst) (nd : Node) (mm : Nat → Nat) (a : Nat → Option Nat) (isI : Nat → Bool)
    (hisI : ∀ p, p < I.P → isI p = skipXBase I nd p) (ha : ∀ p, p < I.P → a p = assign I nd mm p)
    (b : Bool) (c : Option Nat) (h : checkFeas I nd a isI = .ok (true, b, c)) :
    G.gateOk I (ctxOf I nd mm) = true := by
  have hsize : ∀ c, sizeOf I a isI c = G.size I (ctxOf I nd mm) c := by
    intro c
    unfold sizeOf G.size
    apply List.countP_congr
    intro p hp
    have hp' := List.mem_range.1 hp
    rw [hisI p hp', ha p hp', isInstr_eq I nd mm p hp', assign_eq]
  unfold checkFeas at h
  dsimp only at h
  split at h
  · -- wrong choice found: result is (false, …)
    split at h <;> simp at h
  · rename_i hw
    split at h
    · simp at h
    · simp only [Except.ok.injEq, Prod.mk.injEq] at h
      have hv := best_none I (sizeOf I a isI) _ (by
        intro c hc
        simp only [List.mem_filter, Bool.and_eq_true, decide_eq_true_eq] at hc
        exact hc.2.2) h.1
      simp only [G.gateOk, Bool.and_eq_true, List.all_eq_true, List.mem_range, Bool.or_eq_true,
        decide_eq_true_eq]
      constructor
      · intro p hp
        rw [List.find?_eq_none] at hw
        have := hw p (List.mem_range.2 hp)
        simp only [Bool.and_eq_true, Bool.not_eq_true', not_and, Bool.not_eq_false] at this
        rw [isInstr_eq I nd mm p hp]
        by_cases h1 : isI p = true
        · left; rw [← hisI p hp]; exact h1
        · by_cases h2 : I.instructorOnly p = true
          · left; simp [skipXBase, hp, h2]
          · right
            have := this ⟨by simpa using h1, by simpa using h2⟩
            rw [ha p hp, assign_eq] at this
            exact this
      · intro c hc
        rw [List.filter_eq_nil_iff] at hv
        have := hv c (List.mem_range.2 hc)
        simp only [Bool.and_eq_true, Bool.not_eq_true', decide_eq_true_eq, not_and, Nat.not_lt] at this
        by_cases hcc : nd.cancelled.contains c = true
        · left; exact hcc
        · right; rw [← hsize]; exact this (by simpa using hcc)

#print axioms checkFeas_gate
end N2
