import Cdecao.Proofs.QualityProofs
/-! # C08: `AssignmentQualityInfo::from_caobab_assignment` / `get_quality`

For an assignment satisfying the hard constraints, with no participant naming a course twice, the
quality figure computed from the assignment (`QM.getQuality (QM.fromAssignment I a u f)`) is the
figure `QM.quality` computed from the score. The loop looks up the FIRST choice naming the assigned
course, the edge weight (hence the score) uses the LAST one; with a course named twice under
different penalties the two figures differ (`dupI`). -/
namespace QM
open N2 N2.G

/-- what participant `p` adds to (number_instructors, penalties) -/
def contrib (I : Inst) (a : Nat → Option Nat) (u f : Nat) (p : Nat) : Nat × List Nat :=
  fromAssignmentStep I a u f (0, []) p

theorem step_eq (I : Inst) (a : Nat → Option Nat) (u f : Nat) (acc : Nat × List Nat) (p : Nat) :
    fromAssignmentStep I a u f acc p =
      (acc.1 + (contrib I a u f p).1, acc.2 ++ (contrib I a u f p).2) := by
  unfold contrib fromAssignmentStep
  cases a p with
  | none => cases I.hasChoices p <;> simp
  | some c =>
    simp only
    cases I.instructs p c with
    | true => cases I.hasChoices p <;> simp
    | false =>
      simp only [Bool.false_eq_true, if_false]
      cases (I.part p).choices.find? (fun ch => ch.course == c) <;> simp

theorem foldl_fst (I : Inst) (a : Nat → Option Nat) (u f : Nat) (l : List Nat) (acc : Nat × List Nat) :
    (l.foldl (fromAssignmentStep I a u f) acc).1 =
      acc.1 + (l.map (fun p => (contrib I a u f p).1)).sum := by
  induction l generalizing acc with
  | nil => simp
  | cons x r ih => simp only [List.foldl_cons, ih, step_eq, List.map_cons, List.sum_cons]; omega

theorem foldl_sum (I : Inst) (a : Nat → Option Nat) (u f : Nat) (l : List Nat) (acc : Nat × List Nat) :
    (l.foldl (fromAssignmentStep I a u f) acc).2.sum =
      acc.2.sum + (l.map (fun p => (contrib I a u f p).2.sum)).sum := by
  induction l generalizing acc with
  | nil => simp
  | cons x r ih =>
    simp only [List.foldl_cons, ih, step_eq, List.map_cons, List.sum_cons, List.sum_append]; omega

theorem foldl_length (I : Inst) (a : Nat → Option Nat) (u f : Nat) (l : List Nat) (acc : Nat × List Nat) :
    (l.foldl (fromAssignmentStep I a u f) acc).2.length =
      acc.2.length + (l.map (fun p => (contrib I a u f p).2.length)).sum := by
  induction l generalizing acc with
  | nil => simp
  | cons x r ih =>
    simp only [List.foldl_cons, ih, step_eq, List.map_cons, List.sum_cons, List.length_append]; omega

/-- under the hard constraints (and no course named twice) a participant with choices adds either
    one instructor or the one penalty paid; a participant without choices adds nothing -/
theorem contrib_hard (I : Inst) (a : Nat → Option Nat) (h : HardOK I a) (u f : Nat) (p : Nat)
    (hp : p < I.P) (hnd : ((I.part p).choices.map (fun ch => ch.course)).Nodup) :
    (contrib I a u f p).1 + (contrib I a u f p).2.length = (if I.hasChoices p = true then 1 else 0) ∧
    (contrib I a u f p).2.sum = (if I.hasChoices p = true then penaltyPaid I a p else 0) := by
  cases hc : I.hasChoices p with
  | false =>
    have hz : contrib I a u f p = (0, []) := by
      unfold contrib fromAssignmentStep
      cases hap : a p with
      | none => simp [hc]
      | some c => simp [h.only p hp hc c hap, hc]
    simp [hz]
  | true =>
    obtain ⟨c, hap, _, ⟨hi, hpp⟩ | ⟨hi, ch, hm, hcc, hat, hpp⟩⟩ := penaltyPaid_hard I a h p hp hc
    · have hz : contrib I a u f p = (1, []) := by
        unfold contrib fromAssignmentStep
        simp [hap, hi, hc]
      simp [hz, hpp]
    · have hz : contrib I a u f p = (0, [ch.penalty]) := by
        unfold contrib fromAssignmentStep
        simp only [hap, hi, Bool.false_eq_true, if_false]
        cases hf : (I.part p).choices.find? (fun ch => ch.course == c) with
        | none =>
          rw [List.find?_eq_none] at hf
          have := hf ch hm
          simp [hcc] at this
        | some ch' =>
          have h1 := List.mem_of_find?_eq_some hf
          have h2 : ch'.course = c := by simpa using List.find?_some hf
          simp [attended_unique hnd hat h1 h2]
      simp [hz, hpp]

theorem fromAssignment_shape (I : Inst) (a : Nat → Option Nat) (h : HardOK I a)
    (hnd : ∀ p, p < I.P → ((I.part p).choices.map (fun ch => ch.course)).Nodup) (u f : Nat) :
    (fromAssignment I a u f).1 + (fromAssignment I a u f).2.length = (realParts I).length ∧
    (fromAssignment I a u f).2.sum = totalPenalty I a := by
  unfold fromAssignment
  rw [foldl_fst, foldl_sum, foldl_length]
  simp only [List.length_nil, List.sum_nil, Nat.zero_add]
  constructor
  · rw [← list_sum_add, ← numReal_eq, numReal,
      ← Nat.mul_one (List.countP _ _), ← list_sum_ite_const]
    exact list_sum_congr (fun p hp => (contrib_hard I a h u f p (List.mem_range.1 hp) (hnd p (List.mem_range.1 hp))).1)
  · unfold totalPenalty realParts
    rw [← list_sum_filter]
    exact list_sum_congr (fun p hp => (contrib_hard I a h u f p (List.mem_range.1 hp) (hnd p (List.mem_range.1 hp))).2)

theorem getQuality_eq (q : Nat × List Nat) : getQuality q = (q.2.sum, q.1 + q.2.length) := by
  simp [getQuality, INSTRUCTOR_SCORE, Nat.add_comm]

theorem assignment_quality (I : Inst) (hpen : PenOK I) (a : Nat → Option Nat) (h : HardOK I a)
    (hnd : ∀ p, p < I.P → ((I.part p).choices.map (fun ch => ch.course)).Nodup) (u f : Nat) :
    getQuality (fromAssignment I a u f) = quality I (scoreOfL I a) := by
  obtain ⟨h1, h2⟩ := fromAssignment_shape I a h hnd u f
  rw [quality_lack_general I hpen a, getQuality_eq, h1, h2]

/-! ### concrete instances -/

section Example
/-- course 0 (fixed, 0–3 attendees, no instructor); participant 0 names course 0 twice, first with
    penalty 3, then with penalty 1 -/
def dupI : Inst :=
  { cs := [⟨0, 3, true, []⟩]
    ps := [⟨[⟨0, 3⟩, ⟨0, 1⟩]⟩]
    rooms := none }
def dupA : Nat → Option Nat := fun _ => some 0

/-- courses as in `exI`; participant 0 instructs course 0 and also has a choice -/
def nvI : Inst :=
  { cs := [⟨1, 2, false, [0]⟩, ⟨0, 3, true, []⟩]
    ps := [⟨[⟨1, 2⟩]⟩, ⟨[⟨0, 1⟩, ⟨1, 5⟩]⟩, ⟨[⟨1, 3⟩]⟩, ⟨[]⟩]
    rooms := none }
def nvA : Nat → Option Nat := fun p => if p = 0 then some 0 else if p = 1 then some 0 else if p = 2 then some 1 else none
end Example

end QM
