import Mathlib.Data.Finset.Card
import Mathlib.Order.Interval.Finset.Nat
/-! Spike: the column structure of the place matrix (caobab.rs:116-129, 304-341):
    prefix sums, course of a column, skipped and mandatory columns, and the counts the
    gate theorem (C01 `CtxOK.cap/live`) and the relaxation bound need. -/
open Finset
namespace Cols

/-- `inverse_course_map`: first column of course `c` (prefix sum of `num_max`) -/
def inv (numMax : Nat → Nat) : Nat → Nat
  | 0 => 0
  | c + 1 => inv numMax c + numMax c

theorem inv_mono (numMax : Nat → Nat) {a b : Nat} (h : a ≤ b) : inv numMax a ≤ inv numMax b := by
  induction h with
  | refl => exact Nat.le_refl _
  | step _ ih => exact Nat.le_trans ih (by simp [inv])

/-- `course_map`: the course of column `cp` among the first `C` courses (C if none) -/
def courseOf (numMax : Nat → Nat) : Nat → Nat → Nat
  | 0, _ => 0
  | C + 1, cp => if cp < inv numMax C then courseOf numMax C cp else C

theorem courseOf_spec (numMax : Nat → Nat) : ∀ (C cp : Nat), cp < inv numMax C →
    courseOf numMax C cp < C ∧ inv numMax (courseOf numMax C cp) ≤ cp ∧
      cp < inv numMax (courseOf numMax C cp + 1) := by
  intro C
  induction C with
  | zero => intro cp h; simp [inv] at h
  | succ C ih =>
    intro cp h
    simp only [courseOf]
    by_cases hlt : cp < inv numMax C
    · simp only [hlt, if_true]
      obtain ⟨h1, h2, h3⟩ := ih cp hlt
      exact ⟨by omega, h2, h3⟩
    · simp only [hlt, if_false]
      exact ⟨by omega, by omega, h⟩

/-- uniqueness: a column lies in exactly one course interval -/
theorem courseOf_eq (numMax : Nat → Nat) (C cp c : Nat) (hc : c < C) (h1 : inv numMax c ≤ cp)
    (h2 : cp < inv numMax (c + 1)) : courseOf numMax C cp = c := by
  have hcp : cp < inv numMax C := Nat.lt_of_lt_of_le h2 (inv_mono numMax (by omega))
  obtain ⟨a, b, d⟩ := courseOf_spec numMax C cp hcp
  -- intervals of different courses are disjoint
  rcases Nat.lt_trichotomy (courseOf numMax C cp) c with h | h | h
  · have := inv_mono numMax (show courseOf numMax C cp + 1 ≤ c by omega); omega
  · exact h
  · have := inv_mono numMax (show c + 1 ≤ courseOf numMax C cp by omega); omega

/-- position of a column within its course -/
def posOf (numMax : Nat → Nat) (C cp : Nat) : Nat := cp - inv numMax (courseOf numMax C cp)

/-- `skip_y`: the top `num_max - eff_max` places of each course -/
def skipY (numMax effMax : Nat → Nat) (C cp : Nat) : Bool :=
  decide (effMax (courseOf numMax C cp) ≤ posOf numMax C cp)

theorem skipY_false_iff (numMax effMax : Nat → Nat) (C cp : Nat) :
    skipY numMax effMax C cp = false ↔ posOf numMax C cp < effMax (courseOf numMax C cp) := by
  simp [skipY]

/-- the non-skipped columns of course `c` are exactly the interval of its first `eff_max c` places -/
theorem live_cols (numMax effMax : Nat → Nat) (C c : Nat) (hc : c < C) (he : effMax c ≤ numMax c) :
    (range (inv numMax C)).filter (fun cp => skipY numMax effMax C cp = false ∧ courseOf numMax C cp = c)
      = Ico (inv numMax c) (inv numMax c + effMax c) := by
  ext cp
  rw [mem_filter, mem_range, mem_Ico]
  constructor
  · rintro ⟨hcp, hs, hco⟩
    rw [skipY_false_iff] at hs
    obtain ⟨_, h2, _⟩ := courseOf_spec numMax C cp hcp
    unfold posOf at hs
    rw [hco] at hs h2
    omega
  · rintro ⟨h1, h2⟩
    have h3 : cp < inv numMax (c + 1) := by simp only [inv]; omega
    have hco := courseOf_eq numMax C cp c hc h1 h3
    have hcp : cp < inv numMax C := Nat.lt_of_lt_of_le h3 (inv_mono numMax (by omega))
    refine ⟨hcp, ?_, hco⟩
    rw [skipY_false_iff]; unfold posOf; rw [hco]
    omega

/-- C01 `CtxOK.cap`: a course has exactly `eff_max` (≤ `num_max`) non-skipped columns -/
theorem live_card (numMax effMax : Nat → Nat) (C c : Nat) (hc : c < C) (he : effMax c ≤ numMax c) :
    #((range (inv numMax C)).filter (fun cp => skipY numMax effMax C cp = false ∧ courseOf numMax C cp = c))
      = effMax c := by
  rw [live_cols numMax effMax C c hc he]; simp

/-- C01 `CtxOK.live`: a non-skipped column belongs to a course with places left (so not to a
    cancelled one, whose `eff_max` is 0) -/
theorem live_course (numMax effMax : Nat → Nat) (C cp : Nat) (hcp : cp < inv numMax C)
    (hs : skipY numMax effMax C cp = false) :
    courseOf numMax C cp < C ∧ 0 < effMax (courseOf numMax C cp) := by
  obtain ⟨h1, _, _⟩ := courseOf_spec numMax C cp hcp
  rw [skipY_false_iff] at hs
  exact ⟨h1, by omega⟩

/-- `mandatory_y`: the first `num_min` places of enforced courses; they are non-skipped as long as
    `num_min ≤ eff_max` (this is what the `assert!(!skip_y[y])` checks) and there are `num_min` of them -/
def mandY (numMax : Nat → Nat) (numMin : Nat → Nat) (enforced : Nat → Bool) (C cp : Nat) : Bool :=
  enforced (courseOf numMax C cp) && decide (posOf numMax C cp < numMin (courseOf numMax C cp))

theorem mandY_true_iff (numMax numMin : Nat → Nat) (enforced : Nat → Bool) (C cp : Nat) :
    mandY numMax numMin enforced C cp = true ↔
      enforced (courseOf numMax C cp) = true ∧ posOf numMax C cp < numMin (courseOf numMax C cp) := by
  simp [mandY]

theorem mand_cols (numMax numMin : Nat → Nat) (enforced : Nat → Bool) (C c : Nat) (hc : c < C)
    (hm : numMin c ≤ numMax c) (hen : enforced c = true) :
    (range (inv numMax C)).filter (fun cp => mandY numMax numMin enforced C cp = true ∧ courseOf numMax C cp = c)
      = Ico (inv numMax c) (inv numMax c + numMin c) := by
  ext cp
  rw [mem_filter, mem_range, mem_Ico]
  constructor
  · rintro ⟨hcp, hs, hco⟩
    rw [mandY_true_iff] at hs
    obtain ⟨_, h2, _⟩ := courseOf_spec numMax C cp hcp
    obtain ⟨_, hs⟩ := hs
    unfold posOf at hs
    rw [hco] at hs h2
    omega
  · rintro ⟨h1, h2⟩
    have h3 : cp < inv numMax (c + 1) := by simp only [inv]; omega
    have hco := courseOf_eq numMax C cp c hc h1 h3
    have hcp : cp < inv numMax C := Nat.lt_of_lt_of_le h3 (inv_mono numMax (by omega))
    refine ⟨hcp, ?_, hco⟩
    rw [mandY_true_iff]; unfold posOf; rw [hco]
    exact ⟨hen, by omega⟩

#print axioms live_card
#print axioms mand_cols
end Cols
