import Cdecao.Model.Cdedb
import Cdecao.Proofs.SpecExec
import Cdecao.Proofs.LastIdx
/-! # The CdE reader delivers a well-formed problem (C12)

`CD.read` (model of io::cdedb::read) either fails or returns participants and courses whose
conversion `CD.toInstR` to the node model's instance satisfies the validity hypotheses under which the
node-level theorems are stated:

* every choice names a course `< courses.length`, every instructor entry a participant `< parts.length`;
* `numMin ≤ numMax` for every course;
* over all courses together every participant index occurs at most once in the instructor lists;
* the penalty of a choice is its position in the registration's original `choices` array, in
  particular `<` the length of that array.

The proofs are invariants over the three recursions `readCourses.go`, `participantCourseData.go`,
`readRegs.go`, by induction over the remaining list. -/
namespace CD
open JS

/-- the conversion of the reader's result to the node model's instance (the same as the `I` of
    `CDD.instOf` in Driver.lean) -/
def toInstR (parts : List Part) (courses : List Course) (rooms : Option (List Nat)) : N2.Inst :=
  { cs := courses.map (fun c => ⟨c.numMin, c.numMax, c.fixed, c.instructors⟩)
    ps := parts.map (fun p => ⟨p.choices.map (fun (c, pen) => ⟨c, pen⟩)⟩)
    rooms := rooms }

/-! ## `List.modify` helpers -/

theorem forall_mem_modify {α} {P : α → Prop} (f : α → α) (hf : ∀ a, P a → P (f a)) :
    ∀ (l : List α) (i : Nat), (∀ a ∈ l, P a) → ∀ a ∈ l.modify i f, P a := by
  intro l
  induction l with
  | nil => intro i h a ha; simp at ha
  | cons x xs ih =>
    intro i h a ha
    cases i with
    | zero =>
      rw [List.modify_zero_cons, List.mem_cons] at ha
      rcases ha with rfl | ha
      · exact hf _ (h x (List.mem_cons_self ..))
      · exact h a (List.mem_cons_of_mem _ ha)
    | succ i =>
      rw [List.modify_succ_cons, List.mem_cons] at ha
      rcases ha with rfl | ha
      · exact h _ (List.mem_cons_self ..)
      · exact ih i (fun b hb => h b (List.mem_cons_of_mem _ hb)) a ha

theorem map_modify_of_inv {α β} (g : α → β) (f : α → α) (hf : ∀ a, g (f a) = g a) :
    ∀ (l : List α) (i : Nat), (l.modify i f).map g = l.map g := by
  intro l
  induction l with
  | nil => intro i; simp
  | cons x xs ih =>
    intro i
    cases i with
    | zero => simp [List.modify_zero_cons, hf]
    | succ i => simp [List.modify_succ_cons, ih]

/-- all instructor entries of all courses, in order -/
def allInstr (cs : List Course) : List Nat := cs.flatMap (fun c => c.instructors)

theorem allInstr_modify_of_inv (f : Course → Course) (hf : ∀ c, (f c).instructors = c.instructors)
    (cs : List Course) (i : Nat) : allInstr (cs.modify i f) = allInstr cs := by
  unfold allInstr
  rw [List.flatMap_def, List.flatMap_def, map_modify_of_inv _ f hf]

/-- pushing one index to one instructor list adds (up to order) at most that index -/
theorem allInstr_modify_push (x : Nat) :
    ∀ (cs : List Course) (i : Nat),
      (allInstr (cs.modify i (fun c => { c with instructors := c.instructors ++ [x] }))).Perm
        (if i < cs.length then x :: allInstr cs else allInstr cs) := by
  intro cs
  induction cs with
  | nil => intro i; simp [allInstr]
  | cons c cs ih =>
    intro i
    cases i with
    | zero =>
      simp only [List.modify_zero_cons, allInstr, List.flatMap_cons, List.length_cons, Nat.zero_lt_succ,
        if_true]
      rw [List.append_assoc, List.singleton_append]
      exact List.perm_middle
    | succ i =>
      simp only [List.modify_succ_cons, allInstr, List.flatMap_cons, List.length_cons,
        Nat.succ_lt_succ_iff]
      have := ih i
      simp only [allInstr] at this
      split
      · rename_i h
        rw [if_pos h] at this
        exact ((List.perm_append_left_iff _).2 this).trans List.perm_middle
      · rename_i h
        rw [if_neg h] at this
        exact (List.perm_append_left_iff _).2 this

/-! ## courses -/

theorem parseCourseBase_le {v : J} {t : Nat} {name : String} {st : CStatus} {mn mx : Nat} {key : String}
    (h : parseCourseBase v t = .ok (name, st, mn, mx, key)) : mn ≤ mx := by
  unfold parseCourseBase at h
  split at h
  · cases h
  · dsimp only at h
    split at h
    · cases h
    · split at h
      · cases h
      · split at h
        · cases h
        · split at h
          · cases h
          · simp only [Except.ok.injEq, Prod.mk.injEq] at h
            obtain ⟨-, -, rfl, rfl, -⟩ := h
            omega

/-- what `readCourses` establishes for every course: no instructors yet, nobody invisible, and
    consistent size limits -/
def CourseInit (c : Course) : Prop := c.instructors = [] ∧ c.numMin ≤ c.numMax

theorem readCourses_go_init (t : Nat) (o : Opts) :
    ∀ (l : List (String × J)) (acc : List (String × Course)) (sk : List Nat) (n : Nat)
      (acc' : List (String × Course)) (sk' : List Nat) (n' : Nat),
      (∀ kc ∈ acc, CourseInit kc.2) → readCourses.go t o acc sk n l = .ok (acc', sk', n') →
      ∀ kc ∈ acc', CourseInit kc.2 := by
  intro l
  induction l with
  | nil =>
    intro acc sk n acc' sk' n' hacc h
    simp only [readCourses.go, Except.ok.injEq, Prod.mk.injEq] at h
    obtain ⟨rfl, -, -⟩ := h
    exact hacc
  | cons kv rest ih =>
    intro acc sk n acc' sk' n' hacc h
    obtain ⟨k, v⟩ := kv
    simp only [readCourses.go] at h
    split at h
    · cases h
    · split at h
      · cases h
      · rename_i name st mn mx key hb
        split at h
        · exact ih _ _ _ _ _ _ hacc h
        · split at h
          · exact ih _ _ _ _ _ _ hacc h
          · split at h
            · cases h
            · refine ih _ _ _ _ _ _ ?_ h
              intro kc hkc
              rw [List.mem_append, List.mem_singleton] at hkc
              rcases hkc with hkc | rfl
              · exact hacc kc hkc
              · exact ⟨rfl, parseCourseBase_le hb⟩

theorem readCourses_init {cdata : List (String × J)} {t : Nat} {o : Opts} {co : CoursesOut}
    (h : readCourses cdata t o = .ok co) : ∀ c ∈ co.courses, CourseInit c := by
  unfold readCourses at h
  split at h
  · cases h
  · rename_i acc sk n hgo
    simp only [Except.ok.injEq] at h
    subst h
    intro c hc
    simp only [List.mem_map] at hc
    obtain ⟨kc, hkc, rfl⟩ := hc
    rw [List.mem_mergeSort] at hkc
    exact readCourses_go_init t o cdata [] [] 0 acc sk n (by simp) hgo kc hkc

/-! ## choices -/

theorem courseIndex_lt {co : CoursesOut} {id c : Nat} (h : courseIndex co id = some (some c)) :
    c < co.courses.length := by
  obtain ⟨_, hc, _⟩ := (courseIndex_eq_some_some_iff co id c).1 h
  exact hc

/-- the `choices` array of a registration in the selected track, as the reader looks it up -/
def regChoices (reg : J) (trackId : Nat) : Option (List J) :=
  (((reg.get "tracks").bind J.asObject).bind
    (fun tracks => (J.lookup (toString trackId) tracks).bind J.asObject)).bind
    (fun rt => (J.lookup "choices" rt).bind J.asArray)

/-- a stored choice `(c, pen)`: entry number `pen` of the registration's array is the id of the
    kept course with index `c` -/
def ChoiceOK (co : CoursesOut) (chs : List J) (ch : Nat × Nat) : Prop :=
  ∃ id, chs[ch.2]?.bind J.asU64 = some id ∧ courseIndex co id = some (some ch.1)

theorem ChoiceOK.pen_lt {co : CoursesOut} {chs : List J} {ch : Nat × Nat} (h : ChoiceOK co chs ch) :
    ch.2 < chs.length := by
  obtain ⟨id, h1, -⟩ := h
  by_contra hc
  rw [List.getElem?_eq_none (Nat.le_of_not_lt hc)] at h1
  cases h1

theorem ChoiceOK.course_lt {co : CoursesOut} {chs : List J} {ch : Nat × Nat} (h : ChoiceOK co chs ch) :
    ch.1 < co.courses.length := by
  obtain ⟨id, -, h2⟩ := h
  exact courseIndex_lt h2

theorem pcd_go_inv (co : CoursesOut) :
    ∀ (l pre : List J) (acc res : List (Nat × Nat)),
      participantCourseData.go co pre.length acc l = .ok res →
      (∀ ch ∈ acc, ChoiceOK co (pre ++ l) ch) → ∀ ch ∈ res, ChoiceOK co (pre ++ l) ch := by
  intro l
  induction l with
  | nil =>
    intro pre acc res h hacc
    simp only [participantCourseData.go, Except.ok.injEq] at h
    subst h
    exact hacc
  | cons v rest ih =>
    intro pre acc res h hacc
    have hlen : (pre ++ [v]).length = pre.length + 1 := by simp
    have happ : pre ++ v :: rest = (pre ++ [v]) ++ rest := by simp
    simp only [participantCourseData.go] at h
    split at h
    · cases h
    · rename_i id hid
      split at h
      · cases h
      · rename_i c hc
        rw [← hlen] at h
        rw [happ]
        refine ih _ _ _ h ?_
        intro ch hch
        rw [List.mem_append, List.mem_singleton] at hch
        rcases hch with hch | rfl
        · rw [← happ]; exact hacc ch hch
        · refine ⟨id, ?_, hc⟩
          rw [← happ]
          simp [hid]
      · rw [← hlen] at h
        rw [happ]
        refine ih _ _ _ h ?_
        intro ch hch
        rw [← happ]; exact hacc ch hch

theorem participantCourseData_choices {reg : J} {t : Nat} {co : CoursesOut} {pc : PCData}
    (h : participantCourseData reg t co = .ok pc) :
    ∃ chs, regChoices reg t = some chs ∧ ∀ ch ∈ pc.choices, ChoiceOK co chs ch := by
  unfold participantCourseData at h
  split at h
  · cases h
  · rename_i tracks htr
    split at h
    · cases h
    · rename_i rt hrt
      split at h
      · cases h
      · dsimp only at h
        split at h
        · cases h
        · split at h
          · cases h
          · split at h
            · cases h
            · split at h
              · cases h
              · rename_i chs hchs
                split at h
                · cases h
                · rename_i choices hgo
                  simp only [Except.ok.injEq] at h
                  subst h
                  refine ⟨chs, ?_, ?_⟩
                  · unfold regChoices
                    rw [htr, Option.bind_some, hrt, Option.bind_some, hchs]
                  · have := pcd_go_inv co chs [] [] choices (by simpa using hgo) (by simp)
                    simpa using this

/-! ## registrations -/

/-- provenance of a participant: it stems from a registration of the export, and each of its
    choices `(c, pen)` is entry number `pen` of that registration's `choices` array -/
def PartOK (rdata : List (String × J)) (t : Nat) (co : CoursesOut) (p : Part) : Prop :=
  ∃ k v, (k, v) ∈ rdata ∧ parseNat k = some p.dbid ∧
    ∃ chs, regChoices v t = some chs ∧ ∀ ch ∈ p.choices, ChoiceOK co chs ch

/-- invariant of the registration loop -/
structure RInv (rdata : List (String × J)) (t : Nat) (co : CoursesOut) (s : RState) : Prop where
  idx : s.i = s.parts.length
  len : s.courses.length = co.courses.length
  mm : ∀ c ∈ s.courses, c.numMin ≤ c.numMax
  nodup : (allInstr s.courses).Nodup
  lt : ∀ i ∈ allInstr s.courses, i < s.i
  parts : ∀ p ∈ s.parts, PartOK rdata t co p

theorem RInv.of_eq {rdata : List (String × J)} {t : Nat} {co : CoursesOut} {s s' : RState}
    (h : RInv rdata t co s) (hi : s'.i = s.i) (hp : s'.parts = s.parts)
    (hc : s'.courses.length = s.courses.length) (hmm : ∀ c ∈ s'.courses, c.numMin ≤ c.numMax)
    (hins : allInstr s'.courses = allInstr s.courses) : RInv rdata t co s' :=
  ⟨by rw [hi, hp]; exact h.idx, by rw [hc]; exact h.len, hmm, by rw [hins]; exact h.nodup,
   by rw [hins, hi]; exact h.lt, by rw [hp]; exact h.parts⟩

/-- a modification of one course that touches neither the size limits nor the instructor list -/
theorem RInv.upd {rdata : List (String × J)} {t : Nat} {co : CoursesOut} {s s' : RState}
    (h : RInv rdata t co s) (ci : Nat) (f : Course → Course)
    (hf1 : ∀ c, (f c).numMin = c.numMin) (hf2 : ∀ c, (f c).numMax = c.numMax)
    (hf3 : ∀ c, (f c).instructors = c.instructors)
    (hi : s'.i = s.i) (hp : s'.parts = s.parts) (hc : s'.courses = updCourse s.courses ci f) :
    RInv rdata t co s' := by
  refine h.of_eq hi hp ?_ ?_ ?_
  · rw [hc, updCourse, List.length_modify]
  · rw [hc, updCourse]
    exact forall_mem_modify (P := fun c => c.numMin ≤ c.numMax) f
      (fun c hc => by show (f c).numMin ≤ (f c).numMax; rw [hf1, hf2]; exact hc) _ _ h.mm
  · rw [hc, updCourse, allInstr_modify_of_inv f hf3]

theorem readRegs_go_inv (pid t : Nat) (td : List (String × J)) (co : CoursesOut) (o : Opts)
    (rdata : List (String × J)) :
    ∀ (l : List (String × J)) (s s' : RState), (∀ kv ∈ l, kv ∈ rdata) → RInv rdata t co s →
      readRegs.go pid t td co o s l = .ok s' → RInv rdata t co s' := by
  intro l
  induction l with
  | nil =>
    intro s s' _ hs h
    simp only [readRegs.go, Except.ok.injEq] at h
    subst h
    exact hs
  | cons kv rest ih =>
    intro s s' hsub hs h
    obtain ⟨k, v⟩ := kv
    have hsub' : ∀ kv ∈ rest, kv ∈ rdata := fun kv hkv => hsub kv (List.mem_cons_of_mem _ hkv)
    simp only [readRegs.go] at h
    split at h
    · cases h
    · rename_i rid hrid
      split at h
      · cases h
      · rename_i isP name hbase
        split at h
        · exact ih _ _ hsub' hs h
        · split at h
          · cases h
          · rename_i pc hpc
            split at h
            · -- an already assigned participant is skipped
              rename_i ci hci
              refine ih _ _ hsub' ?_ h
              split
              · exact (hs.upd (s' := { s with
                    courses := updCourse s.courses ci (fun c => { c with invInstr := c.invInstr + 1 }),
                    extInstr := s.extInstr + 1 }) ci (fun c => { c with invInstr := c.invInstr + 1 })
                    (fun _ => rfl) (fun _ => rfl) (fun _ => rfl)
                    rfl rfl rfl).upd ci (fun c => { c with hidden := c.hidden ++ [name] })
                    (fun _ => rfl) (fun _ => rfl) (fun _ => rfl) rfl rfl rfl
              · exact (hs.upd (s' := { s with
                    courses := updCourse s.courses ci (fun c => { c with invAtt := c.invAtt + 1 }),
                    extPen := s.extPen ++ [assignedPenalty ci pc.choices td] }) ci
                    (fun c => { c with invAtt := c.invAtt + 1 })
                    (fun _ => rfl) (fun _ => rfl) (fun _ => rfl)
                    rfl rfl rfl).upd ci (fun c => { c with hidden := c.hidden ++ [name] })
                    (fun _ => rfl) (fun _ => rfl) (fun _ => rfl) rfl rfl rfl
            · split at h
              · exact ih _ _ hsub' hs h
              · -- a kept registration
                refine ih _ _ hsub' ?_ h
                have hpart : PartOK rdata t co { dbid := rid, name := name, choices := pc.choices } := by
                  obtain ⟨chs, h1, h2⟩ := participantCourseData_choices hpc
                  exact ⟨k, v, hsub _ (List.mem_cons_self ..), hrid, chs, h1, h2⟩
                have hparts : ∀ p ∈ s.parts ++ [{ dbid := rid, name := name, choices := pc.choices }],
                    PartOK rdata t co p := by
                  intro p hp
                  rw [List.mem_append, List.mem_singleton] at hp
                  rcases hp with hp | rfl
                  · exact hs.parts p hp
                  · exact hpart
                cases hin : pc.instructed with
                | none =>
                  exact ⟨by simp [hs.idx], hs.len, hs.mm, hs.nodup,
                    fun i hi => Nat.lt_succ_of_lt (hs.lt i hi), hparts⟩
                | some ci =>
                  have hperm := allInstr_modify_push s.i s.courses ci
                  refine ⟨by simp [hs.idx], ?_, ?_, ?_, ?_, hparts⟩
                  · show (updCourse s.courses ci _).length = _
                    rw [updCourse, List.length_modify]; exact hs.len
                  · show ∀ c ∈ updCourse s.courses ci _, _
                    rw [updCourse]
                    exact forall_mem_modify (P := fun c : Course => c.numMin ≤ c.numMax)
                      (fun c => { c with instructors := c.instructors ++ [s.i] })
                      (fun c hc => hc) _ _ hs.mm
                  · show (allInstr (updCourse s.courses ci _)).Nodup
                    rw [updCourse, hperm.nodup_iff]
                    split
                    · exact List.nodup_cons.2 ⟨fun hm => Nat.lt_irrefl _ (hs.lt _ hm), hs.nodup⟩
                    · exact hs.nodup
                  · show ∀ i ∈ allInstr (updCourse s.courses ci _), i < s.i + 1
                    intro i hi
                    rw [updCourse, hperm.mem_iff] at hi
                    split at hi
                    · rw [List.mem_cons] at hi
                      rcases hi with rfl | hi
                      · exact Nat.lt_succ_self _
                      · exact Nat.lt_succ_of_lt (hs.lt i hi)
                    · exact Nat.lt_succ_of_lt (hs.lt i hi)

theorem allInstr_of_init : ∀ (cs : List Course), (∀ c ∈ cs, CourseInit c) → allInstr cs = [] := by
  intro cs
  induction cs with
  | nil => intro _; rfl
  | cons c cs ih =>
    intro h
    have h1 := (h c (List.mem_cons_self ..)).1
    have h2 := ih (fun c hc => h c (List.mem_cons_of_mem _ hc))
    simp only [allInstr, List.flatMap_cons] at h2 ⊢
    rw [h1, h2]; rfl

theorem readRegs_inv {rdata : List (String × J)} {pid t : Nat} {td : List (String × J)}
    {co : CoursesOut} {o : Opts} {s : RState} (hco : ∀ c ∈ co.courses, CourseInit c)
    (h : readRegs rdata pid t td co o = .ok s) : RInv rdata t co s := by
  unfold readRegs at h
  refine readRegs_go_inv pid t td co o rdata rdata _ s (fun _ h => h) ?_ h
  have h0 := allInstr_of_init co.courses hco
  refine ⟨rfl, rfl, fun c hc => (hco c hc).2, ?_, ?_, ?_⟩
  · show (allInstr co.courses).Nodup
    rw [h0]; exact List.nodup_nil
  · show ∀ i ∈ allInstr co.courses, _
    rw [h0]; intro i hi; cases hi
  · intro p hp; cases hp

/-! ## `read` -/

/-- a successful `read` ran `readCourses` and `readRegs` on the `courses` / `registrations` objects
    of the document, for the track it reports -/
theorem read_ok {data : J} {o : Opts} {parts : List Part} {courses : List Course} {amb : Ambience}
    (h : read data o = .ok (parts, courses, amb)) :
    ∃ (pid : Nat) (td cdata : List (String × J)) (co : CoursesOut) (rdata : List (String × J))
      (s : RState),
      (data.get "courses").bind J.asObject = some cdata ∧ readCourses cdata amb.trackId o = .ok co ∧
      (data.get "registrations").bind J.asObject = some rdata ∧
      readRegs rdata pid amb.trackId td co o = .ok s ∧ parts = s.parts ∧ courses = s.courses.map adapt := by
  unfold read at h
  split at h
  · cases h
  · split at h
    · cases h
    · split at h
      · cases h
      · split at h
        · cases h
        · split at h
          · cases h
          · split at h
            · cases h
            · rename_i pid tid td _
              split at h
              · cases h
              · rename_i cdata hcd
                split at h
                · cases h
                · rename_i co hco
                  split at h
                  · cases h
                  · rename_i rdata hrd
                    split at h
                    · cases h
                    · rename_i s hs
                      split at h
                      · cases h
                      · dsimp only at h
                        split at h
                        · cases h
                        · simp only [Except.ok.injEq, Prod.mk.injEq] at h
                          obtain ⟨rfl, rfl, rfl⟩ := h
                          exact ⟨pid, td, cdata, co, rdata, s, hcd, hco, hrd, hs, rfl, rfl⟩

/-- well-formedness of the reader's result, against the registrations object `rdata` of the export
    and the selected track `t` -/
structure ReadWF (rdata : List (String × J)) (t : Nat) (parts : List Part) (courses : List Course) :
    Prop where
  /-- (i) every choice names a course of the problem -/
  choice_lt : ∀ p ∈ parts, ∀ ch ∈ p.choices, ch.1 < courses.length
  /-- (i) every instructor entry names a participant of the problem -/
  instr_lt : ∀ c ∈ courses, ∀ i ∈ c.instructors, i < parts.length
  /-- (ii) consistent size limits -/
  min_le_max : ∀ c ∈ courses, c.numMin ≤ c.numMax
  /-- (iii) over all courses together no participant index occurs twice in the instructor lists -/
  nodup : (allInstr courses).Nodup
  /-- (iv) every participant stems from a registration of the export (key = its `dbid`), and the
      penalty of each of its choices is a position in that registration's `choices` array -/
  pen : ∀ p ∈ parts, ∃ k v, (k, v) ∈ rdata ∧ parseNat k = some p.dbid ∧
    ∃ chs, regChoices v t = some chs ∧ ∀ ch ∈ p.choices, ch.2 < chs.length

theorem adapt_instructors (c : Course) : (adapt c).instructors = c.instructors := rfl

theorem allInstr_map_adapt (cs : List Course) : allInstr (cs.map adapt) = allInstr cs := by
  unfold allInstr
  rw [List.flatMap_map]
  rfl

/-- **the reader delivers a well-formed problem** -/
theorem read_wellformed {data : J} {o : Opts} {parts : List Part} {courses : List Course}
    {amb : Ambience} (h : read data o = .ok (parts, courses, amb)) :
    ∃ rdata, (data.get "registrations").bind J.asObject = some rdata ∧
      ReadWF rdata amb.trackId parts courses := by
  obtain ⟨pid, td, cdata, co, rdata, s, -, hco, hrd, hs, rfl, rfl⟩ := read_ok h
  have inv := readRegs_inv (readCourses_init hco) hs
  refine ⟨rdata, hrd, ?_, ?_, ?_, ?_, ?_⟩
  · intro p hp ch hch
    obtain ⟨k, v, -, -, chs, -, hc⟩ := inv.parts p hp
    rw [List.length_map, inv.len]
    exact (hc ch hch).course_lt
  · intro c hc i hi
    rw [← inv.idx]
    apply inv.lt
    rw [← allInstr_map_adapt]
    exact List.mem_flatMap.2 ⟨c, hc, hi⟩
  · intro c hc
    obtain ⟨c0, hc0, rfl⟩ := List.mem_map.1 hc
    have := inv.mm c0 hc0
    show c0.numMin - c0.invAtt ≤ c0.numMax - c0.invAtt
    omega
  · rw [allInstr_map_adapt]; exact inv.nodup
  · intro p hp
    obtain ⟨k, v, h1, h2, chs, h3, hc⟩ := inv.parts p hp
    exact ⟨k, v, h1, h2, chs, h3, fun ch hch => (hc ch hch).pen_lt⟩

end CD

namespace CD
open JS

/-- (iv) at full strength: the penalty of a stored choice `(c, pen)` is the position of that choice in
    the registration's original `choices` array — entry number `pen` of the array is the id of the
    kept course with index `c` (`ChoiceOK`), for the course table `co` that `readCourses` built -/
theorem read_choice_position {data : J} {o : Opts} {parts : List Part} {courses : List Course}
    {amb : Ambience} (h : read data o = .ok (parts, courses, amb)) :
    ∃ cdata co rdata, (data.get "courses").bind J.asObject = some cdata ∧
      readCourses cdata amb.trackId o = .ok co ∧
      (data.get "registrations").bind J.asObject = some rdata ∧
      ∀ p ∈ parts, PartOK rdata amb.trackId co p := by
  obtain ⟨pid, td, cdata, co, rdata, s, hcd, hco, hrd, hs, rfl, rfl⟩ := read_ok h
  exact ⟨cdata, co, rdata, hcd, hco, hrd, (readRegs_inv (readCourses_init hco) hs).parts⟩

end CD

/-! ## from the executable conditions to `InstOK2` -/
namespace N2

/-- `InstOK2` from its three executable ingredients (the part of `validb_sound` that does not need
    the other conjuncts of `validb`) -/
theorem instOK2_of (I : Inst) (hpre : I.precomputeOk = true) (hnd : I.allInstructors.Nodup)
    (hpen : ∀ p ch, ch ∈ (I.part p).choices → ch.penalty ≤ WEIGHT) : InstOK2 I := by
  rw [Inst.allInstructors, List.nodup_flatMap] at hnd
  obtain ⟨hnd1, hnd2⟩ := hnd
  refine ⟨⟨hpre, ?_⟩, ?_, hpen⟩
  · intro p c c' hc hc' hi hi'
    rw [List.pairwise_iff_getElem] at hnd2
    have key : ∀ i j (hi : i < I.cs.length) (hj : j < I.cs.length), i < j →
        I.instructs p i = true → I.instructs p j = true → False := by
      intro i j hi hj hij h1 h2
      have hd := hnd2 i j hi hj hij
      simp only [Inst.instructs, course_eq_getElem I hi, course_eq_getElem I hj,
        List.contains_iff_mem] at h1 h2
      exact (List.disjoint_left.1 hd) h1 h2
    rcases Nat.lt_trichotomy c c' with hlt | heq | hgt
    · exact (key c c' hc hc' hlt hi hi').elim
    · exact heq
    · exact (key c' c hc' hc hgt hi' hi).elim
  · intro c hc; exact hnd1 _ (course_mem I hc)

end N2

namespace CD
open JS

/-! ## the converted instance -/

theorem toInstR_C (parts : List Part) (courses : List Course) (rooms : Option (List Nat)) :
    (toInstR parts courses rooms).C = courses.length := by simp [toInstR, N2.Inst.C]

theorem toInstR_P (parts : List Part) (courses : List Course) (rooms : Option (List Nat)) :
    (toInstR parts courses rooms).P = parts.length := by simp [toInstR, N2.Inst.P]

theorem toInstR_allInstructors (parts : List Part) (courses : List Course) (rooms : Option (List Nat)) :
    (toInstR parts courses rooms).allInstructors = allInstr courses := by
  simp only [toInstR, N2.Inst.allInstructors, allInstr, List.flatMap_map]

/-- a choice of the converted instance is a choice of a participant the reader returned -/
theorem toInstR_choice_mem {parts : List Part} {courses : List Course} {rooms : Option (List Nat)}
    {p : Nat} {ch : N2.Choice} (h : ch ∈ ((toInstR parts courses rooms).part p).choices) :
    ∃ q ∈ parts, (ch.course, ch.penalty) ∈ q.choices := by
  have hp := N2.part_choices_lt _ h
  have hm := N2.part_mem _ hp
  generalize (toInstR parts courses rooms).part p = pt at h hm
  simp only [toInstR, List.mem_map] at hm
  obtain ⟨q, hq, rfl⟩ := hm
  refine ⟨q, hq, ?_⟩
  simp only [List.mem_map] at h
  obtain ⟨⟨c, pen⟩, hcp, rfl⟩ := h
  exact hcp

section
variable {rdata : List (String × J)} {t : Nat} {parts : List Part} {courses : List Course}

/-- (i) no `precompute_problem` panic: all indices are in range -/
theorem ReadWF.precomputeOk (h : ReadWF rdata t parts courses) (rooms : Option (List Nat)) :
    (toInstR parts courses rooms).precomputeOk = true := by
  simp only [N2.Inst.precomputeOk, Bool.and_eq_true, List.all_eq_true, decide_eq_true_eq, toInstR_C, toInstR_P]
  constructor
  · intro c hc i hi
    simp only [toInstR, List.mem_map] at hc
    obtain ⟨c0, hc0, rfl⟩ := hc
    exact h.instr_lt c0 hc0 i hi
  · intro p hp ch hch
    simp only [toInstR, List.mem_map] at hp
    obtain ⟨q, hq, rfl⟩ := hp
    simp only [List.mem_map] at hch
    obtain ⟨⟨c, pen⟩, hcp, rfl⟩ := hch
    exact h.choice_lt q hq _ hcp

/-- (ii) `numMin ≤ numMax`, executable form -/
theorem ReadWF.minMaxb (h : ReadWF rdata t parts courses) (rooms : Option (List Nat)) :
    (toInstR parts courses rooms).cs.all (fun c => decide (c.numMin ≤ c.numMax)) = true := by
  simp only [List.all_eq_true, decide_eq_true_eq, toInstR, List.mem_map]
  rintro c ⟨c0, hc0, rfl⟩
  exact h.min_le_max c0 hc0

/-- (ii) `numMin ≤ numMax` for every course of the instance -/
theorem ReadWF.minMax (h : ReadWF rdata t parts courses) (rooms : Option (List Nat)) :
    ∀ c, c < (toInstR parts courses rooms).C →
      ((toInstR parts courses rooms).course c).numMin ≤ ((toInstR parts courses rooms).course c).numMax := by
  intro c hc
  have := h.minMaxb rooms
  simp only [List.all_eq_true, decide_eq_true_eq] at this
  exact this _ (N2.course_mem _ hc)

/-- (iii) every participant index occurs at most once over all instructor lists, executable form -/
theorem ReadWF.nodupb (h : ReadWF rdata t parts courses) (rooms : Option (List Nat)) :
    N2.nodupb (toInstR parts courses rooms).allInstructors = true := by
  rw [N2.nodupb_iff, toInstR_allInstructors]; exact h.nodup

/-- (iv) every penalty of the instance is smaller than the length of the `choices` array of the
    registration the participant stems from -/
theorem ReadWF.pen_lt (h : ReadWF rdata t parts courses) (rooms : Option (List Nat)) :
    ∀ p ch, ch ∈ ((toInstR parts courses rooms).part p).choices →
      ∃ k v chs, (k, v) ∈ rdata ∧ regChoices v t = some chs ∧ ch.penalty < chs.length := by
  intro p ch hch
  obtain ⟨q, hq, hm⟩ := toInstR_choice_mem hch
  obtain ⟨k, v, h1, -, chs, h3, h4⟩ := h.pen q hq
  exact ⟨k, v, chs, h1, h3, h4 _ hm⟩

/-- `InstOK2` of the converted instance when no penalty exceeds the weight offset 50000 -/
theorem ReadWF.instOK2 (h : ReadWF rdata t parts courses) (rooms : Option (List Nat))
    (hpen : ∀ p ∈ parts, ∀ ch ∈ p.choices, ch.2 ≤ N2.WEIGHT) :
    N2.InstOK2 (toInstR parts courses rooms) := by
  refine N2.instOK2_of _ (h.precomputeOk rooms) ((N2.nodupb_iff _).1 (h.nodupb rooms)) ?_
  intro p ch hch
  obtain ⟨q, hq, hm⟩ := toInstR_choice_mem hch
  exact hpen q hq _ hm

/-- `InstOK2` of the converted instance when no registration lists more than 50001 choices -/
theorem ReadWF.instOK2_of_len (h : ReadWF rdata t parts courses) (rooms : Option (List Nat))
    (hlen : ∀ kv ∈ rdata, ∀ chs, regChoices kv.2 t = some chs → chs.length ≤ N2.WEIGHT + 1) :
    N2.InstOK2 (toInstR parts courses rooms) := by
  refine h.instOK2 rooms ?_
  intro p hp ch hch
  obtain ⟨k, v, h1, -, chs, h3, h4⟩ := h.pen p hp
  have := hlen (k, v) h1 chs h3
  have := h4 ch hch
  omega

end

/-- **C12, end to end**: the instance built from a successful `read` satisfies `InstOK2` (no panic
    of `precompute_problem`, at most one instructed course per participant, duplicate-free
    instructor lists, penalties within the weight offset) and `numMin ≤ numMax`, provided no
    penalty exceeds 50000 -/
theorem read_instOK2 {data : J} {o : Opts} {parts : List Part} {courses : List Course} {amb : Ambience}
    (h : read data o = .ok (parts, courses, amb)) (rooms : Option (List Nat))
    (hpen : ∀ p ∈ parts, ∀ ch ∈ p.choices, ch.2 ≤ N2.WEIGHT) :
    N2.InstOK2 (toInstR parts courses rooms) ∧
      ∀ c, c < (toInstR parts courses rooms).C →
        ((toInstR parts courses rooms).course c).numMin ≤ ((toInstR parts courses rooms).course c).numMax := by
  obtain ⟨rdata, -, wf⟩ := read_wellformed h
  exact ⟨wf.instOK2 rooms hpen, wf.minMax rooms⟩

/-- the same from a bound on the export alone: no registration lists more than 50001 choices in the
    selected track -/
theorem read_instOK2_of_len {data : J} {o : Opts} {parts : List Part} {courses : List Course}
    {amb : Ambience} (h : read data o = .ok (parts, courses, amb)) (rooms : Option (List Nat))
    (hlen : ∀ rdata, (data.get "registrations").bind J.asObject = some rdata →
      ∀ kv ∈ rdata, ∀ chs, regChoices kv.2 amb.trackId = some chs → chs.length ≤ N2.WEIGHT + 1) :
    N2.InstOK2 (toInstR parts courses rooms) ∧
      ∀ c, c < (toInstR parts courses rooms).C →
        ((toInstR parts courses rooms).course c).numMin ≤ ((toInstR parts courses rooms).course c).numMax := by
  obtain ⟨rdata, hrd, wf⟩ := read_wellformed h
  exact ⟨wf.instOK2_of_len rooms (hlen rdata hrd), wf.minMax rooms⟩

/-! ## non-vacuity: a concrete export -/

/-- converse of `read_ok`: the steps of a successful `read` -/
theorem read_eq_of {data : J} {o : Opts} {ts : String} {ev parts : List (String × J)} {pid tid : Nat}
    {td cdata rdata : List (String × J)} {co : CoursesOut} {s : RState} {eid : Nat} {tn : String}
    (h1 : checkVersion data = .ok ()) (h2 : (data.get "timestamp").bind J.asStr = some ts)
    (h3 : timestampOk ts = true) (h4 : (data.get "event").bind J.asObject = some ev)
    (h5 : (J.lookup "parts" ev).bind J.asObject = some parts)
    (h6 : findTrack parts o.track = .ok (pid, tid, td))
    (h7 : (data.get "courses").bind J.asObject = some cdata) (h8 : readCourses cdata tid o = .ok co)
    (h9 : (data.get "registrations").bind J.asObject = some rdata)
    (h10 : readRegs rdata pid tid td co o = .ok s) (h11 : (data.get "id").bind J.asU64 = some eid)
    (h12 : (J.lookup "shortname" td).bind J.asStr = some tn) :
    ∃ amb, read data o = .ok (s.parts, s.courses.map adapt, amb) ∧ amb.trackId = tid := by
  unfold read
  simp only [h1, h2, h3, h4, h5, h6, h7, h8, h9, h10, h11, h12, Bool.not_true, Bool.false_eq_true, if_false]
  exact ⟨_, rfl, rfl⟩

theorem readCourses_eq {cdata : List (String × J)} {t : Nat} {o : Opts} {acc : List (String × Course)}
    {sk : List Nat} {n : Nat} (h : readCourses.go t o [] [] 0 cdata = .ok (acc, sk, n)) :
    readCourses cdata t o = .ok { courses := (acc.mergeSort (fun a b => decide (a.1 ≤ b.1))).map (·.2),
                                  skipped := sk, numIgnored := n } := by
  unfold readCourses; rw [h]

def exN (k : Nat) : J := .num (.pos k)
def exCourses : List (String × J) := [
    ("1", .obj [("fields", .obj []), ("max_size", exN 10), ("min_size", exN 2), ("nr", .str "1"),
                ("segments", .obj [("1", .bool true)]), ("shortname", .str "A")]),
    ("2", .obj [("fields", .obj []), ("nr", .str "2"),
                ("segments", .obj [("1", .bool true)]), ("shortname", .str "B")])]
def exRegs : List (String × J) := [
    ("1", .obj [("parts", .obj [("1", .obj [("status", exN 2)])]),
                ("persona", .obj [("family_name", .str "X"), ("given_names", .str "Y")]),
                ("tracks", .obj [("1", .obj [("choices", .arr [exN 2, exN 1]), ("course_id", .null),
                                            ("course_instructor", exN 1)])])]),
    ("2", .obj [("parts", .obj [("1", .obj [("status", exN 2)])]),
                ("persona", .obj [("family_name", .str "X"), ("given_names", .str "Z")]),
                ("tracks", .obj [("1", .obj [("choices", .arr [exN 1]), ("course_id", .null),
                                            ("course_instructor", .null)])])])]
def exDoc : J := .obj [
  ("EVENT_SCHEMA_VERSION", .arr [exN 17, exN 0]),
  ("courses", .obj exCourses),
  ("event", .obj [("parts", .obj [("1", .obj [("tracks", .obj [("1", .obj [("shortname", .str "T")])])])])]),
  ("id", exN 1),
  ("kind", .str "partial"),
  ("registrations", .obj exRegs),
  ("timestamp", .str "2020-01-01T00:00:00Z")]
def exOpts : Opts := ⟨none, false, false, none, none⟩

def exAcc : List (String × Course) := [
  ("         1", { dbid := 1, name := "1. A", numMin := 2, numMax := 10, instructors := [], factor := .dflt,
                   offset := .dflt, fixed := false, hidden := [] }),
  ("         2", { dbid := 2, name := "2. B", numMin := 0, numMax := 25, instructors := [], factor := .dflt,
                   offset := .dflt, fixed := false, hidden := [] })]

/-- non-vacuity of `read_instOK2_of_len`: a concrete export (two courses, two registrations, the first
    instructing course 1 and choosing both courses) on which `read` succeeds and the bound on the
    choice lists holds -/
example : ∃ parts courses amb, read exDoc exOpts = .ok (parts, courses, amb) ∧
    parts.length = 2 ∧ courses.length = 2 ∧
    (∀ rdata, (exDoc.get "registrations").bind J.asObject = some rdata →
      ∀ kv ∈ rdata, ∀ chs, regChoices kv.2 amb.trackId = some chs → chs.length ≤ N2.WEIGHT + 1) := by
  have hgo : readCourses.go 1 exOpts [] [] 0 exCourses = .ok (exAcc, [], 0) := by rfl
  have hsort : exAcc.mergeSort (fun a b => decide (a.1 ≤ b.1)) = exAcc := by
    simp [exAcc, List.mergeSort]
  have hco := readCourses_eq hgo
  rw [hsort] at hco
  obtain ⟨s, hs, hlen⟩ : ∃ s, readRegs exRegs 1 1 [("shortname", .str "T")]
      { courses := exAcc.map (·.2), skipped := [], numIgnored := 0 } exOpts = .ok s ∧
      s.parts.length = 2 ∧ s.courses.length = 2 := ⟨_, by rfl, by rfl, by rfl⟩
  obtain ⟨amb, hread, hamb⟩ := read_eq_of (data := exDoc) (o := exOpts) (ts := "2020-01-01T00:00:00Z")
    (tn := "T") (eid := 1) (by rfl) (by rfl) (by decide) (by rfl) (by rfl) (by rfl) (by rfl) hco (by rfl) hs
    (by rfl) (by rfl)
  refine ⟨_, _, amb, hread, hlen.1, by rw [List.length_map]; exact hlen.2, ?_⟩
  intro rdata hrd kv hkv chs hchs
  have : rdata = exRegs := by
    have : (exDoc.get "registrations").bind J.asObject = some exRegs := by rfl
    rw [this] at hrd; exact (Option.some.inj hrd).symm
  subst this
  rw [hamb] at hchs
  simp only [exRegs, List.mem_cons, List.not_mem_nil, or_false] at hkv
  rcases hkv with rfl | rfl
  · have : chs = [exN 2, exN 1] := (Option.some.inj hchs).symm
    subst this; decide
  · have : chs = [exN 1] := (Option.some.inj hchs).symm
    subst this; decide

#print axioms read_wellformed
#print axioms read_choice_position
#print axioms read_instOK2
#print axioms read_instOK2_of_len
end CD
