import Cdecao.Proofs.NodeProg
import Cdecao.Proofs.NodeEng
import Cdecao.Engine.Account
/-! # The search tree of the caobab node solver is finite (C04)

For every instance `I` and every room arithmetic `R` — no validity hypothesis — the tree spanned by
the children the engine pushes (`Eng3.pushed`, for the `Solver` instance `solverOf I R` of
Proofs/NodeEng.lean) is finite, in the form the engine's termination / work-bound theorems need:

* `pushed_wf` — the child relation `k ∈ pushed n` is well-founded (measure `mu I B` of
  Proofs/NodeProg.lean, with `B` from `exists_B`, and `node_prog`);
* `treeSize I R n` — the number of nodes of the tree below `n` (one per path from `n`), defined by
  well-founded recursion on the child relation; `treeSize_eq` is its unfolding equation;
* `caobab_budget_treeSize` / `caobab_budget` — `W n = 5 * treeSize I R n` is a `Budget`;
* `caobab_run_bound`, `caobab_run_length`, `caobab_gen_bound` — the engine's work bounds and the
  bound on the number of generated subproblems, instantiated for caobab from the root node. -/
set_option linter.style.haveILetI false
namespace N2
open H2

/-! ### `pushed` for the caobab solver, in terms of `runNodeS` -/

/-- the children the engine pushes for `nd`: the children `runNodeS` returns with an infeasible
    verdict, nothing otherwise -/
theorem pushed_eq (I : Inst) (R : RoomFns) (nd : Node) :
    letI := solverOf I R
    Eng3.pushed nd = (match runNodeS I R nd with
      | .ok (.infeasible kids _) => kids
      | _ => []) := by
  letI := solverOf I R
  simp only [Eng3.pushed, Eng3.Solver.res, Eng3.Solver.kids]
  cases hr : runNodeS I R nd with
  | error e => rfl
  | ok r => cases r <;> rfl

theorem pushed_of_infeasible (I : Inst) (R : RoomFns) (nd : Node) (kids : List Node) (sc : Nat)
    (h : runNodeS I R nd = .ok (.infeasible kids sc)) :
    letI := solverOf I R
    Eng3.pushed nd = kids := by
  rw [pushed_eq, h]

theorem pushed_of_noSol (I : Inst) (R : RoomFns) (nd : Node) (h : runNodeS I R nd = .ok .noSol) :
    letI := solverOf I R
    Eng3.pushed nd = [] := by
  rw [pushed_eq, h]

theorem pushed_of_feasible (I : Inst) (R : RoomFns) (nd : Node) (al : List (Option Nat)) (sc : Nat)
    (h : runNodeS I R nd = .ok (.feasible al sc)) :
    letI := solverOf I R
    Eng3.pushed nd = [] := by
  rw [pushed_eq, h]

theorem pushed_of_error (I : Inst) (R : RoomFns) (nd : Node) (e : String)
    (h : runNodeS I R nd = .error e) :
    letI := solverOf I R
    Eng3.pushed nd = [] := by
  rw [pushed_eq, h]

/-- a pushed child is a child of an infeasible verdict of `runNodeS` -/
theorem mem_pushed (I : Inst) (R : RoomFns) (k n : Node) :
    letI := solverOf I R
    k ∈ Eng3.pushed n → ∃ kids sc, runNodeS I R n = .ok (.infeasible kids sc) ∧ k ∈ kids := by
  letI := solverOf I R
  intro hk
  rw [pushed_eq] at hk
  cases hr : runNodeS I R n with
  | error e => simp [hr] at hk
  | ok r =>
    cases r with
    | noSol => simp [hr] at hk
    | feasible al sc => simp [hr] at hk
    | infeasible kids sc =>
      simp only [hr] at hk
      exact ⟨kids, sc, rfl, hk⟩

/-! ### (1) the child relation is well-founded -/

/-- every pushed child is strictly smaller in the measure `mu I B`, for every `B` bounding the
    shrink sizes (`exists_B` provides one) -/
theorem pushed_mu_lt (I : Inst) (R : RoomFns) (B : Nat)
    (hB : ∀ rooms, I.roomSizes = some rooms → ∀ ci, ci < I.C → ∀ k, ssOf I R ci (rooms.getD k 0) < B)
    (k n : Node) :
    letI := solverOf I R
    k ∈ Eng3.pushed n → mu I B k < mu I B n := by
  letI := solverOf I R
  intro hk
  obtain ⟨kids, sc, hrun, hmem⟩ := mem_pushed I R k n hk
  exact node_prog I R n B hB kids sc hrun k hmem

/-- **no infinite branch**: the child relation of the caobab search tree is well-founded, for
    every instance and every room arithmetic -/
theorem pushed_wf (I : Inst) (R : RoomFns) :
    letI := solverOf I R
    WellFounded (fun k n : Node => k ∈ Eng3.pushed n) := by
  letI := solverOf I R
  obtain ⟨B, hB⟩ := exists_B I R
  apply Subrelation.wf (r := InvImage (· < ·) (mu I B)) _ (InvImage.wf (mu I B) Nat.lt_wfRel.wf)
  intro k n hk
  exact pushed_mu_lt I R B hB k n hk

/-! ### (2) the size of the tree below a node -/

/-- the number of nodes of the search tree below `n` (`n` included; one per path from `n`), by
    well-founded recursion on the child relation -/
noncomputable def treeSize (I : Inst) (R : RoomFns) : Node → Nat :=
  letI := solverOf I R
  (pushed_wf I R).fix (C := fun _ => Nat)
    (fun n rec => 1 + ((Eng3.pushed n).attach.map (fun k => rec k.1 k.2)).sum)

/-- the unfolding equation, with the membership proofs made explicit -/
theorem treeSize_eq_attach (I : Inst) (R : RoomFns) (n : Node) :
    letI := solverOf I R
    treeSize I R n = 1 + ((Eng3.pushed n).attach.map (fun k => treeSize I R k.1)).sum := by
  letI := solverOf I R
  unfold treeSize
  rw [WellFounded.fix_eq]

/-- the unfolding equation of `treeSize`: one for the node plus the sizes below its children -/
theorem treeSize_eq (I : Inst) (R : RoomFns) (n : Node) :
    letI := solverOf I R
    treeSize I R n = 1 + ((Eng3.pushed n).map (treeSize I R)).sum := by
  letI := solverOf I R
  rw [treeSize_eq_attach, List.attach_map_val]

theorem treeSize_pos (I : Inst) (R : RoomFns) (n : Node) : 1 ≤ treeSize I R n := by
  rw [treeSize_eq]; omega

/-- a leaf (nothing pushed: no solution, feasible, or panic) has size 1 -/
theorem treeSize_leaf (I : Inst) (R : RoomFns) (n : Node)
    (h : letI := solverOf I R; Eng3.pushed n = []) : treeSize I R n = 1 := by
  rw [treeSize_eq, h]; rfl

/-- `treeSize` is the least size function: every `size` with
    `1 + Σ_{k ∈ pushed n} size k ≤ size n` dominates it -/
theorem treeSize_le (I : Inst) (R : RoomFns) (size : Node → Nat)
    (h : letI := solverOf I R; ∀ n : Node, 1 + ((Eng3.pushed n).map size).sum ≤ size n) (n : Node) :
    treeSize I R n ≤ size n := by
  letI := solverOf I R
  induction n using (pushed_wf I R).induction with
  | _ n ih =>
    have hs : ((Eng3.pushed n).map (treeSize I R)).sum ≤ ((Eng3.pushed n).map size).sum := by
      have : ∀ l : List Node, (∀ k ∈ l, treeSize I R k ≤ size k) →
          (l.map (treeSize I R)).sum ≤ (l.map size).sum := by
        intro l
        induction l with
        | nil => intro _; exact Nat.le_refl _
        | cons x xs ihl =>
          intro hl
          have h1 := hl x (by simp)
          have h2 := ihl (fun k hk => hl k (by simp [hk]))
          simp only [List.map_cons, List.sum_cons]
          omega
      exact this _ (fun k hk => ih k hk)
    have := h n
    rw [treeSize_eq]
    omega

/-! ### (3) the budget and the work bounds -/

/-- **the caobab search tree is finite**: `5 * treeSize` is a budget, for every instance and room
    arithmetic (no validity hypothesis) -/
theorem caobab_budget_treeSize (I : Inst) (R : RoomFns) :
    letI := solverOf I R
    Eng3.Budget (fun n : Node => 5 * treeSize I R n) := by
  letI := solverOf I R
  apply Eng3.budget_of_size (treeSize I R)
  intro n
  exact Nat.le_of_eq (treeSize_eq I R n).symm

/-- a budget exists for every instance -/
theorem caobab_budget (I : Inst) (R : RoomFns) :
    letI := solverOf I R
    ∃ W : Node → Nat, Eng3.Budget W :=
  ⟨_, caobab_budget_treeSize I R⟩

/-- the tree below `n`, unfolded to any depth, has at most `treeSize I R n` entries, and every
    descendant of `n` shows up in some unfolding: the set of descendants is finite -/
theorem caobab_subtree (I : Inst) (R : RoomFns) :
    letI := solverOf I R
    (∀ d (n : Node), (Eng3.subtree d n).length ≤ treeSize I R n) ∧
    (∀ m n : Node, Eng3.Desc m n → ∃ d, m ∈ Eng3.subtree d n) := by
  letI := solverOf I R
  refine ⟨fun d n => ?_, fun m n h => Eng3.desc_subtree h⟩
  have : 5 * (Eng3.subtree d n).length ≤ 5 * treeSize I R n :=
    Eng3.budget_subtree (caobab_budget_treeSize I R) d n
  omega

/-- **work bound for caobab**: every run of the engine (any thread count `T`, any schedule) from
    the initial configuration on the root node with at most `s` wake events has at most
    `5 * treeSize I R rootNode + 3 * T + 3 * (T * T + s)` events that are not wake-ups -/
theorem caobab_run_bound (I : Inst) (R : RoomFns) {top T s : Nat} :
    letI := solverOf I R
    ∀ {c : Eng3.Cfg Node (List (Option Nat))} {evs : List Eng3.Ev},
      Eng3.Run (Eng3.init rootNode top T) evs c → Eng3.wakeEvents evs ≤ s →
      Eng3.work evs ≤ 5 * treeSize I R rootNode + 3 * T + 3 * (T * T + s) := by
  letI := solverOf I R
  intro c evs h hs
  exact Eng3.run_bound_init _ (caobab_budget_treeSize I R) h hs

/-- the same for the whole length of the run, wake events included -/
theorem caobab_run_length (I : Inst) (R : RoomFns) {top T s : Nat} :
    letI := solverOf I R
    ∀ {c : Eng3.Cfg Node (List (Option Nat))} {evs : List Eng3.Ev},
      Eng3.Run (Eng3.init rootNode top T) evs c → Eng3.wakeEvents evs ≤ s →
      evs.length ≤ 5 * treeSize I R rootNode + 3 * T + 3 * (T * T + s) + s := by
  letI := solverOf I R
  intro c evs h hs
  exact Eng3.run_length_init _ (caobab_budget_treeSize I R) h hs

/-- **at most `treeSize I R rootNode` subproblems are ever generated**, in every reachable state
    of the product system (configuration, statistics, ghost history): both the ghost list `gen`
    and the counter `gen` of bab.rs -/
theorem caobab_gen_bound (I : Inst) (R : RoomFns) {top T : Nat} :
    letI := solverOf I R
    ∀ {p : Eng3.Cfg Node (List (Option Nat)) × Eng3.Stats × Eng3.Ghost Node},
      Eng3.ReachG rootNode top T p →
      p.2.2.gen.length ≤ treeSize I R rootNode ∧ p.2.1.gen ≤ treeSize I R rootNode := by
  letI := solverOf I R
  intro p h
  have : 5 * p.2.2.gen.length ≤ 5 * treeSize I R rootNode ∧
      5 * p.2.1.gen ≤ 5 * treeSize I R rootNode :=
    Eng3.gen_le_budget _ (caobab_budget_treeSize I R) h
  omega

/-! ### non-vacuity: a concrete tree of three nodes

X(min 2, max 2), Y(min 0, max 5, instructor p1); p0 and p1 both choose X; no room list (the witness
of finding F1).  The root is infeasible with two children, both without solution: `treeSize = 3`,
so at most 3 subproblems are generated and a run with one thread and no wake-up takes at most
`15 + 3 + 3 = 21` steps. -/
section Example
def exI : Inst :=
  { cs := [⟨2, 2, false, []⟩, ⟨0, 5, false, [1]⟩], ps := [⟨[⟨0, 0⟩]⟩, ⟨[⟨0, 0⟩]⟩], rooms := none }

set_option maxRecDepth 1000000 in
theorem exI_root (R : RoomFns) :
    runNodeS exI R rootNode = .ok (.infeasible [⟨[], [0], []⟩, ⟨[0], [], []⟩] 100000) := by rfl
set_option maxRecDepth 1000000 in
theorem exI_enforce (R : RoomFns) : runNodeS exI R ⟨[], [0], []⟩ = .ok .noSol := by rfl
set_option maxRecDepth 1000000 in
theorem exI_cancel (R : RoomFns) : runNodeS exI R ⟨[0], [], []⟩ = .ok .noSol := by rfl

theorem exI_treeSize (R : RoomFns) : treeSize exI R rootNode = 3 := by
  have h1 : treeSize exI R ⟨[], [0], []⟩ = 1 :=
    treeSize_leaf exI R _ (pushed_of_noSol exI R _ (exI_enforce R))
  have h2 : treeSize exI R ⟨[0], [], []⟩ = 1 :=
    treeSize_leaf exI R _ (pushed_of_noSol exI R _ (exI_cancel R))
  rw [treeSize_eq, pushed_of_infeasible exI R _ _ _ (exI_root R)]
  simp [h1, h2]
end Example

#print axioms pushed_wf
#print axioms treeSize_eq
#print axioms treeSize_le
#print axioms caobab_budget_treeSize
#print axioms caobab_budget
#print axioms caobab_subtree
#print axioms caobab_run_bound
#print axioms caobab_run_length
#print axioms caobab_gen_bound
end N2
