import Mathlib.Data.Fintype.Sum
import Mathlib.Data.Fintype.Card
import Mathlib.Data.Finset.Card
/-! Spike: the combinatorial heart of the relaxation bound (C02/C03): a relaxed-feasible placement
    `g` of the real rows into courses can be realised by a constrained perfect matching of the
    place matrix in which every real row sits in a column of its own course. -/
open Finset

/-- a bijection between two finsets of equal cardinality, as a total function -/
theorem exists_bij_fun (A B : Finset Nat) (h : #A = #B) :
    ∃ f : Nat → Nat, Set.InjOn f A ∧ (∀ a ∈ A, f a ∈ B) ∧ (∀ b ∈ B, ∃ a ∈ A, f a = b) := by
  classical
  obtain ⟨e⟩ : Nonempty (A ≃ B) := by rw [← Fintype.card_eq]; simp [h]
  refine ⟨fun a => if ha : a ∈ A then (e ⟨a, ha⟩ : Nat) else 0, ?_, ?_, ?_⟩
  · intro a1 h1 a2 h2 heq
    have h1' : a1 ∈ A := h1
    have h2' : a2 ∈ A := h2
    simp only [h1', h2', dif_pos] at heq
    have := e.injective (Subtype.ext heq)
    simpa using congrArg Subtype.val this
  · intro a ha; simp only [ha, dif_pos]; exact (e ⟨a, ha⟩).2
  · intro b hb
    refine ⟨(e.symm ⟨b, hb⟩ : Nat), (e.symm ⟨b, hb⟩).2, ?_⟩
    simp

/-- `R` real rows, `D` dummy rows, `Y` columns, `course y` the course of a column, `Mand ⊆ Y`.
    `g p` is the course of real row `p`. Capacity: no course gets more rows than it has columns;
    minimum: every course gets at least as many rows as it has mandatory columns. -/
theorem exists_matching_of_placement (R D Y Mand : Finset Nat) (course g : Nat → Nat)
    (hM : Mand ⊆ Y) (hsq : #(R ∪ D) = #Y)
    (hcap : ∀ c, #(R.filter (fun p => g p = c)) ≤ #(Y.filter (fun y => course y = c)))
    (hmin : ∀ c, #(Mand.filter (fun y => course y = c)) ≤ #(R.filter (fun p => g p = c))) :
    ∃ σ : Nat → Nat, (∀ y ∈ Y, σ y ∈ R ∪ D) ∧ Set.InjOn σ Y ∧ (∀ y ∈ Mand, σ y ∈ R) ∧
      (∀ p ∈ R, ∃ y ∈ Y, σ y = p ∧ course y = g p) := by
  classical
  -- per course: a set of columns containing the mandatory ones, in bijection with the rows of the course
  have hc : ∀ c, ∃ (Yc : Finset Nat) (f : Nat → Nat),
      Mand.filter (fun y => course y = c) ⊆ Yc ∧ Yc ⊆ Y.filter (fun y => course y = c) ∧
      Set.InjOn f (R.filter (fun p => g p = c)) ∧ (∀ p ∈ R.filter (fun p => g p = c), f p ∈ Yc) ∧
      (∀ y ∈ Yc, ∃ p ∈ R.filter (fun p => g p = c), f p = y) := by
    intro c
    obtain ⟨Yc, h1, h2, h3⟩ := exists_subsuperset_card_eq
      (show Mand.filter (fun y => course y = c) ⊆ Y.filter (fun y => course y = c) from
        filter_subset_filter _ hM) (hmin c) (hcap c)
    obtain ⟨f, f1, f2, f3⟩ := exists_bij_fun (R.filter (fun p => g p = c)) Yc h3.symm
    exact ⟨Yc, f, h1, h2, f1, f2, f3⟩
  choose Yc f hMc hYc finj fmem fsurj using hc
  -- the placement as a function row ↦ column
  let h : Nat → Nat := fun p => f (g p) p
  have h_mem : ∀ p ∈ R, h p ∈ Yc (g p) := fun p hp => fmem (g p) p (by simp [hp])
  have h_Y : ∀ p ∈ R, h p ∈ Y ∧ course (h p) = g p := by
    intro p hp
    have := hYc (g p) (h_mem p hp)
    simpa using this
  have h_inj : Set.InjOn h R := by
    intro p1 h1 p2 h2 heq
    have hp1 : p1 ∈ R := h1
    have hp2 : p2 ∈ R := h2
    have hg : g p1 = g p2 := by rw [← (h_Y p1 hp1).2, ← (h_Y p2 hp2).2, heq]
    simp only [h] at heq
    rw [← hg] at heq
    exact finj (g p1) (by simp [hp1]) (by simp [hp2, hg]) heq
  -- every mandatory column is hit
  have h_mand : ∀ y ∈ Mand, ∃ p ∈ R, h p = y := by
    intro y hy
    have : y ∈ Yc (course y) := hMc (course y) (by simp [hy])
    obtain ⟨p, hp, hpy⟩ := fsurj (course y) y this
    simp only [mem_filter] at hp
    exact ⟨p, hp.1, by simp only [h, hp.2]; exact hpy⟩
  -- invert h on its image and extend to a bijection Y ≃ R ∪ D
  let img : Finset Y := Finset.univ.filter (fun y => ∃ p ∈ R, h p = (y : Nat))
  let finv : Y → Nat := fun y => if hy : ∃ p ∈ R, h p = (y : Nat) then hy.choose else 0
  have finv_spec : ∀ y : Y, (hy : ∃ p ∈ R, h p = (y : Nat)) → finv y ∈ R ∧ h (finv y) = y := by
    intro y hy
    simp only [finv, hy, dif_pos]
    exact hy.choose_spec
  have hfst : Finset.image finv img ⊆ R ∪ D := by
    intro x hx
    obtain ⟨y, hy, rfl⟩ := mem_image.1 hx
    have hy' : ∃ p ∈ R, h p = (y : Nat) := by simpa [img] using hy
    exact mem_union_left _ (finv_spec y hy').1
  have hinj : Set.InjOn finv img := by
    intro y1 h1 y2 h2 heq
    have h1' : ∃ p ∈ R, h p = (y1 : Nat) := by simpa [img] using h1
    have h2' : ∃ p ∈ R, h p = (y2 : Nat) := by simpa [img] using h2
    apply Subtype.ext
    rw [← (finv_spec y1 h1').2, ← (finv_spec y2 h2').2, heq]
  have hcardY : Fintype.card Y = #(R ∪ D) := by simp [hsq]
  obtain ⟨G, hG⟩ := Finset.exists_equiv_extend_of_card_eq hcardY hfst hinj
  refine ⟨fun y => if hy : y ∈ Y then (G ⟨y, hy⟩ : Nat) else 0, ?_, ?_, ?_, ?_⟩
  · intro y hy; simp only [hy, dif_pos]; exact (G ⟨y, hy⟩).2
  · intro y1 h1 y2 h2 heq
    have h1' : y1 ∈ Y := h1
    have h2' : y2 ∈ Y := h2
    simp only [h1', h2', dif_pos] at heq
    have := G.injective (Subtype.ext heq)
    simpa using congrArg Subtype.val this
  · intro y hy
    have hyY := hM hy
    simp only [hyY, dif_pos]
    have hy' : ∃ p ∈ R, h p = ((⟨y, hyY⟩ : Y) : Nat) := h_mand y hy
    rw [hG ⟨y, hyY⟩ (by simp [img]; exact hy')]
    exact (finv_spec ⟨y, hyY⟩ hy').1
  · intro p hp
    obtain ⟨hpY, hpc⟩ := h_Y p hp
    refine ⟨h p, hpY, ?_, hpc⟩
    simp only [hpY, dif_pos]
    have hy' : ∃ q ∈ R, h q = ((⟨h p, hpY⟩ : Y) : Nat) := ⟨p, hp, rfl⟩
    rw [hG ⟨h p, hpY⟩ (by simp [img]; exact hy')]
    have := finv_spec ⟨h p, hpY⟩ hy'
    exact h_inj this.1 hp this.2

#print axioms exists_matching_of_placement
