import Cdecao.Engine.BabOpt
import Cdecao.Proofs.NodeEng3
import Cdecao.Proofs.NodeProg
import Cdecao.Proofs.NodeWrong
/-! Assembly of the node-level clauses into the end-to-end theorems:
    * `caobab_bounded` — the premise `Bounded` of the engine theorems (C03, C09) for the caobab node solver,
      with or without rooms;
    * `C02_partial` — without rooms, the finished search reports an assignment of maximal score among all
      assignments satisfying the hard constraints, or nothing iff there is none. -/
set_option linter.style.haveILetI false
open Finset
namespace N2
open H2

/-! ### what the verdicts of `runNodeS` tell us -/

/-- "no solution" is only answered by the early exits -/
theorem runNodeS_noSol (I : Inst) (R : RoomFns) (nd : Node) (h : runNodeS I R nd = .ok .noSol) :
    guards I nd = some (.ok .noSol) := by
  unfold runNodeS at h
  split at h
  · rename_i r hg
    rw [hg, h]
  · exfalso
    split at h
    · contradiction
    · unfold post at h
      dsimp only at h
      split at h
      · contradiction
      · rename_i r hr
        obtain ⟨k, s, rfl⟩ := roomStage_some _ _ _ _ _ _ hr
        simp at h
      · unfold feasStage at h
        split at h
        · contradiction
        · simp at h
        · simp at h

/-- everything an infeasible verdict tells us: it comes from the room stage or from the feasibility stage,
    run on the matching's assignment with the score `hsc.toNat + bonusOf I nd` -/
theorem runNodeS_infeasible (I : Inst) (R : RoomFns) (nd : Node) (kids : List Node) (sc : Nat)
    (h : runNodeS I R nd = .ok (.infeasible kids sc)) :
    ∃ (mm : Vec Nat) (hsc : Int), guards I nd = none ∧ H2.run (nodeInp I nd) = some (mm, hsc) ∧
      (roomStage I R nd (Vec.tab I.P (assign I nd mm.get)).get (hsc.toNat + bonusOf I nd)
          = .ok (some (.infeasible kids sc)) ∨
       (roomStage I R nd (Vec.tab I.P (assign I nd mm.get)).get (hsc.toNat + bonusOf I nd) = .ok none ∧
        feasStage I nd (Vec.tab I.P (assign I nd mm.get)).get (hsc.toNat + bonusOf I nd)
          = .ok (.infeasible kids sc))) := by
  unfold runNodeS at h
  split at h
  · rename_i r hg
    exfalso
    unfold guards at hg
    repeat' split at hg
    all_goals first
      | (simp only [Option.some.injEq] at hg; rw [← hg] at h; simp at h)
      | contradiction
  · rename_i hg
    split at h
    · contradiction
    · rename_i mm hsc hrun
      refine ⟨mm, hsc, hg, hrun, ?_⟩
      unfold post at h
      dsimp only at h
      split at h
      · contradiction
      · rename_i r hr
        simp only [Except.ok.injEq] at h
        subst h
        exact Or.inl hr
      · rename_i hr
        exact Or.inr ⟨hr, h⟩

/-- an infeasible verdict of the room stage: the score is passed through, the children keep `enforced` -/
theorem roomStage_infeasible (I : Inst) (R : RoomFns) (nd : Node) (a : Nat → Option Nat) (score : Nat)
    (kids : List Node) (sc : Nat) (h : roomStage I R nd a score = .ok (some (.infeasible kids sc))) :
    sc = score ∧ (∃ rooms, I.roomSizes = some rooms) ∧ ∀ k ∈ kids, k.enforced = nd.enforced := by
  unfold roomStage at h
  split at h
  · simp at h
  · rename_i rooms hrooms
    split at h
    · contradiction
    · simp at h
    · simp only [Except.ok.injEq, Option.some.injEq, Res.infeasible.injEq] at h
      refine ⟨h.2.symm, ⟨rooms, hrooms⟩, ?_⟩
      rw [← h.1]
      intro k hk
      simp only [List.mem_map] at hk
      obtain ⟨r0, _, rfl⟩ := hk
      rfl

/-- the children of the feasibility stage -/
def feasKids (I : Inst) (nd : Node) (pprob : Bool) : Option Nat → List Node
  | none => []
  | some c =>
    (if pprob then [] else [{ nd with enforced := nd.enforced ++ [c] }]) ++
    (if (I.course c).fixed then [] else [{ nd with cancelled := nd.cancelled ++ [c] }])

/-- an infeasible verdict of the feasibility stage -/
theorem feasStage_infeasible (I : Inst) (nd : Node) (a : Nat → Option Nat) (score : Nat)
    (kids : List Node) (sc : Nat) (h : feasStage I nd a score = .ok (.infeasible kids sc)) :
    sc = score ∧ ∃ pprob bc, checkFeas I nd a (nodeInp I nd).skipx.get = .ok (false, pprob, bc) ∧
      kids = feasKids I nd pprob bc := by
  unfold feasStage at h
  split at h
  · contradiction
  · simp at h
  · rename_i pprob bc hf
    simp only [Except.ok.injEq, Res.infeasible.injEq] at h
    refine ⟨h.2.symm, pprob, bc, hf, ?_⟩
    rw [← h.1]
    cases bc <;> rfl

/-- the score of an infeasible verdict is the relaxation optimum plus the instructor bonus -/
theorem runNodeS_infeasible_score (I : Inst) (R : RoomFns) (nd : Node) (kids : List Node) (sc : Nat)
    (h : runNodeS I R nd = .ok (.infeasible kids sc)) :
    ∃ (mm : Vec Nat) (hsc : Int), guards I nd = none ∧ H2.run (nodeInp I nd) = some (mm, hsc) ∧
      sc = hsc.toNat + bonusOf I nd := by
  obtain ⟨mm, hsc, hg, hrun, hr | ⟨_, hf⟩⟩ := runNodeS_infeasible I R nd kids sc h
  · exact ⟨mm, hsc, hg, hrun, (roomStage_infeasible I R nd _ _ kids sc hr).1⟩
  · exact ⟨mm, hsc, hg, hrun, (feasStage_infeasible I nd _ _ kids sc hf).1⟩

/-- why `check_feasibility` answers "infeasible": an active participant with own choices sits in a course
    they did not choose, or (no such participant) some course misses its minimum and is proposed -/
theorem checkFeas_false (I : Inst) (nd : Node) (a : Nat → Option Nat) (isI : Nat → Bool) (pprob : Bool)
    (bc : Option Nat) (h : checkFeas I nd a isI = .ok (false, pprob, bc)) :
    (∃ p, p < I.P ∧ isI p = false ∧ I.instructorOnly p = false ∧
        (I.part p).choices.any (fun ch => some ch.course == a p) = false) ∨
    (pprob = false ∧ ∃ c, bc = some c) := by
  unfold checkFeas at h
  dsimp only at h
  split at h
  · rename_i p hfind
    left
    have hm := List.mem_of_find?_eq_some hfind
    have hp := List.find?_some hfind
    simp only [Bool.and_eq_true, Bool.not_eq_true'] at hp
    exact ⟨p, List.mem_range.1 hm, hp.1.1, hp.1.2, hp.2⟩
  · right
    split at h
    · contradiction
    · simp only [Except.ok.injEq, Prod.mk.injEq] at h
      obtain ⟨h1, h2, h3⟩ := h
      refine ⟨h2.symm, ?_⟩
      rw [h3] at h1
      cases bc with
      | none => simp at h1
      | some c => exact ⟨c, rfl⟩

/-- below `I.P` the skip mask of the Hungarian input is the node's base mask -/
theorem skipx_get (I : Inst) (nd : Node) (p : Nat) (hp : p < I.P) :
    (nodeInp I nd).skipx.get p = skipXBase I nd p := by
  simp only [nodeInp, Vec.get_tab]
  have : p < I.n := by unfold Inst.n; omega
  simp [this, hp]

/-- `enforced` stays duplicate-free along branching -/
theorem children_nodup (I : Inst) (R : RoomFns) (nd : Node) (hnd : nd.enforced.Nodup) (kids : List Node) (sc : Nat)
    (h : runNodeS I R nd = .ok (.infeasible kids sc)) : ∀ k ∈ kids, k.enforced.Nodup := by
  obtain ⟨mm, hsc, _, _, hr | ⟨_, hf⟩⟩ := runNodeS_infeasible I R nd kids sc h
  · intro k hk
    rw [(roomStage_infeasible I R nd _ _ kids sc hr).2.2 k hk]; exact hnd
  · obtain ⟨_, pprob, bc, hcf, rfl⟩ := feasStage_infeasible I nd _ _ kids sc hf
    intro k hk
    cases bc with
    | none => simp [feasKids] at hk
    | some c =>
      obtain ⟨_, _, hce⟩ := checkFeas_bc I nd _ _ _ _ c hcf
      simp only [feasKids, List.mem_append] at hk
      rcases hk with hk | hk
      · split at hk
        · simp at hk
        · simp only [List.mem_singleton] at hk
          subst hk
          exact List.nodup_append.2 ⟨hnd, by simp, by
            intro x hx y hy
            simp only [List.mem_singleton] at hy
            subst hy
            exact fun he => hce (he ▸ hx)⟩
      · split at hk
        · simp at hk
        · simp only [List.mem_singleton] at hk
          subst hk
          exact hnd

/-! ### assignments as functions: only the values below `I.P` matter -/

theorem attendees_congr (I : Inst) (a a' : Nat → Option Nat) (h : ∀ p, p < I.P → a p = a' p) (c : Nat) :
    G.attendees I a c = G.attendees I a' c := by
  unfold G.attendees
  apply List.countP_congr
  intro p hp
  rw [h p (List.mem_range.1 hp)]

theorem takesPlace_congr (I : Inst) (a a' : Nat → Option Nat) (h : ∀ p, p < I.P → a p = a' p) (c : Nat)
    (ht : G.takesPlace I a c) : G.takesPlace I a' c := by
  rcases ht with h1 | ⟨p, hp, hap⟩
  · exact Or.inl h1
  · exact Or.inr ⟨p, hp, by rw [← h p hp]; exact hap⟩

theorem hardOK_congr (I : Inst) (a a' : Nat → Option Nat) (h : ∀ p, p < I.P → a p = a' p)
    (hs : G.HardOK I a) : G.HardOK I a' := by
  have h' : ∀ p, p < I.P → a' p = a p := fun p hp => (h p hp).symm
  have hat := attendees_congr I a a' h
  refine ⟨?_, ?_, ?_, ?_, ?_, ?_⟩
  · intro p hp c hc
    exact hs.range p hp c (by rw [h p hp]; exact hc)
  · intro c hc ht i hi hin
    rw [← h i hi]
    exact hs.instr c hc (takesPlace_congr I a' a h' c ht) i hi hin
  · intro c hc ht
    rw [← hat c]
    exact hs.min c hc (takesPlace_congr I a' a h' c ht)
  · intro c hc ht
    rw [← hat c]
    exact hs.max c hc (takesPlace_congr I a' a h' c ht)
  · intro p hp hch hno
    obtain ⟨ch, hm, he⟩ := hs.chosen p hp hch
      (fun ⟨c, hc, hin, ht⟩ => hno ⟨c, hc, hin, takesPlace_congr I a a' h c ht⟩)
    exact ⟨ch, hm, by rw [← h p hp]; exact he⟩
  · intro p hp hch c hc
    exact hs.only p hp hch c (by rw [h p hp]; exact hc)

theorem solIn_congr (I : Inst) (nd : Node) (a a' : Nat → Option Nat) (h : ∀ p, p < I.P → a p = a' p)
    (hs : SolIn I nd a) : SolIn I nd a' := by
  have hat := attendees_congr I a a' h
  refine ⟨hardOK_congr I a a' h hs.hard, ?_, ?_, ?_⟩
  · intro c hc p hp
    rw [← h p hp]; exact hs.canc c hc p hp
  · intro c hc
    rw [← hat c]; exact hs.enf c hc
  · intro cs hcs
    rw [← hat cs.1]; exact hs.shr cs hcs

theorem scoreOf_congr (I : Inst) (a a' : Nat → Option Nat) (h : ∀ p, p < I.P → a p = a' p) :
    G.scoreOf I a = G.scoreOf I a' := by
  unfold G.scoreOf
  apply sum_congr rfl
  intro p hp
  rw [h p (mem_range.1 hp)]

/-- the assignment denoted by a reported list -/
def semOf (al : List (Option Nat)) : Nat → Option Nat := fun p => al.getD p none

theorem semOf_map (P : Nat) (a : Nat → Option Nat) (p : Nat) (hp : p < P) :
    semOf ((List.range P).map a) p = a p := by
  simp [semOf, List.getD_eq_getElem?_getD, hp]

/-- the solutions consistent with the root are exactly the assignments satisfying the hard constraints -/
theorem solIn_root_iff (I : Inst) (a : Nat → Option Nat) : SolIn I rootNode a ↔ G.HardOK I a := by
  constructor
  · exact fun h => h.hard
  · intro h
    refine ⟨h, ?_, ?_, ?_⟩
    · intro c hc; simp [rootNode] at hc
    · intro c hc; simp [rootNode] at hc
    · intro cs hcs; simp [rootNode] at hcs

theorem nodeOK2_root (I : Inst) : NodeOK2 I rootNode :=
  ⟨by simp [rootNode], by simp [rootNode], by simp [rootNode]⟩

/-- every assignment scores at most `P · W` -/
theorem scoreOf_le (I : Inst) (a : Nat → Option Nat) : G.scoreOf I a ≤ I.P * G.W := by
  rw [scoreOf_eq]
  have : ∀ n, ∑ p ∈ range n, term I a p ≤ n * G.W := by
    intro n
    induction n with
    | zero => simp
    | succ n ih => rw [sum_range_succ, Nat.succ_mul]; have := term_le I a n; omega
  exact this I.P

/-! ### the verdicts of the engine's `Solver` instance -/

theorem res_infeasible (I : Inst) (R : RoomFns) (nd : Node) (sc : Nat) :
    letI := solverOf I R
    Eng3.Solver.res nd = (Eng3.Res.infeasible sc : Eng3.Res (List (Option Nat))) →
      ∃ kids, runNodeS I R nd = .ok (.infeasible kids sc) ∧ Eng3.Solver.kids nd = kids := by
  letI := solverOf I R
  intro h
  simp only [Eng3.Solver.res, Eng3.Solver.kids] at h ⊢
  cases hr : runNodeS I R nd with
  | error e => simp [hr] at h
  | ok r =>
    cases r with
    | noSol => simp [hr] at h
    | feasible al s => simp [hr] at h
    | infeasible kids s =>
      simp only [hr, Eng3.Res.infeasible.injEq] at h
      subst h
      exact ⟨kids, rfl, rfl⟩

theorem res_feasible (I : Inst) (R : RoomFns) (nd : Node) (al : List (Option Nat)) (sc : Nat) :
    letI := solverOf I R
    Eng3.Solver.res nd = Eng3.Res.feasible al sc → runNodeS I R nd = .ok (.feasible al sc) := by
  letI := solverOf I R
  intro h
  simp only [Eng3.Solver.res] at h
  cases hr : runNodeS I R nd with
  | error e => simp [hr] at h
  | ok r =>
    cases r with
    | noSol => simp [hr] at h
    | infeasible kids s => simp [hr] at h
    | feasible al' s =>
      simp only [hr, Eng3.Res.feasible.injEq] at h
      rw [h.1, h.2]

theorem res_noSol (I : Inst) (R : RoomFns) (nd : Node) :
    letI := solverOf I R
    Eng3.Solver.res nd = (Eng3.Res.noSol : Eng3.Res (List (Option Nat))) → runNodeS I R nd = .ok .noSol := by
  letI := solverOf I R
  intro h
  simp only [Eng3.Solver.res] at h
  cases hr : runNodeS I R nd with
  | error e => simp [hr] at h
  | ok r =>
    cases r with
    | noSol => rfl
    | infeasible kids s => simp [hr] at h
    | feasible al' s => simp [hr] at h

theorem res_panic (I : Inst) (R : RoomFns) (nd : Node) :
    letI := solverOf I R
    Eng3.Solver.res nd = (Eng3.Res.panic : Eng3.Res (List (Option Nat))) → ∃ e, runNodeS I R nd = .error e := by
  letI := solverOf I R
  intro h
  simp only [Eng3.Solver.res] at h
  cases hr : runNodeS I R nd with
  | error e => exact ⟨e, rfl⟩
  | ok r =>
    cases r with
    | noSol => simp [hr] at h
    | infeasible kids s => simp [hr] at h
    | feasible al' s => simp [hr] at h

/-! ### (A) `Bounded`, with or without rooms -/

/-- the clauses of the node specification that give `Bounded`, on nodes satisfying `NodeOK2` -/
theorem caobab_boundSpec (I : Inst) (R : RoomFns) (hI : InstOK2 I)
    (hmm : ∀ c, c < I.C → (I.course c).numMin ≤ (I.course c).numMax) (hnf : NoFreeable I) :
    letI := solverOf I R
    Eng3.BoundSpec (Nat → Option Nat) (G.scoreOf I) (SolIn I) semOf (NodeOK2 I) := by
  letI := solverOf I R
  refine ⟨?_, ?_, ?_, ?_⟩
  · intro n sc hn hr k hk
    obtain ⟨kids, hrun, hkids⟩ := res_infeasible I R n sc hr
    rw [hkids] at hk
    exact children_ok2 I R n hn kids sc hrun k hk
  · intro n al sc hn hr
    have hrun := res_feasible I R n al sc hr
    obtain ⟨a, hal, hs, hsc⟩ := feas_in_sol I R n hI hmm hn al sc hrun
    have hag : ∀ p, p < I.P → a p = semOf al p := by
      intro p hp; rw [hal, semOf_map I.P a p hp]
    exact ⟨solIn_congr I n a _ hag hs, by rw [hsc]; exact (scoreOf_congr I a _ hag).symm⟩
  · intro n sc hn hr a hs
    obtain ⟨kids, hrun, _⟩ := res_infeasible I R n sc hr
    obtain ⟨mm, hsc, hg, hH, rfl⟩ := runNodeS_infeasible_score I R n kids sc hrun
    exact node_bound I n hI hmm hn hnf hg mm hsc hH a hs
  · intro n sc _ hr k hk a hs
    obtain ⟨kids, hrun, hkids⟩ := res_infeasible I R n sc hr
    rw [hkids] at hk
    exact node_mono I R n kids sc hrun k hk a hs

/-- (A) the premise `Bounded` of the engine theorems C03/C09 holds for the caobab node solver on every
    well-formed instance of the class outside F1 — with or without a room list, for any room arithmetic. -/
theorem caobab_bounded (I : Inst) (R : RoomFns) (hI : InstOK2 I)
    (hmm : ∀ c, c < I.C → (I.course c).numMin ≤ (I.course c).numMax) (hnf : NoFreeable I) :
    letI := solverOf I R
    Eng3.Bounded rootNode := by
  letI := solverOf I R
  exact Eng3.bounded_of_bspec (caobab_boundSpec I R hI hmm hnf) rootNode (nodeOK2_root I)

/-! ### (B) optimality of the finished search, without rooms -/

theorem roomSizes_none (I : Inst) (h : I.rooms = none) : I.roomSizes = none := by
  simp [Inst.roomSizes, h]

/-- the tree invariant under which all clauses of the node specification hold -/
def TreeOK (I : Inst) (nd : Node) : Prop := NodeOK2 I nd ∧ nd.enforced.Nodup

theorem treeOK_root (I : Inst) : TreeOK I rootNode := ⟨nodeOK2_root I, by simp [rootNode]⟩

/-- `NodeSpec.cover` without rooms: the children of an infeasible node cover its solution set -/
theorem node_cover (I : Inst) (R : RoomFns) (nd : Node) (hrooms : I.rooms = none) (hI : InstOK2 I)
    (hmm : ∀ c, c < I.C → (I.course c).numMin ≤ (I.course c).numMax) (hn2 : NodeOK2 I nd) (hnf : NoFreeable I)
    (hpen : ∑ p ∈ range I.P, maxPen I p < G.W) (kids : List Node) (sc : Nat)
    (h : runNodeS I R nd = .ok (.infeasible kids sc)) (a : Nat → Option Nat) (hs : SolIn I nd a) :
    ∃ k ∈ kids, SolIn I k a := by
  obtain ⟨mm, hsc, hg, hH, hroom | ⟨_, hf⟩⟩ := runNodeS_infeasible I R nd kids sc h
  · obtain ⟨_, ⟨rooms, hrs⟩, _⟩ := roomStage_infeasible I R nd _ _ kids sc hroom
    rw [roomSizes_none I hrooms] at hrs
    cases hrs
  · obtain ⟨_, pprob, bc, hcf, rfl⟩ := feasStage_infeasible I nd _ _ kids sc hf
    rcases checkFeas_false I nd _ _ pprob bc hcf with ⟨p, hp, hact, _, hany⟩ | ⟨rfl, c, rfl⟩
    · -- a participant in a course they did not choose: the node has no solution at all
      exfalso
      rw [skipx_get I nd p hp] at hact
      refine wrong_empty I nd hI hmm hn2 hnf hpen hg mm hsc hH p hp hact ?_ a hs
      rintro c hc ⟨ch, hm, he⟩
      have hav : (Vec.tab I.P (assign I nd mm.get)).get p = assign I nd mm.get p := by
        rw [Vec.get_tab]; simp [hp]
      rw [hav, hc, List.any_eq_false] at hany
      exact hany ch hm (by simp [he])
    · -- a violated minimum: enforce or cancel the proposed course
      obtain ⟨hcC, _, _⟩ := checkFeas_bc I nd _ _ _ _ c hcf
      rcases cover_min I nd a hs c hcC with h1 | ⟨hfx, h2⟩
      · exact ⟨_, by simp [feasKids], h1⟩
      · exact ⟨_, by simp [feasKids, hfx], h2⟩

/-- the node specification of the engine's optimality theorem, for the caobab node solver without rooms -/
theorem caobab_nodeSpec (I : Inst) (R : RoomFns) (hrooms : I.rooms = none) (hI : InstOK2 I)
    (hmm : ∀ c, c < I.C → (I.course c).numMin ≤ (I.course c).numMax) (hnf : NoFreeable I)
    (hpen : ∑ p ∈ range I.P, maxPen I p < G.W) (B : Nat)
    (hB : ∀ rooms, I.roomSizes = some rooms → ∀ ci, ci < I.C → ∀ k, ssOf I R ci (rooms.getD k 0) < B) :
    letI := solverOf I R
    Eng3.NodeSpecOn (Nat → Option Nat) (G.scoreOf I) (SolIn I) semOf (mu I B) (TreeOK I) := by
  letI := solverOf I R
  have hb := caobab_boundSpec I R hI hmm hnf
  refine ⟨⟨?_, fun n al sc hn => hb.feasIn n al sc hn.1, fun n sc hn => hb.bound n sc hn.1,
    fun n sc hn => hb.mono n sc hn.1⟩, ?_, ?_, ?_, ?_, ?_⟩
  · intro n sc hn hr k hk
    obtain ⟨kids, hrun, hkids⟩ := res_infeasible I R n sc hr
    rw [hkids] at hk
    exact ⟨children_ok2 I R n hn.1 kids sc hrun k hk, children_nodup I R n hn.2 kids sc hrun k hk⟩
  · intro n al sc hn hr a hs
    exact feas_optimal I R n hI hmm hn.1 hnf al sc (res_feasible I R n al sc hr) a hs
  · intro n hn hr a
    exact node_none I n hI.toInstOK hn.1 hn.2 hnf (runNodeS_noSol I R n (res_noSol I R n hr)) a
  · intro n sc hn hr a hs
    obtain ⟨kids, hrun, hkids⟩ := res_infeasible I R n sc hr
    rw [hkids]
    exact node_cover I R n hrooms hI hmm hn.1 hnf hpen kids sc hrun a hs
  · intro n sc _ hr k hk
    obtain ⟨kids, hrun, hkids⟩ := res_infeasible I R n sc hr
    rw [hkids] at hk
    exact node_prog I R n B hB kids sc hrun k hk
  · intro n hn hr
    obtain ⟨e, he⟩ := res_panic I R n hr
    obtain ⟨r, hr'⟩ := node_total I R n hI.toInstOK hmm hn.1
    rw [he] at hr'
    cases hr'

/-- (B) C02 for the class outside F1, without rooms: for every thread count and every schedule, when all
    workers have stopped the search reports nothing iff no assignment satisfies the hard constraints, and
    otherwise an assignment satisfying them, with its documented score, that no such assignment beats. -/
theorem C02_partial (I : Inst) (R : RoomFns) (hrooms : I.rooms = none) (hI : InstOK2 I)
    (hmm : ∀ c, c < I.C → (I.course c).numMin ≤ (I.course c).numMax) (hnf : NoFreeable I)
    (hpen : ∑ p ∈ range I.P, maxPen I p < G.W) (top T : Nat) (hT : 0 < T)
    (htop : ∀ a, G.HardOK I a → G.scoreOf I a ≤ top) :
    letI := solverOf I R
    ∀ c : Eng3.Cfg Node (List (Option Nat)), Eng3.Reach rootNode top T c → Eng3.AllDone c →
      (c.best = none → ∀ a, ¬ G.HardOK I a) ∧
      (∀ al, c.best = some al → ∃ a : Nat → Option Nat, al = (List.range I.P).map a ∧ G.HardOK I a ∧
        c.bestScore = G.scoreOf I a ∧ ∀ a', G.HardOK I a' → G.scoreOf I a' ≤ c.bestScore) := by
  letI := solverOf I R
  intro c hr hd
  obtain ⟨B, hB⟩ := exists_B I R
  have hspec := caobab_nodeSpec I R hrooms hI hmm hnf hpen B hB
  obtain ⟨h1, h2⟩ := Eng3.bab_optimal_on hspec (root := rootNode) (treeOK_root I) hT
    (fun a ha => htop a ha.hard) hr hd
  refine ⟨fun hn a ha => h1 hn a ((solIn_root_iff I a).2 ha), ?_⟩
  intro al hal
  obtain ⟨_, _, hopt⟩ := h2 al hal
  obtain ⟨a, hal', hhard, hsc⟩ := C01_C08_engine I R hI top T c hr al hal
  exact ⟨a, hal', hhard, hsc, fun a' ha' => hopt a' ((solIn_root_iff I a').2 ha')⟩

/-- (B) with a numeric initial bound: any `top ≥ P · W` will do -/
theorem C02_partial_top (I : Inst) (R : RoomFns) (hrooms : I.rooms = none) (hI : InstOK2 I)
    (hmm : ∀ c, c < I.C → (I.course c).numMin ≤ (I.course c).numMax) (hnf : NoFreeable I)
    (hpen : ∑ p ∈ range I.P, maxPen I p < G.W) (top T : Nat) (hT : 0 < T) (htop : I.P * G.W ≤ top) :
    letI := solverOf I R
    ∀ c : Eng3.Cfg Node (List (Option Nat)), Eng3.Reach rootNode top T c → Eng3.AllDone c →
      (c.best = none → ∀ a, ¬ G.HardOK I a) ∧
      (∀ al, c.best = some al → ∃ a : Nat → Option Nat, al = (List.range I.P).map a ∧ G.HardOK I a ∧
        c.bestScore = G.scoreOf I a ∧ ∀ a', G.HardOK I a' → G.scoreOf I a' ≤ c.bestScore) :=
  C02_partial I R hrooms hI hmm hnf hpen top T hT (fun a _ => Nat.le_trans (scoreOf_le I a) htop)

#print axioms caobab_bounded
#print axioms C02_partial
#print axioms C02_partial_top
end N2
