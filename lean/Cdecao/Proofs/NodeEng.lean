import Cdecao.Proofs.NodeKids
import Cdecao.Engine.SolInv
/-! Spike: C01 for the whole parallel search — the node model as `Solver` instance of the engine model;
    every node of the tree satisfies `NodeOK`; whatever the engine holds as incumbent, under any thread
    count and schedule, satisfies the hard constraints. -/
namespace N2
open H2

/-- the caobab node solver as the engine's `Solver` (a model panic is an engine panic) -/
@[reducible] def solverOf (I : Inst) (R : RoomFns) : Eng3.Solver Node (List (Option Nat)) where
  res nd := match runNodeS I R nd with
    | .ok .noSol => .noSol
    | .ok (.infeasible _ sc) => .infeasible sc
    | .ok (.feasible al sc) => .feasible al sc
    | .error _ => .panic
  kids nd := match runNodeS I R nd with
    | .ok (.infeasible kids _) => kids
    | _ => []

def rootNode : Node := ⟨[], [], []⟩

theorem desc_ok (I : Inst) (R : RoomFns) :
    letI := solverOf I R
    ∀ f t : Node, Eng3.Desc f t → NodeOK I t → NodeOK I f := by
  letI := solverOf I R
  intro f t hd
  induction hd with
  | refl => exact id
  | @step k t hk _ ih =>
    intro ht
    apply ih
    -- k was pushed by t: t is infeasible and k is one of its children
    simp only [Eng3.pushed, Eng3.Solver.res, Eng3.Solver.kids] at hk
    cases hr : runNodeS I R t with
    | error e => simp [hr] at hk
    | ok r =>
      cases r with
      | noSol => simp [hr] at hk
      | feasible al sc => simp [hr] at hk
      | infeasible kids sc =>
        simp only [hr] at hk
        exact children_ok I R t ht kids sc hr k hk

/-- C01 over the engine: at every reachable configuration — any thread count, any schedule — the
    incumbent satisfies the hard constraints. No hypothesis on the search tree. -/
theorem C01_engine (I : Inst) (R : RoomFns) (hI : InstOK I) (top T : Nat) :
    letI := solverOf I R
    ∀ c : Eng3.Cfg Node (List (Option Nat)),
      Eng3.Reach rootNode top T c → ∀ al, c.best = some al →
      al.length = I.P ∧ ∃ a : Nat → Option Nat, al = (List.range I.P).map a ∧ G.HardOK I a := by
  letI := solverOf I R
  intro c hr al hal
  have hinv := Eng3.reach_solinv hr
  rcases hinv.inc with h | ⟨f, sol, hd, hres, hbest⟩
  · rw [h] at hal; contradiction
  · rw [hbest] at hal
    simp only [Option.some.injEq] at hal
    subst hal
    have hok : NodeOK I f := desc_ok I R f rootNode hd (by intro c hc; simp [rootNode] at hc)
    simp only [Eng3.Solver.res] at hres
    cases hrun : runNodeS I R f with
    | error e => simp [hrun] at hres
    | ok r =>
      cases r with
      | noSol => simp [hrun] at hres
      | infeasible kids sc => simp [hrun] at hres
      | feasible al sc =>
        simp only [hrun, Eng3.Res.feasible.injEq] at hres
        obtain ⟨mm, h1, h2⟩ := C01_node I R f hI hok al sc hrun
        rw [← hres.1, h1]
        exact ⟨by simp, _, rfl, h2⟩

#print axioms C01_engine
end N2
