import Cdecao.Proofs.Score
import Cdecao.Proofs.NodeThm
/-! Spike: C08 at node level — the score `runNodeS` reports with a feasible verdict is the documented
    score of the reported assignment. -/
open Finset
namespace N2
open H2

def bonusOf (I : Inst) (nd : Node) : Nat :=
  (List.range I.C).foldl (fun acc c =>
    if nd.cancelled.contains c then acc
    else acc + WEIGHT * ((I.course c).instructors.countP (fun i => !I.instructorOnly i))) 0

/-- everything a feasible verdict tells us -/
theorem runNodeS_feasible (I : Inst) (R : RoomFns) (nd : Node) (al : List (Option Nat)) (sc : Nat)
    (h : runNodeS I R nd = .ok (.feasible al sc)) :
    ∃ (mm : Vec Nat) (hsc : Int) (b : Bool) (c : Option Nat), guards I nd = none ∧
      H2.run (nodeInp I nd) = some (mm, hsc) ∧
      checkFeas I nd (Vec.tab I.P (assign I nd mm.get)).get (nodeInp I nd).skipx.get = .ok (true, b, c) ∧
      al = (List.range I.P).map (Vec.tab I.P (assign I nd mm.get)).get ∧ sc = hsc.toNat + bonusOf I nd := by
  unfold runNodeS at h
  split at h
  · rename_i r hg
    exfalso
    unfold guards at hg
    repeat' split at hg
    all_goals first
      | (simp only [Option.some.injEq] at hg; rw [← hg] at h; simp at h; done)
      | contradiction
  · rename_i hg
    split at h
    · contradiction
    · rename_i mm hsc hrun
      unfold post at h
      dsimp only at h
      split at h
      · contradiction
      · rename_i r hr
        obtain ⟨k, s, rfl⟩ := roomStage_some _ _ _ _ _ _ hr
        simp at h
      · unfold feasStage at h
        split at h
        · contradiction
        · rename_i b c hf
          simp only [Except.ok.injEq, Res.feasible.injEq] at h
          exact ⟨mm, hsc, b, c, hg, hrun, hf, h.1.symm, h.2.symm⟩
        · simp at h

end N2

namespace N2
open H2

theorem foldl_cond_eq_sum (n : Nat) (cond : Nat → Bool) (f : Nat → Nat) :
    (List.range n).foldl (fun acc c => if cond c then acc else acc + f c) 0
      = ∑ c ∈ range n, (if cond c then 0 else f c) := by
  induction n with
  | zero => simp
  | succ n ih =>
    rw [List.range_succ, List.foldl_append, ih, sum_range_succ]
    simp only [List.foldl_cons, List.foldl_nil]
    split <;> simp

/-- the attendee-instructors of course `c` -/
def instrSet (I : Inst) (c : Nat) : Finset Nat :=
  (range I.P).filter (fun p => I.instructs p c = true ∧ I.hasChoices p = true)

theorem cnt_eq_card (I : Inst) (hI : InstOK I) (c : Nat) (hc : c < I.C) (hnd : (I.course c).instructors.Nodup) :
    (I.course c).instructors.countP (fun i => !I.instructorOnly i) = #(instrSet I c) := by
  rw [List.countP_eq_length_filter, ← List.toFinset_card_of_nodup (hnd.filter _)]
  congr 1
  ext p
  simp only [List.mem_toFinset, List.mem_filter, instrSet, mem_filter, mem_range, Inst.instructs,
    Inst.hasChoices, Inst.instructorOnly, List.contains_iff_mem, Bool.not_eq_true', Bool.not_eq_eq_eq_not,
    Bool.not_true]
  constructor
  · rintro ⟨h1, h2⟩
    have : I.instructs p c = true := by simpa [Inst.instructs, List.contains_iff_mem] using h1
    exact ⟨instr_range I hI.pre hc this, h1, by simpa using h2⟩
  · rintro ⟨_, h1, h2⟩
    exact ⟨h1, by simpa using h2⟩

theorem bonus_eq (I : Inst) (nd : Node) (mm : Nat → Nat) (hI : InstOK I)
    (hnd : ∀ c, c < I.C → (I.course c).instructors.Nodup) :
    bonusOf I nd = ∑ p ∈ (range I.P).filter
      (fun p => (G.instrOf I (ctxOf I nd mm) p).isSome = true ∧ I.hasChoices p = true), G.W := by
  classical
  unfold bonusOf
  rw [foldl_cond_eq_sum]
  set live := (range I.C).filter (fun c => nd.cancelled.contains c = false) with hlive
  have h1 : ∑ c ∈ range I.C, (if nd.cancelled.contains c = true then 0
        else WEIGHT * (I.course c).instructors.countP (fun i => !I.instructorOnly i))
      = ∑ c ∈ live, ∑ _p ∈ instrSet I c, G.W := by
    rw [hlive, sum_filter]
    apply sum_congr rfl
    intro c hc
    by_cases hcc : nd.cancelled.contains c = true
    · have hcf : ¬ (nd.cancelled.contains c = false) := by rw [hcc]; simp
      rw [if_pos hcc, if_neg hcf]
    · have hcf : nd.cancelled.contains c = false := by simpa using hcc
      rw [if_neg hcc, if_pos hcf, cnt_eq_card I hI c (mem_range.1 hc) (hnd c (mem_range.1 hc)),
        sum_const_nat (m := G.W) (fun _ _ => rfl), Nat.mul_comm]
      rfl
  have hdisj : (live : Set Nat).PairwiseDisjoint (instrSet I) := by
    intro c hc c' hc' hne
    rw [Function.onFun, disjoint_left]
    intro p hp hp'
    simp only [instrSet, mem_filter] at hp hp'
    exact hne (hI.oneCourse p c c' (instructs_lt I hp.2.1) (instructs_lt I hp'.2.1) hp.2.1 hp'.2.1)
  rw [h1, ← sum_biUnion hdisj]
  apply sum_congr _ (fun _ _ => rfl)
  ext p
  simp only [mem_biUnion, instrSet, mem_filter, mem_range, hlive]
  constructor
  · rintro ⟨c, ⟨hc, hcl⟩, hp, hin, hch⟩
    refine ⟨hp, ?_, hch⟩
    cases hio : G.instrOf I (ctxOf I nd mm) p with
    | some _ => rfl
    | none =>
      have := G.instrOf_none hio c hc (by simpa [ctxOf, List.contains_iff_mem] using hcl)
      rw [hin] at this; contradiction
  · rintro ⟨hp, hsome, hch⟩
    obtain ⟨c, hc⟩ := Option.isSome_iff_exists.1 hsome
    obtain ⟨h1, h2, h3⟩ := G.instrOf_some hc
    exact ⟨c, ⟨h1, by simpa [ctxOf, List.contains_iff_mem] using h2⟩, hp, h3, hch⟩

#print axioms bonus_eq
end N2

namespace N2
open H2

/-- validity beyond `InstOK` that the score needs -/
structure InstOK2 (I : Inst) : Prop extends InstOK I where
  nodup : ∀ c, c < I.C → (I.course c).instructors.Nodup
  pen : ∀ p ch, ch ∈ (I.part p).choices → ch.penalty ≤ WEIGHT

def wN (I : Inst) (x cp : Nat) : Nat := (I.weight x cp).toNat

theorem weight_nonneg (I : Inst) (hpen : ∀ p ch, ch ∈ (I.part p).choices → ch.penalty ≤ WEIGHT) (x cp : Nat) :
    0 ≤ I.weight x cp := by
  unfold Inst.weight
  split
  · split
    · rename_i ch hf
      have hm := List.mem_of_find?_eq_some hf
      have := hpen x ch (by simpa using hm)
      simp only [Int.ofNat_eq_natCast]; omega
    · exact Int.le_refl _
  · exact Int.le_refl _

theorem wN_real (I : Inst) (p cp : Nat) (hp : p < I.P) : wN I p cp = G.weightOf I p (I.colCourse cp) := by
  unfold wN Inst.weight G.weightOf
  rw [if_pos hp]
  split <;> rename_i h <;> simp only [h]
  · simp only [Int.ofNat_eq_natCast]
    exact Int.toNat_sub _ _
  · rfl

theorem wN_dummy (I : Inst) (x cp : Nat) (hx : I.P ≤ x) : wN I x cp = 0 := by
  unfold wN Inst.weight
  rw [if_neg (by omega)]; rfl

end N2

namespace N2
open H2

theorem sum_cast (s : Finset Nat) (f : Nat → Nat) : ∑ y ∈ s, (f y : Int) = ((∑ y ∈ s, f y : Nat) : Int) := by
  induction s using Finset.induction_on with
  | empty => simp
  | insert a s ha ih => rw [sum_insert ha, sum_insert ha, ih, Int.natCast_add]

theorem wt_eq (I : Inst) (nd : Node) (x cp : Nat) (hx : x < I.n) (hcp : cp < I.m) :
    (nodeInp I nd).wt x cp = I.weight x cp := by
  simp only [Inp.wt, nodeInp, Vec.get_tab, hx, hcp, if_true]

theorem mem_Y_iff (I : Inst) (nd : Node) (cp : Nat) :
    cp ∈ (probOf (nodeInp I nd)).Y ↔ cp < I.m ∧ skipY I nd cp = false := by
  simp only [probOf, nodeInp, mem_filter, mem_range, Vec.get_tab]
  constructor
  · rintro ⟨h1, h2⟩; exact ⟨h1, by simpa [h1] using h2⟩
  · rintro ⟨h1, h2⟩; exact ⟨h1, by simp [h1, h2]⟩

/-- the Hungarian score as the natural-number matching sum of the score spec -/
theorem hsc_eq (I : Inst) (nd : Node) (hpen : ∀ p ch, ch ∈ (I.part p).choices → ch.penalty ≤ WEIGHT)
    (mm : Vec Nat) (hperf : Perfect (probOf (nodeInp I nd)) mm.get) :
    (weight (probOf (nodeInp I nd)) mm.get).toNat
      = ∑ cp ∈ (range I.m).filter (fun cp => skipY I nd cp = false), wN I (mm.get cp) cp := by
  have hY : (probOf (nodeInp I nd)).Y = (range I.m).filter (fun cp => skipY I nd cp = false) := by
    ext cp; rw [mem_Y_iff]; simp
  have : weight (probOf (nodeInp I nd)) mm.get
      = ((∑ cp ∈ (range I.m).filter (fun cp => skipY I nd cp = false), wN I (mm.get cp) cp : Nat) : Int) := by
    rw [← sum_cast, weight, hY]
    apply sum_congr rfl
    intro cp hcp
    have hcpY : cp ∈ (probOf (nodeInp I nd)).Y := by rw [hY]; exact hcp
    have hcp' := (mem_Y_iff I nd cp).1 hcpY
    have hx := hperf.maps cp hcpY
    have hxn : mm.get cp < I.n := ((mem_X _ _).1 hx).1
    show (nodeInp I nd).wt (mm.get cp) cp = _
    rw [wt_eq I nd _ _ hxn hcp'.1, wN, Int.toNat_of_nonneg (weight_nonneg I hpen _ _)]
  rw [this, Int.toNat_natCast]

theorem scoreCtx (I : Inst) (nd : Node) (hI : InstOK I) (hpre : I.precomputeOk = true)
    (hu : I.m + numSkipX I nd ≤ I.n + numSkipY I nd)
    (hfit : I.P + (I.n - I.m + numSkipY I nd - numSkipX I nd) ≤ I.n)
    (mm : Vec Nat) (hperf : Perfect (probOf (nodeInp I nd)) mm.get) :
    G.ScoreCtx I (ctxOf I nd mm.get) (wN I) := by
  refine ⟨?_, ?_, ?_, ?_⟩
  · intro p cp hp _; exact wN_real I p cp hp
  · intro x cp hx; exact wN_dummy I x cp hx
  · -- an injective map between finite sets of equal size is onto
    intro p hp hact
    rw [isInstr_eq I nd mm.get p hp] at hact
    have hsq := node_square I nd hpre hu hfit
    have hpX : p ∈ (probOf (nodeInp I nd)).X := by
      have hpn : p < I.n := by unfold Inst.n; omega
      simp only [probOf, nodeInp, mem_filter, mem_range, Vec.get_tab, hpn, if_true, true_and,
        Bool.or_eq_false_iff, Bool.and_eq_false_iff, decide_eq_false_iff_not]
      exact ⟨hact, Or.inl (by omega)⟩
    have himg : (probOf (nodeInp I nd)).Y.image mm.get = (probOf (nodeInp I nd)).X := by
      apply eq_of_subset_of_card_le
      · intro x hx
        obtain ⟨y, hy, rfl⟩ := mem_image.1 hx
        exact hperf.maps y hy
      · rw [card_image_of_injOn hperf.inj, hsq]
    rw [← himg] at hpX
    obtain ⟨cp, hcp, hcpp⟩ := mem_image.1 hpX
    obtain ⟨h1, h2⟩ := (mem_Y_iff I nd cp).1 hcp
    exact ⟨cp, h1, h2, hcpp⟩
  · intro p c hc hl hin
    exact G.isInstr_true_of hc hl hin

/-- C08, node level: the reported score is the documented score of the reported assignment -/
theorem C08_node (I : Inst) (R : RoomFns) (nd : Node) (hI : InstOK2 I) (hn : NodeOK I nd)
    (al : List (Option Nat)) (sc : Nat) (h : runNodeS I R nd = .ok (.feasible al sc)) :
    ∃ mm : Vec Nat, al = (List.range I.P).map (assign I nd mm.get) ∧
      sc = G.scoreOf I (assign I nd mm.get) := by
  obtain ⟨mm, hsc, b, c, hg, hrun, _, hal, hscore⟩ := runNodeS_feasible I R nd al sc h
  obtain ⟨hpre, hu, hfit⟩ := guards_none I nd hg
  obtain ⟨hperf, hw, _⟩ := hung_partial (nodeInp I nd) (node_square I nd hpre hu hfit) mm hsc hrun
  have hctx := ctxOK I nd hI.toInstOK hn mm hperf
  have hsctx := scoreCtx I nd hI.toInstOK hpre hu hfit mm hperf
  refine ⟨mm, ?_, ?_⟩
  · rw [hal]
    apply List.map_congr_left
    intro p hp
    rw [Vec.get_tab]; simp [List.mem_range.1 hp]
  · have := G.score_truthful I _ (wN I) hctx hsctx
    have he : assign I nd mm.get = G.assign I (ctxOf I nd mm.get) := rfl
    rw [he, ← this, G.nodeScore, hscore, hw, hsc_eq I nd hI.pen mm hperf,
      bonus_eq I nd mm.get hI.toInstOK hI.nodup]
    rfl

#print axioms C08_node
end N2

namespace N2
open H2

/-- C01 + C08 at node level with one witness: the reported list is the model's assignment, it satisfies
    the hard constraints, and the reported score is its documented score -/
theorem node_feasible_spec (I : Inst) (R : RoomFns) (nd : Node) (hI : InstOK2 I) (hn : NodeOK I nd)
    (al : List (Option Nat)) (sc : Nat) (h : runNodeS I R nd = .ok (.feasible al sc)) :
    ∃ a : Nat → Option Nat, al = (List.range I.P).map a ∧ G.HardOK I a ∧ sc = G.scoreOf I a := by
  obtain ⟨mm, hsc, b, c, hg, hrun, hf, hal, hscore⟩ := runNodeS_feasible I R nd al sc h
  obtain ⟨hpre, hu, hfit⟩ := guards_none I nd hg
  obtain ⟨hperf, hw, _⟩ := hung_partial (nodeInp I nd) (node_square I nd hpre hu hfit) mm hsc hrun
  have hctx := ctxOK I nd hI.toInstOK hn mm hperf
  have hsctx := scoreCtx I nd hI.toInstOK hpre hu hfit mm hperf
  have hav : ∀ p, p < I.P → (Vec.tab I.P (assign I nd mm.get)).get p = assign I nd mm.get p := by
    intro p hp; rw [Vec.get_tab]; simp [hp]
  have hgate := checkFeas_gate I nd mm.get _ _ (by
      intro p hp
      simp only [nodeInp, Vec.get_tab]
      have : p < I.n := by unfold Inst.n; omega
      simp [this, hp]) hav b c hf
  refine ⟨assign I nd mm.get, ?_, G.gate_sound I _ hctx hgate, ?_⟩
  · rw [hal]
    apply List.map_congr_left
    intro p hp; exact hav p (List.mem_range.1 hp)
  · have := G.score_truthful I _ (wN I) hctx hsctx
    have he : assign I nd mm.get = G.assign I (ctxOf I nd mm.get) := rfl
    rw [he, ← this, G.nodeScore, hscore, hw, hsc_eq I nd hI.pen mm hperf,
      bonus_eq I nd mm.get hI.toInstOK hI.nodup]
    rfl

#print axioms node_feasible_spec
end N2
