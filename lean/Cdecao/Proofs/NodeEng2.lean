import Cdecao.Proofs.NodeEng
import Cdecao.Proofs.NodeScore
/-! Spike: C01 + C08 (score part) over the engine: whatever the parallel search holds as incumbent is an
    assignment satisfying the hard constraints, and the stored score is its documented score. -/
namespace N2
open H2

theorem C01_C08_engine (I : Inst) (R : RoomFns) (hI : InstOK2 I) (top T : Nat) :
    letI := solverOf I R
    ∀ c : Eng3.Cfg Node (List (Option Nat)),
      Eng3.Reach rootNode top T c → ∀ al, c.best = some al →
      ∃ a : Nat → Option Nat, al = (List.range I.P).map a ∧ G.HardOK I a ∧ c.bestScore = G.scoreOf I a := by
  letI := solverOf I R
  intro c hr al hal
  have hinv := Eng3.reach_solinv hr
  rcases hinv.inc with h | ⟨f, sol, hd, hres, hbest⟩
  · rw [h] at hal; contradiction
  · rw [hbest] at hal
    simp only [Option.some.injEq] at hal
    subst hal
    have hok : NodeOK I f := desc_ok I R f rootNode hd (by intro c hc; simp [rootNode] at hc)
    simp only [Eng3.Solver.res] at hres
    cases hrun : runNodeS I R f with
    | error e => simp [hrun] at hres
    | ok r =>
      cases r with
      | noSol => simp [hrun] at hres
      | infeasible kids sc => simp [hrun] at hres
      | feasible al sc =>
        simp only [hrun, Eng3.Res.feasible.injEq] at hres
        obtain ⟨a, h1, h2, h3⟩ := node_feasible_spec I R f hI hok al sc hrun
        exact ⟨a, by rw [← hres.1]; exact h1, h2, by rw [← hres.2]; exact h3⟩

#print axioms C01_C08_engine
end N2
