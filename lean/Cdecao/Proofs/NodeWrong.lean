import Cdecao.Proofs.NodeFeasSol
/-! Spike (C02_partial, last clause): if the relaxation optimum of a node puts an active participant into a
    course they did not choose, the node has no solution (penalty bound of the validity condition). -/
open Finset
namespace N2
open H2

def maxPen (I : Inst) (p : Nat) : Nat := (I.part p).choices.foldl (fun m ch => max m ch.penalty) 0

theorem pen_le_maxPen (I : Inst) (p : Nat) (ch : Choice) (h : ch ∈ (I.part p).choices) : ch.penalty ≤ maxPen I p := by
  unfold maxPen
  have : ∀ (l : List Choice) (m : Nat), (∀ x ∈ l, x.penalty ≤ l.foldl (fun m ch => max m ch.penalty) m) ∧
      m ≤ l.foldl (fun m ch => max m ch.penalty) m := by
    intro l
    induction l with
    | nil => intro m; simp
    | cons y ys ih =>
      intro m
      simp only [List.foldl_cons]
      obtain ⟨h1, h2⟩ := ih (max m y.penalty)
      refine ⟨?_, Nat.le_trans (Nat.le_max_left _ _) h2⟩
      intro x hx
      rcases List.mem_cons.1 hx with rfl | hx
      · exact Nat.le_trans (Nat.le_max_right _ _) h2
      · exact h1 x hx
  exact (this _ 0).1 ch h

theorem weightOf_le (I : Inst) (p c : Nat) : G.weightOf I p c ≤ G.W := by
  unfold G.weightOf; split <;> omega

theorem weightOf_chosen (I : Inst) (p c : Nat) (ch : Choice) (hch : ch ∈ (I.part p).choices) (hc : ch.course = c) :
    G.W ≤ G.weightOf I p c + maxPen I p := by
  unfold G.weightOf
  cases hf : (I.part p).choices.reverse.find? (fun ch => ch.course == c) with
  | none =>
    rw [List.find?_eq_none] at hf
    have := hf ch (by simpa using hch)
    simp [hc] at this
  | some ch' =>
    have hm := List.mem_of_find?_eq_some hf
    have := pen_le_maxPen I p ch' (by simpa using hm)
    dsimp only; omega

theorem weightOf_unchosen (I : Inst) (p c : Nat) (h : ¬ ∃ ch ∈ (I.part p).choices, ch.course = c) :
    G.weightOf I p c = 0 := by
  unfold G.weightOf
  cases hf : (I.part p).choices.reverse.find? (fun ch => ch.course == c) with
  | none => rfl
  | some ch' =>
    exfalso
    have hm := List.mem_of_find?_eq_some hf
    have hp := List.find?_some hf
    exact h ⟨ch', by simpa using hm, by simpa using hp⟩

/-- the per-participant summand of `scoreOf` -/
def term (I : Inst) (a : Nat → Option Nat) (p : Nat) : Nat :=
  match a p with
  | none => 0
  | some c => if I.instructs p c = true then (if I.hasChoices p = true then G.W else 0) else G.weightOf I p c

theorem scoreOf_eq (I : Inst) (a : Nat → Option Nat) : G.scoreOf I a = ∑ p ∈ range I.P, term I a p := rfl

theorem term_le (I : Inst) (a : Nat → Option Nat) (p : Nat) : term I a p ≤ G.W := by
  unfold term
  split
  · omega
  · split
    · split <;> omega
    · exact weightOf_le I p _

theorem wrong_empty (I : Inst) (nd : Node) (hI : InstOK2 I)
    (hmm : ∀ c, c < I.C → (I.course c).numMin ≤ (I.course c).numMax) (hn2 : NodeOK2 I nd) (hnf : NoFreeable I)
    (hpen : ∑ p ∈ range I.P, maxPen I p < G.W)
    (hg : guards I nd = none) (mm : Vec Nat) (hsc : Int) (hrun : H2.run (nodeInp I nd) = some (mm, hsc))
    (p0 : Nat) (hp0 : p0 < I.P) (hact0 : skipXBase I nd p0 = false)
    (hwrong : ∀ c, assign I nd mm.get p0 = some c → ¬ ∃ ch ∈ (I.part p0).choices, ch.course = c)
    (a : Nat → Option Nat) : ¬ SolIn I nd a := by
  intro hs
  have hn : NodeOK I nd := fun c hc => (hn2.canc c hc).2.1
  obtain ⟨hpre, hu, hfit⟩ := guards_none I nd hg
  obtain ⟨hperf, hw, _⟩ := hung_partial (nodeInp I nd) (node_square I nd hpre hu hfit) mm hsc hrun
  have hctx := ctxOK I nd hI.toInstOK hn mm hperf
  have hsctx := scoreCtx I nd hI.toInstOK hpre hu hfit mm hperf
  -- (∗) the solution scores at most the relaxation's own assignment
  have hstar : G.scoreOf I a ≤ G.scoreOf I (assign I nd mm.get) := by
    have hb := node_bound I nd hI hmm hn2 hnf hg mm hsc hrun a hs
    have := G.score_truthful I _ (wN I) hctx hsctx
    have he : assign I nd mm.get = G.assign I (ctxOf I nd mm.get) := rfl
    rw [he, ← this, G.nodeScore]
    rw [hw, hsc_eq I nd hI.pen mm hperf, bonus_eq I nd mm.get hI.toInstOK hI.nodup] at hb
    exact hb
  rw [scoreOf_eq, scoreOf_eq] at hstar
  -- termwise comparison
  have hterm : ∀ p ∈ range I.P, term I (assign I nd mm.get) p + (if p = p0 then G.W else 0)
      ≤ term I a p + maxPen I p := by
    intro p hp
    have hpP := mem_range.1 hp
    by_cases hact : skipXBase I nd p = false
    · obtain ⟨c, h1, _, h3, ch, hch, hcc⟩ := active_facts I nd hn a hs p hpP hact
      have hA : G.W ≤ term I a p + maxPen I p := by
        have := weightOf_chosen I p c ch hch hcc
        simp only [term, h1, h3, Bool.false_eq_true, if_false]
        exact this
      by_cases hpp : p = p0
      · subst hpp
        rw [if_pos rfl]
        have hM : term I (assign I nd mm.get) p = 0 := by
          unfold term
          cases hap : assign I nd mm.get p with
          | none => rfl
          | some c' =>
            dsimp only
            have hni : I.instructs p c' = false := by
              rw [Bool.eq_false_iff]
              intro hin
              have hlv := G.assign_live hctx (show G.assign I (ctxOf I nd mm.get) p = some c' from hap)
              have : G.isInstr I (ctxOf I nd mm.get) p = true := G.isInstr_true_of hlv.1 hlv.2 hin
              rw [isInstr_eq I nd mm.get p hpP, hact] at this
              contradiction
            rw [if_neg (by simp [hni])]
            exact weightOf_unchosen I p c' (hwrong c' hap)
        omega
      · rw [if_neg hpp]
        have := term_le I (assign I nd mm.get) p
        omega
    · -- not active: instructor-only, or instructor of a non-cancelled (hence fixed) course
      have hne : p ≠ p0 := by rintro rfl; exact hact hact0
      rw [if_neg hne]
      by_cases hch : I.hasChoices p = true
      · have hlive : liveInstructor I nd p = true := by
          have : skipXBase I nd p = true := by simpa using hact
          simp only [skipXBase, Bool.or_eq_true, Bool.and_eq_true, decide_eq_true_eq] at this
          rcases this with ⟨_, h⟩ | h
          · simp [Inst.hasChoices, Inst.instructorOnly] at hch h; simp [h] at hch
          · exact h
        simp only [liveInstructor, List.any_eq_true, List.mem_range, Bool.and_eq_true] at hlive
        obtain ⟨d, hd, _, hin⟩ := hlive
        have hin' : I.instructs p d = true := hin
        have hfx := hnf d p hd hin' hch
        have had := hs.hard.instr d hd (Or.inl hfx) p hpP hin'
        have hA : term I a p = G.W := by simp [term, had, hin', hch]
        have := term_le I (assign I nd mm.get) p
        omega
      · have hM : term I (assign I nd mm.get) p = 0 := by
          unfold term
          split
          · rfl
          · split
            · first | rfl | rw [if_neg hch]
            · apply weightOf_unchosen
              rintro ⟨ch, hm, _⟩
              simp [Inst.hasChoices] at hch
              rw [hch] at hm; cases hm
        omega
  have hsum := sum_le_sum hterm
  rw [sum_add_distrib, sum_add_distrib, sum_ite_eq' (range I.P) p0 (fun _ => G.W), if_pos (mem_range.2 hp0)] at hsum
  omega

#print axioms wrong_empty
end N2
