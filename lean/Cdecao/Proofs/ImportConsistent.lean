import Cdecao.Proofs.ReaderProofs
import Cdecao.Spec.Hard
/-! # The import file is consistent with the export it was computed from (properties C05, C11)

Everything is at the level of the model: the reader `CD.read`, the writer objects `CD.writeRegs` /
`CD.writeCourses`, and the hard constraints `N2.G.HardOK` of the problem that was read
(`CD.toInst parts courses`). Core only (no Mathlib). Sections:
 0. consequences of `HardOK` that do not depend on the reader (somebody assigned to a course
    instructs it or chose it; `takesPlace` read off an assignment list)
 1. `toInst` and its projections
 3. the writer objects by index / by membership
 4. export-level accessors (`regStatus`, `regCourseId`, `regInstructorId`, `courseSegment`,
    `courseMinSize`, `courseMaxSize`) and what the per-record parsers say about them
 5. `Link`: a successful `read` tied to the export, per participant index and per course index
    (`read_link`)
 6. key distinctness of the `courses` object (`NodupKeys`) and what it gives
 7. the clauses: `Link.regs_entry` (a, b, c), `Link.courses_entry` (d, f), `Link.no_cancelled_assignment`
    (e), `Link.cancelled_untouched` (f), `Link.invCount_eq` (the invisible counts on the export)
 8. `Selected`, `ignoredCount`, `Link.named_not_preassigned`, `Link.fixed_of_invisible`
 9. `CD.Ex`: a concrete export on which all hypotheses of the final theorems hold
The assembled statements are `Props.C05_consistent` (Props/C05.lean) and `Props.C11_consistent`
(Props/C11.lean). -/

/-! ## 0. consequences of `HardOK` that do not depend on the reader -/
namespace N2.G

/-- somebody assigned to `c` either instructs it or chose it -/
theorem HardOK.instructs_or_chose {I : Inst} {a : Nat → Option Nat} (h : HardOK I a) {p c : Nat}
    (hp : p < I.P) (ha : a p = some c) :
    I.instructs p c = true ∨ ∃ ch ∈ (I.part p).choices, ch.course = c := by
  cases hh : I.hasChoices p with
  | false => exact Or.inl (h.only p hp hh c ha)
  | true =>
    by_cases hex : ∃ c', c' < I.C ∧ I.instructs p c' = true ∧ takesPlace I a c'
    · obtain ⟨c', hc', hi, ht⟩ := hex
      have h2 := h.instr c' hc' ht p hp hi
      rw [ha] at h2
      cases h2
      exact Or.inl hi
    · obtain ⟨ch, hm, hch⟩ := h.chosen p hp hh hex
      rw [ha] at hch
      cases hch
      exact Or.inr ⟨ch, hm, rfl⟩

/-- the assignment function of an assignment list -/
def ofList (al : List (Option Nat)) : Nat → Option Nat := fun p => al.getD p none

theorem ofList_eq_some {al : List (Option Nat)} {p c : Nat} :
    ofList al p = some c ↔ al[p]? = some (some c) := by
  unfold ofList
  rw [List.getD_eq_getElem?_getD]
  cases h : al[p]? with
  | none => simp
  | some x => simp

/-- somebody (within the list) is assigned to `c` iff `some c` is counted in the list -/
theorem exists_assigned_iff (al : List (Option Nat)) (n c : Nat) (hlen : al.length = n) :
    (∃ p, p < n ∧ ofList al p = some c) ↔ 0 < al.countP (· == some c) := by
  rw [List.countP_pos_iff]
  constructor
  · rintro ⟨p, _, hpc⟩
    rw [ofList_eq_some] at hpc
    exact ⟨some c, List.mem_of_getElem? hpc, by simp⟩
  · rintro ⟨x, hx, hxc⟩
    have : x = some c := by simpa using hxc
    subst this
    obtain ⟨p, hp, hget⟩ := List.getElem_of_mem hx
    refine ⟨p, hlen ▸ hp, ?_⟩
    rw [ofList_eq_some, List.getElem?_eq_getElem hp, hget]

end N2.G

namespace CD
open JS N2.G

/-! ## 1. the problem handed to the solver -/

/-- the optimisation problem built from what `read` returns (no room data) -/
def toInst (parts : List Part) (courses : List Course) : N2.Inst :=
  { cs := courses.map (fun c => ⟨c.numMin, c.numMax, c.fixed, c.instructors⟩)
    ps := parts.map (fun p => ⟨p.choices.map (fun ch => ⟨ch.1, ch.2⟩)⟩)
    rooms := none }

@[simp] theorem toInst_C (parts : List Part) (courses : List Course) :
    (toInst parts courses).C = courses.length := by
  simp [toInst, N2.Inst.C]

@[simp] theorem toInst_P (parts : List Part) (courses : List Course) :
    (toInst parts courses).P = parts.length := by
  simp [toInst, N2.Inst.P]

theorem toInst_course (parts : List Part) (courses : List Course) (c : Nat) (cc : Course)
    (h : courses[c]? = some cc) :
    (toInst parts courses).course c = ⟨cc.numMin, cc.numMax, cc.fixed, cc.instructors⟩ := by
  simp [toInst, N2.Inst.course, List.getD_eq_getElem?_getD, List.getElem?_map, h]

theorem toInst_part (parts : List Part) (courses : List Course) (p : Nat) (pp : Part)
    (h : parts[p]? = some pp) :
    (toInst parts courses).part p = ⟨pp.choices.map (fun ch => ⟨ch.1, ch.2⟩)⟩ := by
  simp [toInst, N2.Inst.part, List.getD_eq_getElem?_getD, List.getElem?_map, h]

theorem toInst_instructs (parts : List Part) (courses : List Course) (p c : Nat) (cc : Course)
    (h : courses[c]? = some cc) :
    (toInst parts courses).instructs p c = true ↔ p ∈ cc.instructors := by
  unfold N2.Inst.instructs
  rw [toInst_course parts courses c cc h]
  simp

theorem toInst_chose (parts : List Part) (courses : List Course) (p c : Nat) (pp : Part)
    (h : parts[p]? = some pp) :
    (∃ ch ∈ ((toInst parts courses).part p).choices, ch.course = c) ↔ ∃ pen, (c, pen) ∈ pp.choices := by
  rw [toInst_part parts courses p pp h]
  simp only [List.mem_map]
  constructor
  · rintro ⟨ch, ⟨⟨c', pen⟩, hm, rfl⟩, rfl⟩
    exact ⟨pen, hm⟩
  · rintro ⟨pen, hm⟩
    exact ⟨⟨c, pen⟩, ⟨(c, pen), hm, rfl⟩, rfl⟩

/-! ## 3. the writer objects by index -/

theorem writeCourses_getElem? (courses : List Course) (al : List (Option Nat)) (c : Nat) :
    (writeCourses courses al)[c]? =
      (courses[c]?).map (fun cc => (cc.dbid, decide (0 < al.countP (· == some c)) || cc.fixed)) := by
  unfold writeCourses
  rw [List.getElem?_map, List.getElem?_zipIdx]
  cases courses[c]? <;> simp

theorem mem_writeCourses (courses : List Course) (al : List (Option Nat)) (cid : Nat) (b : Bool) :
    (cid, b) ∈ writeCourses courses al ↔
      ∃ c cc, courses[c]? = some cc ∧ cid = cc.dbid ∧
        b = (decide (0 < al.countP (· == some c)) || cc.fixed) := by
  rw [List.mem_iff_getElem?]
  constructor
  · rintro ⟨c, hc⟩
    rw [writeCourses_getElem?] at hc
    cases hcc : courses[c]? with
    | none => rw [hcc] at hc; cases hc
    | some cc =>
      rw [hcc] at hc
      simp only [Option.map_some, Option.some.injEq, Prod.mk.injEq] at hc
      exact ⟨c, cc, hcc, hc.1.symm, hc.2.symm⟩
  · rintro ⟨c, cc, hcc, rfl, rfl⟩
    exact ⟨c, by rw [writeCourses_getElem?, hcc]; rfl⟩

theorem mem_writeRegs (parts : List Part) (courses : List Course) (al : List (Option Nat))
    (rid cid : Nat) :
    (rid, cid) ∈ writeRegs parts courses al ↔
      ∃ (p : Nat) (pp : Part) (c : Nat), parts[p]? = some pp ∧ al[p]? = some (some c) ∧ rid = pp.dbid ∧
        cid = (courses.getD c default).dbid := by
  unfold writeRegs
  simp only [List.mem_filterMap, Option.map_eq_some_iff, Prod.mk.injEq, Prod.exists]
  constructor
  · rintro ⟨pp, x, hm, c, rfl, h1, h2⟩
    obtain ⟨p, hp⟩ := List.mem_iff_getElem?.1 hm
    rw [List.getElem?_zip_eq_some] at hp
    exact ⟨p, pp, c, hp.1, hp.2, h1.symm, h2.symm⟩
  · rintro ⟨p, pp, c, h1, h2, rfl, rfl⟩
    refine ⟨pp, some c, ?_, c, rfl, rfl, rfl⟩
    exact List.mem_iff_getElem?.2 ⟨p, by rw [List.getElem?_zip_eq_some]; exact ⟨h1, h2⟩⟩

/-! ## 4. export-level accessors, and what the per-record parsers say about them -/

/-- `parts[partId].status` of a registration of the export, as an i64 (`none` when the registration
    has no record for the part, or no integer `status` in it) -/
def regStatus (reg : J) (partId : Nat) : Option Int :=
  match statusView reg partId with
  | some (some st) => st.bind J.asI64
  | _ => none

/-- inversion of `participantBaseV` on the status view -/
theorem participantBaseV_status (sv : Option (Option (Option J))) (pv : Option (Option J × Option J))
    (isP : Bool) (name : String) (h : participantBaseV sv pv = .ok (isP, name)) :
    (sv = some none ∧ isP = false) ∨
    ∃ st s, sv = some (some st) ∧ st.bind J.asI64 = some s ∧ isP = (s == Int.ofNat Const.STATUS_PARTICIPANT) := by
  unfold participantBaseV at h
  cases sv with
  | none => cases h
  | some rp =>
    cases rp with
    | none =>
      left
      refine ⟨rfl, ?_⟩
      simp only at h
      cases pv with
      | none => cases h
      | some gf =>
        obtain ⟨g, f⟩ := gf
        simp only at h
        cases hg : g.bind J.asStr with
        | none => rw [hg] at h; cases h
        | some gn =>
          rw [hg] at h
          cases hf : f.bind J.asStr with
          | none => rw [hf] at h; cases h
          | some fnm =>
            rw [hf] at h
            simp only [Except.ok.injEq, Prod.mk.injEq] at h
            exact h.1.symm
    | some st =>
      right
      simp only at h
      cases hs : st.bind J.asI64 with
      | none => rw [hs] at h; cases h
      | some s =>
        rw [hs] at h
        refine ⟨st, s, rfl, hs, ?_⟩
        simp only at h
        cases pv with
        | none => cases h
        | some gf =>
          obtain ⟨g, f⟩ := gf
          simp only at h
          cases hg : g.bind J.asStr with
          | none => rw [hg] at h; cases h
          | some gn =>
            rw [hg] at h
            cases hf : f.bind J.asStr with
            | none => rw [hf] at h; cases h
            | some fnm =>
              rw [hf] at h
              simp only [Except.ok.injEq, Prod.mk.injEq] at h
              exact h.1.symm

/-- `participantBase` reports a participant exactly when `parts[partId].status` is 2 -/
theorem participantBase_status (reg : J) (partId : Nat) (isP : Bool) (name : String)
    (h : participantBase reg partId = .ok (isP, name)) :
    isP = true ↔ regStatus reg partId = some (Int.ofNat Const.STATUS_PARTICIPANT) := by
  rw [participantBase_eq_view] at h
  unfold regStatus
  rcases participantBaseV_status _ _ _ _ h with ⟨h1, h2⟩ | ⟨st, s, h1, h2, h3⟩
  · rw [h1, h2]; simp
  · rw [h1, h3]; simp only [h2]; simp

/-- `tracks[trackId].course_id` of a registration of the export, as a u64 (`none` when null/absent):
    the course the registration is already assigned to in that track -/
def regCourseId (reg : J) (trackId : Nat) : Option Nat :=
  match trackView reg trackId with
  | some (some (cid, _, _)) => cid.bind J.asU64
  | _ => none

/-- `tracks[trackId].course_instructor` of a registration of the export, as a u64 (`none` when
    null/absent): the course the registration instructs in that track -/
def regInstructorId (reg : J) (trackId : Nat) : Option Nat :=
  match trackView reg trackId with
  | some (some (_, cin, _)) => cin.bind J.asU64
  | _ => none

/-- inversion of the `resolve` closure: not a u64 and nothing resolved, or a known id -/
theorem resolveId_inv (co : CoursesOut) (v : J) (what : String) (r : Option Nat)
    (h : resolveId co v what = .ok r) :
    (v.asU64 = none ∧ r = none) ∨ ∃ id, v.asU64 = some id ∧ courseIndex co id = some r := by
  unfold resolveId at h
  cases hv : v.asU64 with
  | none =>
    rw [hv] at h
    simp only [Except.ok.injEq] at h
    exact Or.inl ⟨rfl, h.symm⟩
  | some id =>
    rw [hv] at h
    simp only at h
    cases hc : courseIndex co id with
    | none => rw [hc] at h; cases h
    | some r' =>
      rw [hc] at h
      simp only [Except.ok.injEq] at h
      subst h
      exact Or.inr ⟨id, rfl, hc⟩

/-- what `participantCourseData` made of `course_id` / `course_instructor`: the field is not a
    u64 and nothing is stored, or it is an id `courseIndex` knows and its resolution is stored -/
theorem pcd_fields (reg : J) (trackId : Nat) (co : CoursesOut) (pc : PCData)
    (h : participantCourseData reg trackId co = .ok pc) :
    ((regCourseId reg trackId = none ∧ pc.assigned = none) ∨
      ∃ id, regCourseId reg trackId = some id ∧ courseIndex co id = some pc.assigned) ∧
    ((regInstructorId reg trackId = none ∧ pc.instructed = none) ∨
      ∃ id, regInstructorId reg trackId = some id ∧ courseIndex co id = some pc.instructed) := by
  rw [participantCourseData_eq_view] at h
  unfold participantCourseDataV at h
  unfold regCourseId regInstructorId
  cases htv : trackView reg trackId with
  | none => rw [htv] at h; cases h
  | some tv =>
    rw [htv] at h
    cases tv with
    | none => cases h
    | some t =>
      obtain ⟨cid, cin, chs⟩ := t
      simp only at h
      cases cid with
      | none => cases h
      | some cidv =>
        simp only at h
        cases h1 : resolveId co cidv "Assigned course" with
        | error e => rw [h1] at h; cases h
        | ok assigned =>
          rw [h1] at h
          simp only at h
          cases cin with
          | none => cases h
          | some civ =>
            simp only at h
            cases h2 : resolveId co civ "Instructed course" with
            | error e => rw [h2] at h; cases h
            | ok instructed =>
              rw [h2] at h
              simp only at h
              cases h3 : chs.bind J.asArray with
              | none => rw [h3] at h; cases h
              | some arr =>
                rw [h3] at h
                simp only at h
                cases h4 : participantCourseData.go co 0 [] arr with
                | error e => rw [h4] at h; cases h
                | ok choices =>
                  rw [h4] at h
                  simp only [Except.ok.injEq] at h
                  subst h
                  simp only [Option.bind_some]
                  exact ⟨resolveId_inv co cidv _ _ h1, resolveId_inv co civ _ _ h2⟩

/-- `segments[trackId]` of a course of the export, as a boolean (`none` when the course has no
    boolean member for the track, i.e. is not offered in it): `true` takes place, `false` cancelled -/
def courseSegment (cv : J) (trackId : Nat) : Option Bool :=
  match segView cv trackId with
  | some (some (.bool b)) => some b
  | _ => none

/-- `min_size` of a course of the export, with the default -/
def courseMinSize (cv : J) : Nat := ((cv.get "min_size").bind J.asU64).getD Const.DEFAULT_MIN_SIZE
/-- `max_size` of a course of the export, with the default -/
def courseMaxSize (cv : J) : Nat := ((cv.get "max_size").bind J.asU64).getD Const.DEFAULT_MAX_SIZE

/-- the course is not part of the problem: its `segments` object has no member for the track (not
    offered), or the member is `false` (cancelled) and `--ignore-cancelled` is given -/
def NotKept (o : Opts) (trackId : Nat) (cv : J) : Prop :=
  segView cv trackId = some none ∨ (courseSegment cv trackId = some false ∧ o.ignoreCancelled = true)

theorem kept_segment (o : Opts) (sv : Option (Option J)) (s : CStatus)
    (h1 : statusOfSeg sv = some s) (h2 : keptStatus o s = true) :
    ∃ b, sv = some (some (.bool b)) ∧ (o.ignoreCancelled = true → b = true) := by
  unfold statusOfSeg at h1
  split at h1
  · cases h1; simp [keptStatus] at h2
  · exact ⟨true, rfl, fun _ => rfl⟩
  · cases h1
    refine ⟨false, rfl, ?_⟩
    intro hi
    simp [keptStatus, hi] at h2
  · cases h1

theorem notKept_segment (o : Opts) (sv : Option (Option J)) (s : CStatus)
    (h1 : statusOfSeg sv = some s) (h2 : keptStatus o s = false) :
    sv = some none ∨ (sv = some (some (.bool false)) ∧ o.ignoreCancelled = true) := by
  unfold statusOfSeg at h1
  split at h1
  · exact Or.inl rfl
  · cases h1; simp [keptStatus] at h2
  · cases h1
    right
    refine ⟨rfl, ?_⟩
    simpa [keptStatus] using h2
  · cases h1

/-- a kept course entry, on the export: its key is the database id, its segment in the track is a
    boolean (`true` with `--ignore-cancelled`), the sizes are the export's, and it starts unfixed,
    without instructors or invisible people -/
theorem courseEntry_export (trackId : Nat) (o : Opts) (kv : String × J) (e : String × Course)
    (h : courseEntry trackId o kv = some e) :
    ∃ b, parseNat kv.1 = some e.2.dbid ∧ courseSegment kv.2 trackId = some b ∧
      (o.ignoreCancelled = true → b = true) ∧
      e.2.numMin = courseMinSize kv.2 ∧ e.2.numMax = courseMaxSize kv.2 ∧
      e.2.fixed = false ∧ e.2.instructors = [] ∧ e.2.invInstr = 0 ∧ e.2.invAtt = 0 := by
  obtain ⟨cid, nr, sn, s, f, off, hk, _, _, hst, hkept, _, heq, _⟩ := courseEntry_spec trackId o kv e h
  obtain ⟨b, hb, hic⟩ := kept_segment o _ s hst hkept
  refine ⟨b, ?_, ?_, hic, ?_⟩
  · rw [heq]; exact hk
  · unfold courseSegment; rw [hb]
  · rw [heq]; exact ⟨rfl, rfl, rfl, rfl, rfl, rfl⟩

/-- a skipped course entry, on the export -/
theorem courseSkipped_export (trackId : Nat) (o : Opts) (kv : String × J) (id : Nat)
    (h : courseSkipped trackId o kv = some id) :
    parseNat kv.1 = some id ∧ NotKept o trackId kv.2 := by
  obtain ⟨hk, s, hst, hkept⟩ := courseSkipped_spec trackId o kv id h
  refine ⟨hk, ?_⟩
  rcases notKept_segment o _ s hst hkept with h1 | ⟨h1, h2⟩
  · exact Or.inl h1
  · exact Or.inr ⟨by unfold courseSegment; rw [h1], h2⟩

theorem courseEntry_not_skipped (trackId : Nat) (o : Opts) (kv : String × J) (e : String × Course)
    (h : courseEntry trackId o kv = some e) : courseSkipped trackId o kv = none := by
  unfold courseEntry at h
  unfold courseSkipped
  split at h
  · rename_i cid name s mn mx key hk hp
    split at h
    · rename_i hkept; simp [hkept]
    · cases h
  · cases h

theorem courseIndex_some_some (co : CoursesOut) (id c : Nat) (h : courseIndex co id = some (some c)) :
    id ∉ co.skipped ∧ ∃ c0, co.courses[c]? = some c0 ∧ c0.dbid = id := by
  obtain ⟨hs, hc, hd, _⟩ := (courseIndex_eq_some_some_iff co id c).1 h
  exact ⟨hs, co.courses[c], List.getElem?_eq_getElem hc, hd⟩

theorem courseIndex_some_none (co : CoursesOut) (id : Nat) (h : courseIndex co id = some none) :
    id ∈ co.skipped :=
  (courseIndex_eq_some_none_iff co id).1 h

/-! ## 5. linking a successful `read` to the export -/

theorem toReg_ok (partId trackId : Nat) (co : CoursesOut) (kv : String × J) (name : String) (pc : PCData)
    (h1 : participantBase kv.2 partId = .ok (true, name))
    (h2 : participantCourseData kv.2 trackId co = .ok pc) :
    toReg partId trackId co kv =
      { id := (parseNat kv.1).getD 0, isParticipant := true, assigned := pc.assigned,
        instructed := pc.instructed, choices := pc.choices } := by
  unfold toReg
  rw [h1]
  simp only [h2]

theorem toReg_notP (partId trackId : Nat) (co : CoursesOut) (kv : String × J) (name : String)
    (h1 : participantBase kv.2 partId = .ok (false, name)) :
    toReg partId trackId co kv = regDflt ((parseNat kv.1).getD 0) := by
  unfold toReg
  rw [h1]

theorem kept_map (ia : Bool) (partId trackId : Nat) (co : CoursesOut) (rdata : List (String × J)) :
    RD.kept ia (rdata.map (toReg partId trackId co)) =
      (rdata.filter (fun kv => RD.keep ia (toReg partId trackId co kv))).map (toReg partId trackId co) := by
  unfold RD.kept
  rw [List.filter_map]
  rfl

/-- the export's registration behind participant `p` -/
theorem readRegs_part_link (rdata : List (String × J)) (partId trackId : Nat) (td : List (String × J))
    (co : CoursesOut) (o : Opts) (s : RState)
    (h : readRegs rdata partId trackId td co o = .ok s) (p : Nat) (pp : Part)
    (hp : s.parts[p]? = some pp) :
    ∃ rkv name pc, rkv ∈ rdata ∧ parseNat rkv.1 = some pp.dbid ∧
      participantBase rkv.2 partId = .ok (true, name) ∧
      participantCourseData rkv.2 trackId co = .ok pc ∧
      ¬ (o.ignoreAssigned = true ∧ pc.assigned.isSome = true) ∧
      pp.choices = pc.choices ∧
      ∃ r : RD.Reg, (RD.kept o.ignoreAssigned (rdata.map (toReg partId trackId co)))[p]? = some r ∧
        r.instructed = pc.instructed := by
  have hparts := readRegs_parts rdata partId trackId td co o s h
  rw [hparts, List.getElem?_map] at hp
  cases hF : (rdata.filter (fun kv => RD.keep o.ignoreAssigned (toReg partId trackId co kv)))[p]? with
  | none => rw [hF] at hp; cases hp
  | some rkv =>
    rw [hF] at hp
    simp only [Option.map_some, Option.some.injEq] at hp
    have hmem := List.mem_of_getElem? hF
    rw [List.mem_filter] at hmem
    obtain ⟨hin, hkeep⟩ := hmem
    obtain ⟨name, pc, hb, hpc, hign, _⟩ := (keep_toReg_iff _ partId trackId co rkv).1 hkeep
    obtain ⟨rid, _, _, hrid, _, _⟩ := readRegs_all_parsed rdata partId trackId td co o s h rkv hin
    have htr := toReg_ok partId trackId co rkv name pc hb hpc
    refine ⟨rkv, name, pc, hin, ?_, hb, hpc, hign, ?_, toReg partId trackId co rkv, ?_, ?_⟩
    · rw [← hp]; unfold partOf; rw [htr, hrid]; rfl
    · rw [← hp]; unfold partOf; rw [htr]
    · rw [kept_map, List.getElem?_map, hF]; rfl
    · rw [htr]

/-- the export's course behind course index `c`, and the invisible counts -/
theorem readRegs_course_link (cdata : List (String × J)) (rdata : List (String × J))
    (partId trackId : Nat) (td : List (String × J)) (co : CoursesOut) (o : Opts) (s : RState)
    (h4 : readCourses cdata trackId o = .ok co)
    (h : readRegs rdata partId trackId td co o = .ok s) (c : Nat) (sc : Course)
    (hc : s.courses[c]? = some sc) :
    ∃ ckv e, ckv ∈ cdata ∧ courseEntry trackId o ckv = some e ∧ co.courses[c]? = some e.2 ∧
      sc.dbid = e.2.dbid ∧ sc.numMin = e.2.numMin ∧ sc.numMax = e.2.numMax ∧
      sc.invInstr = (rdata.map (toReg partId trackId co)).countP (invisibleIn o.ignoreAssigned c true) ∧
      sc.invAtt = (rdata.map (toReg partId trackId co)).countP (invisibleIn o.ignoreAssigned c false) := by
  obtain ⟨_, _, hframe, _⟩ := readRegs_spec rdata partId trackId td co o s h
  have hfr := congrArg (fun l => l[c]?) hframe
  simp only [List.getElem?_map, hc, Option.map_some] at hfr
  have hinv := (readRegs_invisible rdata partId trackId td co o s h).1 c
  rw [hc] at hinv
  cases h0 : co.courses[c]? with
  | none => rw [h0] at hfr; cases hfr
  | some c0 =>
    rw [h0] at hfr hinv
    simp only [Option.map_some, Option.some.injEq] at hfr hinv
    have hmem := List.mem_of_getElem? h0
    rw [(readCourses_perm cdata trackId o co h4).mem_iff] at hmem
    simp only [List.mem_map, List.mem_filterMap] at hmem
    obtain ⟨e, ⟨ckv, hckv, he⟩, rfl⟩ := hmem
    obtain ⟨b, _, _, _, _, _, _, _, hi0, ha0⟩ := courseEntry_export trackId o ckv e he
    simp only [courseCore, Prod.mk.injEq] at hfr
    simp only [invOf, Prod.mk.injEq, hi0, ha0, Nat.zero_add] at hinv
    exact ⟨ckv, e, hckv, he, rfl, hfr.1, hfr.2.2.1, hfr.2.2.2.1, hinv.1, hinv.2⟩

/-- number of ignored (pre-assigned, `--ignore-assigned`) registrations of the export counted for
    course index `c`, as instructors (`asInstr = true`) or attendees (`asInstr = false`) -/
def invCount (o : Opts) (partId trackId : Nat) (co : CoursesOut) (rdata : List (String × J))
    (c : Nat) (asInstr : Bool) : Nat :=
  rdata.countP (fun kv => invisibleIn o.ignoreAssigned c asInstr (toReg partId trackId co kv))

/-- everything a successful `read` ties together: the selection made on the export (`partId`,
    `trackId`, the `courses` / `registrations` objects, the course table `co` of `readCourses`),
    the registration behind each participant index and the course entry behind each course index -/
structure Link (data : J) (o : Opts) (parts : List Part) (courses : List Course) (amb : Ambience)
    (partId trackId : Nat) (cdata rdata : List (String × J)) (co : CoursesOut) : Prop where
  track : ∃ evparts td, eventParts data = some evparts ∧
    findTrack evparts o.track = .ok (partId, trackId, td)
  hcdata : coursesOf data = some cdata
  hrdata : regsOf data = some rdata
  hamb : amb.trackId = trackId
  hco : readCourses cdata trackId o = .ok co
  parsed : ∀ kv ∈ rdata, ∃ rid isP name, parseNat kv.1 = some rid ∧
    participantBase kv.2 partId = .ok (isP, name) ∧
    (isP = true → ∃ pc, participantCourseData kv.2 trackId co = .ok pc)
  part : ∀ (p : Nat) (pp : Part), parts[p]? = some pp →
    ∃ rkv name pc, rkv ∈ rdata ∧ parseNat rkv.1 = some pp.dbid ∧
      participantBase rkv.2 partId = .ok (true, name) ∧
      participantCourseData rkv.2 trackId co = .ok pc ∧
      ¬ (o.ignoreAssigned = true ∧ pc.assigned.isSome = true) ∧
      pp.choices = pc.choices ∧
      ∀ (ci : Nat) (cc : Course), courses[ci]? = some cc → (p ∈ cc.instructors ↔ pc.instructed = some ci)
  course : ∀ (c : Nat) (cc : Course), courses[c]? = some cc →
    ∃ ckv e, ckv ∈ cdata ∧ courseEntry trackId o ckv = some e ∧ co.courses[c]? = some e.2 ∧
      cc.dbid = e.2.dbid ∧
      cc.numMin = e.2.numMin - invCount o partId trackId co rdata c false ∧
      cc.numMax = e.2.numMax - invCount o partId trackId co rdata c false ∧
      cc.fixed = decide (invCount o partId trackId co rdata c true +
                         invCount o partId trackId co rdata c false ≠ 0)

theorem read_link (data : J) (o : Opts) (parts : List Part) (courses : List Course) (amb : Ambience)
    (h : read data o = .ok (parts, courses, amb)) :
    ∃ partId trackId cdata rdata co, Link data o parts courses amb partId trackId cdata rdata co := by
  obtain ⟨evparts, partId, trackId, td, cdata, rdata, co, s, h1, h2, h3, h4, h5, h6, h7, h8, h9⟩ :=
    read_inv data o parts courses amb h
  refine ⟨partId, trackId, cdata, rdata, co, ⟨evparts, td, h1, h2⟩, h3, h5, h9, h4,
    readRegs_all_parsed rdata partId trackId td co o s h6, ?_, ?_⟩
  · intro p pp hp
    rw [h7] at hp
    obtain ⟨rkv, name, pc, a1, a2, a3, a4, a5, a6, r, hr, hri⟩ :=
      readRegs_part_link rdata partId trackId td co o s h6 p pp hp
    refine ⟨rkv, name, pc, a1, a2, a3, a4, a5, a6, ?_⟩
    intro ci cc hcc
    obtain ⟨_, _, _, hinstr⟩ := readRegs_spec rdata partId trackId td co o s h6
    rw [h8, List.getElem?_map] at hcc
    cases hs : s.courses[ci]? with
    | none => rw [hs] at hcc; cases hcc
    | some c1 =>
      rw [hs] at hcc
      simp only [Option.map_some, Option.some.injEq] at hcc
      obtain ⟨c0, pushed, hc0, hpush, hk⟩ := hinstr ci c1 hs
      have hfresh := (readCourses_fresh cdata trackId o co h4 c0 (List.mem_of_getElem? hc0)).1
      rw [← hcc]
      show p ∈ c1.instructors ↔ _
      rw [hpush, hfresh, List.nil_append, hk p]
      constructor
      · rintro ⟨r', hr', hi'⟩
        rw [hr] at hr'
        cases hr'
        rw [← hri]; exact hi'
      · intro hi
        exact ⟨r, hr, by rw [hri]; exact hi⟩
  · intro c cc hcc
    rw [h8, List.getElem?_map] at hcc
    cases hs : s.courses[c]? with
    | none => rw [hs] at hcc; cases hcc
    | some sc =>
      rw [hs] at hcc
      simp only [Option.map_some, Option.some.injEq] at hcc
      obtain ⟨ckv, e, b1, b2, b3, b4, b5, b6, b7, b8⟩ :=
        readRegs_course_link cdata rdata partId trackId td co o s h4 h6 c sc hs
      rw [List.countP_map] at b7 b8
      refine ⟨ckv, e, b1, b2, b3, ?_, ?_, ?_, ?_⟩
      · rw [← hcc]; exact b4
      · rw [← hcc]; show sc.numMin - sc.invAtt = _; rw [b5, b8]; rfl
      · rw [← hcc]; show sc.numMax - sc.invAtt = _; rw [b6, b8]; rfl
      · rw [← hcc]; show decide (sc.invInstr + sc.invAtt ≠ 0) = _; rw [b7, b8]; rfl

/-! ## 6. key distinctness of the export's `courses` object -/

/-- the keys of the export's `courses` object are distinct as parsed numbers. (Not derivable in the
    model: `J.obj` is an arbitrary association list, and even string-distinct keys such as `"7"`
    and `"07"` parse to the same number.) -/
def NodupKeys (data : J) : Prop :=
  ∀ cdata, coursesOf data = some cdata → (courseIds cdata).Nodup

theorem filterMap_inj_of_nodup {α β : Type} (f : α → Option β) :
    ∀ (l : List α), (l.filterMap f).Nodup → ∀ a b x, a ∈ l → b ∈ l → f a = some x → f b = some x → a = b := by
  intro l
  induction l with
  | nil => intro _ a b x ha; cases ha
  | cons hd tl ih =>
    intro hn a b x ha hb hfa hfb
    cases hfh : f hd with
    | none =>
      rw [List.filterMap_cons_none hfh] at hn
      rcases List.mem_cons.1 ha with rfl | ha'
      · rw [hfh] at hfa; cases hfa
      · rcases List.mem_cons.1 hb with rfl | hb'
        · rw [hfh] at hfb; cases hfb
        · exact ih hn a b x ha' hb' hfa hfb
    | some y =>
      rw [List.filterMap_cons_some hfh, List.nodup_cons] at hn
      obtain ⟨hy, hn'⟩ := hn
      rcases List.mem_cons.1 ha with rfl | ha'
      · rcases List.mem_cons.1 hb with rfl | hb'
        · rfl
        · exfalso
          rw [hfh] at hfa; cases hfa
          exact hy (List.mem_filterMap.2 ⟨b, hb', hfb⟩)
      · rcases List.mem_cons.1 hb with rfl | hb'
        · exfalso
          rw [hfh] at hfb; cases hfb
          exact hy (List.mem_filterMap.2 ⟨a, ha', hfa⟩)
        · exact ih hn' a b x ha' hb' hfa hfb

theorem filterMap_sublist_of_imp {α β : Type} (f g : α → Option β)
    (h : ∀ a x, g a = some x → f a = some x) :
    ∀ l : List α, (l.filterMap g).Sublist (l.filterMap f) := by
  intro l
  induction l with
  | nil => exact List.Sublist.refl _
  | cons hd tl ih =>
    cases hg : g hd with
    | none =>
      rw [List.filterMap_cons_none hg]
      cases hf : f hd with
      | none => rw [List.filterMap_cons_none hf]; exact ih
      | some y => rw [List.filterMap_cons_some hf]; exact List.Sublist.cons _ ih
    | some x =>
      rw [List.filterMap_cons_some hg, List.filterMap_cons_some (h hd x hg)]
      exact List.Sublist.cons_cons _ ih

/-- the kept courses have distinct database ids when the export's course keys are distinct -/
theorem co_dbids_nodup (cdata : List (String × J)) (trackId : Nat) (o : Opts) (co : CoursesOut)
    (h : readCourses cdata trackId o = .ok co) (hn : (courseIds cdata).Nodup) :
    (co.courses.map (·.dbid)).Nodup := by
  have hperm := (readCourses_perm cdata trackId o co h).map (·.dbid)
  rw [hperm.nodup_iff, List.map_map, List.map_filterMap]
  refine List.Nodup.sublist (filterMap_sublist_of_imp (fun kv : String × J => parseNat kv.1) _ ?_ cdata) hn
  intro kv x hx
  simp only [Option.map_eq_some_iff] at hx
  obtain ⟨e, he, rfl⟩ := hx
  exact courseEntry_dbid trackId o kv e he

theorem nodup_map_getElem?_inj {α β : Type} (f : α → β) (l : List α) (hn : (l.map f).Nodup)
    (i j : Nat) (a b : α) (hi : l[i]? = some a) (hj : l[j]? = some b) (hab : f a = f b) : i = j := by
  rw [List.nodup_iff_pairwise_ne, List.pairwise_iff_getElem] at hn
  obtain ⟨hi', rfl⟩ := List.getElem?_eq_some_iff.1 hi
  obtain ⟨hj', rfl⟩ := List.getElem?_eq_some_iff.1 hj
  rcases Nat.lt_trichotomy i j with hlt | heq | hgt
  · exact absurd (by rw [List.getElem_map, List.getElem_map]; exact hab) (hn i j (by simpa using hi') (by simpa using hj') hlt)
  · exact heq
  · exact absurd (by rw [List.getElem_map, List.getElem_map]; exact hab.symm) (hn j i (by simpa using hj') (by simpa using hi') hgt)

/-- with distinct course keys, `courseIndex` resolves an id to course index `c` exactly when it is
    the database id of the `c`-th kept course -/
theorem courseIndex_iff_of_nodup (cdata : List (String × J)) (trackId : Nat) (o : Opts) (co : CoursesOut)
    (h : readCourses cdata trackId o = .ok co) (hn : (courseIds cdata).Nodup)
    (c : Nat) (c0 : Course) (hc : co.courses[c]? = some c0) (id : Nat) :
    courseIndex co id = some (some c) ↔ id = c0.dbid := by
  constructor
  · intro hci
    obtain ⟨_, c0', hc0', hd⟩ := courseIndex_some_some co id c hci
    rw [hc] at hc0'; cases hc0'; exact hd.symm
  · rintro rfl
    have hnd := co_dbids_nodup cdata trackId o co h hn
    obtain ⟨_, _, e2, _⟩ := readCourses_spec cdata trackId o co h
    have hns : c0.dbid ∉ co.skipped := by
      intro hs
      rw [e2, List.mem_filterMap] at hs
      obtain ⟨kv1, hkv1, hs1⟩ := hs
      have hmem := List.mem_of_getElem? hc
      rw [(readCourses_perm cdata trackId o co h).mem_iff] at hmem
      simp only [List.mem_map, List.mem_filterMap] at hmem
      obtain ⟨e, ⟨kv2, hkv2, he⟩, rfl⟩ := hmem
      have := filterMap_inj_of_nodup (fun kv : String × J => parseNat kv.1) cdata hn kv1 kv2 e.2.dbid
        hkv1 hkv2 (courseSkipped_id trackId o kv1 _ hs1) (courseEntry_dbid trackId o kv2 e he)
      subst this
      rw [courseEntry_not_skipped trackId o kv1 e he] at hs1
      cases hs1
    obtain ⟨hc', hget⟩ := List.getElem?_eq_some_iff.1 hc
    rw [courseIndex_eq_some_some_iff]
    refine ⟨hns, hc', by rw [hget], ?_⟩
    intro j hjl hj hp
    have := nodup_map_getElem?_inj (·.dbid) co.courses hnd j c co.courses[j] c0
      (List.getElem?_eq_getElem hjl) hc hp
    omega

/-! ## 7. the clauses -/

/-! ### export-level predicates used in the final statements -/

/-- `rkv` is the entry of the export's `registrations` object with key `rid`; it has status
    participant in the selected part; and, with `--ignore-assigned`, it is not pre-assigned to a
    kept course: its `course_id` in the selected track, if any, names a course of the export that
    is not offered in the track or is cancelled-and-ignored -/
def RegNamed (o : Opts) (partId trackId : Nat) (cdata : List (String × J)) (rkv : String × J)
    (rid : Nat) : Prop :=
  parseNat rkv.1 = some rid ∧
  regStatus rkv.2 partId = some (Int.ofNat Const.STATUS_PARTICIPANT) ∧
  (o.ignoreAssigned = true → ∀ id, regCourseId rkv.2 trackId = some id →
    ∃ ckv ∈ cdata, parseNat ckv.1 = some id ∧ NotKept o trackId ckv.2)

/-- `ckv` is the entry of the export's `courses` object with key `cid`; it is offered in the
    selected track (its `segments` object has a boolean member for the track) and, with
    `--ignore-cancelled`, that member is `true` (not cancelled) -/
def CourseNamed (o : Opts) (trackId : Nat) (ckv : String × J) (cid : Nat) : Prop :=
  parseNat ckv.1 = some cid ∧
  ∃ b, courseSegment ckv.2 trackId = some b ∧ (o.ignoreCancelled = true → b = true)

/-- the registration's `choices` array for the selected track contains `cid`, or its
    `course_instructor` is `cid` -/
def ChoseOrInstructs (trackId : Nat) (reg : J) (cid : Nat) : Prop :=
  (∃ ids : List Nat, choicesArr reg trackId = some (ids.map (fun id => J.num (.pos id))) ∧ cid ∈ ids) ∨
  regInstructorId reg trackId = some cid

section Clauses
variable {data : J} {o : Opts} {parts : List Part} {courses : List Course} {amb : Ambience}
  {partId trackId : Nat} {cdata rdata : List (String × J)} {co : CoursesOut}

theorem Link.courseNamed (L : Link data o parts courses amb partId trackId cdata rdata co)
    (c : Nat) (cc : Course) (hcc : courses[c]? = some cc) :
    ∃ ckv e, ckv ∈ cdata ∧ courseEntry trackId o ckv = some e ∧ co.courses[c]? = some e.2 ∧
      cc.dbid = e.2.dbid ∧ CourseNamed o trackId ckv cc.dbid ∧
      cc.numMin = courseMinSize ckv.2 - invCount o partId trackId co rdata c false ∧
      cc.numMax = courseMaxSize ckv.2 - invCount o partId trackId co rdata c false ∧
      cc.fixed = decide (invCount o partId trackId co rdata c true +
                         invCount o partId trackId co rdata c false ≠ 0) := by
  obtain ⟨ckv, e, k1, k2, k3, k4, k5, k6, k7⟩ := L.course c cc hcc
  obtain ⟨b, e1, e2, e3, e4, e5, _⟩ := courseEntry_export trackId o ckv e k2
  exact ⟨ckv, e, k1, k2, k3, k4, ⟨by rw [k4]; exact e1, b, e2, e3⟩, by rw [k5, e4], by rw [k6, e5], k7⟩

/-- an id that `courseIndex` resolves to index `c` is the database id of course `c` -/
theorem Link.courseIndex_dbid (L : Link data o parts courses amb partId trackId cdata rdata co)
    (c : Nat) (cc : Course) (hcc : courses[c]? = some cc) (id : Nat)
    (h : courseIndex co id = some (some c)) : id = cc.dbid := by
  obtain ⟨ckv, e, _, _, k3, k4, _⟩ := L.course c cc hcc
  obtain ⟨_, c0, h0, hd⟩ := courseIndex_some_some co id c h
  rw [k3] at h0; cases h0
  rw [k4, hd]

/-- **(a), (b), (c)** for one entry of the registrations object of the import file -/
theorem Link.regs_entry (L : Link data o parts courses amb partId trackId cdata rdata co)
    (al : List (Option Nat))
    (hok : HardOK (toInst parts courses) (ofList al)) (rid cid : Nat)
    (h : (rid, cid) ∈ writeRegs parts courses al) :
    ∃ rkv ∈ rdata, ∃ ckv ∈ cdata,
      RegNamed o partId trackId cdata rkv rid ∧ CourseNamed o trackId ckv cid ∧
      (cid, true) ∈ writeCourses courses al ∧ ChoseOrInstructs trackId rkv.2 cid := by
  obtain ⟨p, pp, c, hpp, hal, rfl, rfl⟩ := (mem_writeRegs parts courses al rid cid).1 h
  have hpP : p < (toInst parts courses).P := by
    rw [toInst_P]; exact (List.getElem?_eq_some_iff.1 hpp).1
  have hap : ofList al p = some c := ofList_eq_some.2 hal
  have hcC : c < courses.length := by simpa using hok.range p hpP c hap
  have hcc : courses[c]? = some courses[c] := List.getElem?_eq_getElem hcC
  have hgd : courses.getD c default = courses[c] := by
    rw [List.getD_eq_getElem?_getD, hcc]; rfl
  rw [hgd]
  generalize courses[c] = cc at hcc
  obtain ⟨rkv, name, pc, r1, r2, r3, r4, r5, r6, r7⟩ := L.part p pp hpp
  obtain ⟨ckv, e, k1, k2, k3, k4, k5, _⟩ := L.courseNamed c cc hcc
  obtain ⟨fa, fi⟩ := pcd_fields rkv.2 trackId co pc r4
  refine ⟨rkv, r1, ckv, k1, ⟨r2, (participantBase_status _ _ _ _ r3).1 rfl, ?_⟩, k5, ?_, ?_⟩
  · -- not pre-assigned to a kept course
    intro hia id hid
    have hnone : pc.assigned = none := by
      cases ha : pc.assigned with
      | none => rfl
      | some x => exact absurd ⟨hia, by rw [ha]; rfl⟩ r5
    rcases fa with ⟨f1, _⟩ | ⟨id', f1, f2⟩
    · rw [f1] at hid; cases hid
    · rw [f1] at hid
      have hid' : id' = id := Option.some.inj hid
      subst hid'
      rw [hnone] at f2
      have hs := courseIndex_some_none co id' f2
      obtain ⟨_, _, e2, _⟩ := readCourses_spec cdata trackId o co L.hco
      rw [e2, List.mem_filterMap] at hs
      obtain ⟨ckv', hm', hs'⟩ := hs
      obtain ⟨g1, g2⟩ := courseSkipped_export trackId o ckv' id' hs'
      exact ⟨ckv', hm', g1, g2⟩
  · -- written as taking place
    refine (mem_writeCourses courses al cc.dbid true).2 ⟨c, cc, hcc, rfl, ?_⟩
    have : 0 < al.countP (· == some c) := by
      rw [List.countP_pos_iff]; exact ⟨some c, List.mem_of_getElem? hal, by simp⟩
    simp [this]
  · -- chosen or instructed, on the export
    rcases hok.instructs_or_chose hpP hap with hin | hch
    · right
      have hpi := (toInst_instructs parts courses p c cc hcc).1 hin
      have hpi' := (r7 c cc hcc).1 hpi
      rcases fi with ⟨_, f2⟩ | ⟨id, f1, f2⟩
      · rw [f2] at hpi'; cases hpi'
      · rw [hpi'] at f2
        rw [f1, L.courseIndex_dbid c cc hcc id f2]
    · left
      obtain ⟨pen, hpen⟩ := (toInst_chose parts courses p c pp hpp).1 hch
      rw [r6] at hpen
      obtain ⟨ids, harr, hmem, _⟩ := pcd_choices_mem rkv.2 trackId co pc r4
      obtain ⟨id, hid, hci⟩ := (hmem c pen).1 hpen
      refine ⟨ids, harr, ?_⟩
      rw [← L.courseIndex_dbid c cc hcc id hci]
      exact List.mem_of_getElem? hid

end Clauses

section Clauses2
variable {data : J} {o : Opts} {parts : List Part} {courses : List Course} {amb : Ambience}
  {partId trackId : Nat} {cdata rdata : List (String × J)} {co : CoursesOut}

/-- `takesPlace` of the problem, read off the assignment list -/
theorem takesPlace_toInst (parts : List Part) (courses : List Course) (al : List (Option Nat))
    (hlen : al.length = parts.length) (c : Nat) (cc : Course) (hcc : courses[c]? = some cc) :
    takesPlace (toInst parts courses) (ofList al) c ↔
      (decide (0 < al.countP (· == some c)) || cc.fixed) = true := by
  unfold takesPlace
  rw [toInst_course parts courses c cc hcc, toInst_P, exists_assigned_iff al parts.length c hlen]
  simp only [Bool.or_eq_true, decide_eq_true_eq]
  exact Or.comm

theorem attendees_zero_of_not_takesPlace (I : N2.Inst) (a : Nat → Option Nat) (c : Nat)
    (h : ¬ takesPlace I a c) : attendees I a c = 0 := by
  unfold attendees
  rw [List.countP_eq_zero]
  intro p hp
  rw [List.mem_range] at hp
  have : a p ≠ some c := fun heq => h (Or.inr ⟨p, hp, heq⟩)
  simp [this]

/-- **(d), (f)** for the `c`-th entry of the courses object of the import file -/
theorem Link.courses_entry (L : Link data o parts courses amb partId trackId cdata rdata co)
    (al : List (Option Nat)) (hlen : al.length = parts.length)
    (hok : HardOK (toInst parts courses) (ofList al)) (c cid : Nat) (b : Bool)
    (h : (writeCourses courses al)[c]? = some (cid, b)) :
    ∃ ckv ∈ cdata, CourseNamed o trackId ckv cid ∧
      (b = true ↔ takesPlace (toInst parts courses) (ofList al) c) ∧
      (b = true → courseMinSize ckv.2 ≤
        attendees (toInst parts courses) (ofList al) c + invCount o partId trackId co rdata c false) ∧
      (attendees (toInst parts courses) (ofList al) c = 0 ∨
        attendees (toInst parts courses) (ofList al) c + invCount o partId trackId co rdata c false
          ≤ courseMaxSize ckv.2) ∧
      (invCount o partId trackId co rdata c true + invCount o partId trackId co rdata c false ≠ 0 →
        b = true) := by
  rw [writeCourses_getElem?] at h
  cases hcc : courses[c]? with
  | none => rw [hcc] at h; cases h
  | some cc =>
    rw [hcc] at h
    simp only [Option.map_some, Option.some.injEq, Prod.mk.injEq] at h
    obtain ⟨rfl, hb⟩ := h
    obtain ⟨ckv, e, k1, _, _, _, k5, k6, k7, k8⟩ := L.courseNamed c cc hcc
    have htp := takesPlace_toInst parts courses al hlen c cc hcc
    rw [hb] at htp
    have hcC : c < (toInst parts courses).C := by
      rw [toInst_C]; exact (List.getElem?_eq_some_iff.1 hcc).1
    have hco := toInst_course parts courses c cc hcc
    refine ⟨ckv, k1, k5, htp.symm, ?_, ?_, ?_⟩
    · intro hbt
      have := hok.min c hcC (htp.2 hbt)
      rw [hco] at this
      simp only [k6] at this
      omega
    · by_cases ht : takesPlace (toInst parts courses) (ofList al) c
      · have := hok.max c hcC ht
        rw [hco] at this
        simp only [k7] at this
        omega
      · exact Or.inl (attendees_zero_of_not_takesPlace _ _ c ht)
    · intro hne
      have hfx : cc.fixed = true := by rw [k8]; exact decide_eq_true hne
      rw [← hb, hfx, Bool.or_true]

/-- every entry of the courses object of the import file names a course of the export that is
    offered in the selected track and, with `--ignore-cancelled`, not cancelled -/
theorem Link.courses_named (L : Link data o parts courses amb partId trackId cdata rdata co)
    (al : List (Option Nat)) (cid : Nat) (b : Bool) (h : (cid, b) ∈ writeCourses courses al) :
    ∃ ckv ∈ cdata, CourseNamed o trackId ckv cid := by
  obtain ⟨c, cc, hcc, rfl, _⟩ := (mem_writeCourses courses al cid b).1 h
  obtain ⟨ckv, e, k1, _, _, _, k5, _⟩ := L.courseNamed c cc hcc
  exact ⟨ckv, k1, k5⟩

/-- distinct course keys in the export give distinct database ids in the problem -/
theorem Link.dbid_inj (L : Link data o parts courses amb partId trackId cdata rdata co)
    (hn : (courseIds cdata).Nodup) (c c' : Nat) (cc cc' : Course)
    (h1 : courses[c]? = some cc) (h2 : courses[c']? = some cc') (hd : cc.dbid = cc'.dbid) : c = c' := by
  obtain ⟨_, e, _, _, k3, k4, _⟩ := L.course c cc h1
  obtain ⟨_, e', _, _, k3', k4', _⟩ := L.course c' cc' h2
  exact nodup_map_getElem?_inj (·.dbid) co.courses (co_dbids_nodup cdata trackId o co L.hco hn)
    c c' e.2 e'.2 k3 k3' (by rw [← k4, ← k4', hd])

/-- **(e)** nobody is newly assigned to a course written as cancelled -/
theorem Link.no_cancelled_assignment (L : Link data o parts courses amb partId trackId cdata rdata co)
    (hn : (courseIds cdata).Nodup) (al : List (Option Nat))
    (hok : HardOK (toInst parts courses) (ofList al)) (cid : Nat)
    (h : (cid, false) ∈ writeCourses courses al) (rid : Nat) :
    (rid, cid) ∉ writeRegs parts courses al := by
  intro hr
  obtain ⟨c, cc, hcc, rfl, hb⟩ := (mem_writeCourses courses al cid false).1 h
  obtain ⟨p, pp, c', hpp, hal, _, hcid⟩ := (mem_writeRegs parts courses al rid cc.dbid).1 hr
  have hpP : p < (toInst parts courses).P := by
    rw [toInst_P]; exact (List.getElem?_eq_some_iff.1 hpp).1
  have hcC : c' < courses.length := by simpa using hok.range p hpP c' (ofList_eq_some.2 hal)
  have hcc' : courses[c']? = some courses[c'] := List.getElem?_eq_getElem hcC
  have hgd : courses.getD c' default = courses[c'] := by
    rw [List.getD_eq_getElem?_getD, hcc']; rfl
  rw [hgd] at hcid
  have := L.dbid_inj hn c c' cc _ hcc hcc' hcid
  subst this
  have hpos : 0 < al.countP (· == some c) := by
    rw [List.countP_pos_iff]; exact ⟨some c, List.mem_of_getElem? hal, by simp⟩
  simp [hpos] at hb

/-- **(f), second half.** With distinct course keys and `--ignore-cancelled`, a course of the
    export that is cancelled in the selected track appears neither in the courses object nor in
    the registrations object of the import file -/
theorem Link.cancelled_untouched (L : Link data o parts courses amb partId trackId cdata rdata co)
    (hn : (courseIds cdata).Nodup) (hic : o.ignoreCancelled = true) (al : List (Option Nat))
    (hok : HardOK (toInst parts courses) (ofList al))
    (ckv : String × J) (hckv : ckv ∈ cdata) (cid : Nat) (hk : parseNat ckv.1 = some cid)
    (hseg : courseSegment ckv.2 trackId = some false) :
    (∀ b, (cid, b) ∉ writeCourses courses al) ∧ (∀ rid, (rid, cid) ∉ writeRegs parts courses al) := by
  have h1 : ∀ b, (cid, b) ∉ writeCourses courses al := by
    intro b hb
    obtain ⟨ckv', hm', hk', b', hs', hb'⟩ := L.courses_named al cid b hb
    have := filterMap_inj_of_nodup (fun kv : String × J => parseNat kv.1) cdata hn ckv ckv' cid
      hckv hm' hk hk'
    subst this
    rw [hseg] at hs'
    cases hs'
    exact absurd (hb' hic) (by decide)
  refine ⟨h1, ?_⟩
  intro rid hr
  obtain ⟨_, _, _, _, _, _, hw, _⟩ := L.regs_entry al hok rid cid hr
  exact h1 true hw

end Clauses2

section Clauses3
variable {data : J} {o : Opts} {parts : List Part} {courses : List Course} {amb : Ambience}
  {partId trackId : Nat} {cdata rdata : List (String × J)} {co : CoursesOut}

/-- on the export: a registration with status participant in the selected part whose `course_id`
    in the selected track is `cid` and whose `course_instructor` is (`asInstr = true`) / is not
    (`asInstr = false`) `cid` — a pre-assigned instructor / attendee of course `cid` -/
def preAssigned (partId trackId cid : Nat) (asInstr : Bool) (kv : String × J) : Bool :=
  (regStatus kv.2 partId == some (Int.ofNat Const.STATUS_PARTICIPANT)) &&
  (regCourseId kv.2 trackId == some cid) &&
  ((regInstructorId kv.2 trackId == some cid) == asInstr)

theorem resolved_iff (cdata : List (String × J)) (trackId : Nat) (o : Opts) (co : CoursesOut)
    (h : readCourses cdata trackId o = .ok co) (hn : (courseIds cdata).Nodup)
    (c : Nat) (c0 : Course) (hc : co.courses[c]? = some c0) (fld r : Option Nat)
    (hf : (fld = none ∧ r = none) ∨ ∃ id, fld = some id ∧ courseIndex co id = some r) :
    r = some c ↔ fld = some c0.dbid := by
  rcases hf with ⟨f1, f2⟩ | ⟨id, f1, f2⟩
  · rw [f1, f2]; simp
  · rw [f1]
    constructor
    · intro hr
      rw [hr] at f2
      rw [(courseIndex_iff_of_nodup cdata trackId o co h hn c c0 hc id).1 f2]
    · intro hid
      have hid' : id = c0.dbid := Option.some.inj hid
      have := (courseIndex_iff_of_nodup cdata trackId o co h hn c c0 hc id).2 hid'
      rw [f2] at this
      exact Option.some.inj this

/-- with distinct course keys, the invisible counts are counts over the export's registrations:
    zero without `--ignore-assigned`, else the number of pre-assigned instructors / attendees of
    the course -/
theorem Link.invCount_eq (L : Link data o parts courses amb partId trackId cdata rdata co)
    (hn : (courseIds cdata).Nodup) (c : Nat) (cc : Course) (hcc : courses[c]? = some cc) (b : Bool) :
    invCount o partId trackId co rdata c b =
      if o.ignoreAssigned = true then rdata.countP (preAssigned partId trackId cc.dbid b) else 0 := by
  unfold invCount
  cases hia : o.ignoreAssigned with
  | false =>
    simp only [Bool.false_eq_true, if_false]
    rw [List.countP_eq_zero]
    intro kv _
    simp [invisibleIn, isIgnored, RD.ignored]
  | true =>
    simp only [if_true]
    apply List.countP_congr
    intro kv hkv
    obtain ⟨_, e, _, _, k3, k4, _⟩ := L.course c cc hcc
    obtain ⟨rid, isP, name, _, hb, hpc⟩ := L.parsed kv hkv
    cases isP with
    | false =>
      rw [toReg_notP partId trackId co kv name hb]
      have hst : regStatus kv.2 partId ≠ some (Int.ofNat Const.STATUS_PARTICIPANT) := by
        intro hs
        have := (participantBase_status _ _ _ _ hb).2 hs
        cases this
      simp [invisibleIn, isIgnored, regDflt, preAssigned]
      intro hs
      exact absurd hs hst
    | true =>
      obtain ⟨pc, hpc⟩ := hpc rfl
      rw [toReg_ok partId trackId co kv name pc hb hpc]
      have hst := (participantBase_status _ _ _ _ hb).1 rfl
      obtain ⟨fa, fi⟩ := pcd_fields kv.2 trackId co pc hpc
      have hA := resolved_iff cdata trackId o co L.hco hn c e.2 k3 _ _ fa
      have hI := resolved_iff cdata trackId o co L.hco hn c e.2 k3 _ _ fi
      rw [← k4] at hA hI
      simp only [invisibleIn, isIgnored, RD.ignored, preAssigned, hst, Bool.true_and, beq_self_eq_true,
        Bool.and_eq_true, decide_eq_true_eq, beq_iff_eq]
      constructor
      · rintro ⟨⟨_, h1⟩, h2⟩
        refine ⟨hA.1 h1, ?_⟩
        rw [← h2]
        exact (Bool.eq_iff_iff.2 (by simp [hI])).symm
      · rintro ⟨h1, h2⟩
        have h1' := hA.2 h1
        refine ⟨⟨by rw [h1']; rfl, h1'⟩, ?_⟩
        rw [← h2]
        exact Bool.eq_iff_iff.2 (by simp [hI])

end Clauses3

/-! ## 8. the selection made on the export; pure-export form of the invisible counts -/

section Final
variable {data : J} {o : Opts} {parts : List Part} {courses : List Course} {amb : Ambience}
  {partId trackId : Nat} {cdata rdata : List (String × J)} {co : CoursesOut}

/-- what `read` selected on the export: the part and track `findTrack` chose among `event.parts`,
    the `courses` and `registrations` objects, and the track id handed to the writer (the import
    file names registration tracks only under `amb.trackId`) -/
structure Selected (data : J) (o : Opts) (amb : Ambience) (partId trackId : Nat)
    (cdata rdata : List (String × J)) : Prop where
  track : ∃ evparts td, eventParts data = some evparts ∧
    findTrack evparts o.track = .ok (partId, trackId, td)
  courses : coursesOf data = some cdata
  regs : regsOf data = some rdata
  written : amb.trackId = trackId

theorem Link.selected (L : Link data o parts courses amb partId trackId cdata rdata co) :
    Selected data o amb partId trackId cdata rdata :=
  ⟨L.track, L.hcdata, L.hrdata, L.hamb⟩

/-- the number of registrations of the export that the reader ignored as pre-assigned
    instructors (`asInstr = true`) / attendees (`asInstr = false`) of the course with key `cid`:
    zero without `--ignore-assigned` -/
def ignoredCount (o : Opts) (partId trackId : Nat) (rdata : List (String × J)) (cid : Nat)
    (asInstr : Bool) : Nat :=
  if o.ignoreAssigned = true then rdata.countP (preAssigned partId trackId cid asInstr) else 0

theorem Link.invCount_eq_ignoredCount (L : Link data o parts courses amb partId trackId cdata rdata co)
    (hn : (courseIds cdata).Nodup) (c : Nat) (cc : Course) (hcc : courses[c]? = some cc) (b : Bool) :
    invCount o partId trackId co rdata c b = ignoredCount o partId trackId rdata cc.dbid b :=
  L.invCount_eq hn c cc hcc b

/-- a course with ignored pre-assigned people is fixed in the problem -/
theorem Link.fixed_of_invisible (L : Link data o parts courses amb partId trackId cdata rdata co)
    (c : Nat) (cc : Course) (hcc : courses[c]? = some cc)
    (h : invCount o partId trackId co rdata c true + invCount o partId trackId co rdata c false ≠ 0) :
    ((toInst parts courses).course c).fixed = true := by
  obtain ⟨_, _, _, _, _, _, _, _, _, k8⟩ := L.courseNamed c cc hcc
  rw [toInst_course parts courses c cc hcc]
  show cc.fixed = true
  rw [k8]; exact decide_eq_true h

/-- **(a), ignored registrations are never named.** With distinct course keys and
    `--ignore-assigned`, a registration named by the import file has no `course_id` (in the
    selected track) that is the id of any course of the import file -/
theorem Link.named_not_preassigned (L : Link data o parts courses amb partId trackId cdata rdata co)
    (hn : (courseIds cdata).Nodup) (al : List (Option Nat)) (rkv : String × J) (rid : Nat)
    (hreg : RegNamed o partId trackId cdata rkv rid) (hia : o.ignoreAssigned = true)
    (cid : Nat) (b : Bool) (hw : (cid, b) ∈ writeCourses courses al) :
    regCourseId rkv.2 trackId ≠ some cid := by
  intro heq
  obtain ⟨ckv2, hm2, hk2, hnk⟩ := hreg.2.2 hia cid heq
  obtain ⟨ckv1, hm1, hk1, b1, hs1, hb1⟩ := L.courses_named al cid b hw
  have := filterMap_inj_of_nodup (fun kv : String × J => parseNat kv.1) cdata hn ckv1 ckv2 cid
    hm1 hm2 hk1 hk2
  subst this
  rcases hnk with h1 | ⟨h1, h2⟩
  · unfold courseSegment at hs1
    rw [h1] at hs1
    cases hs1
  · rw [h1] at hs1
    cases hs1
    exact absurd (hb1 h2) (by decide)

end Final

/-! ## 9. a concrete export on which all hypotheses of the final theorems hold -/

namespace Ex
def event : J :=
  .obj [("parts", .obj [("1", .obj [("tracks", .obj [("3", .obj [("shortname", .str "T")])])])])]

/-- track 3, `--ignore-cancelled`, `--ignore-assigned` -/
def opts : Opts :=
  { track := some 3, ignoreCancelled := true, ignoreAssigned := true, factorField := none, offsetField := none }

/-- course 7 takes place in track 3 (sizes 2..3), course 8 is cancelled in track 3, course 9 is only
    offered in track 4 -/
def cdata : List (String × J) :=
  [("7", .obj [("fields", .obj []), ("max_size", .num (.pos 3)), ("min_size", .num (.pos 2)), ("nr", .str "1"),
      ("segments", .obj [("3", .bool true), ("4", .bool true)]), ("shortname", .str "x")]),
   ("8", .obj [("fields", .obj []), ("nr", .str "2"),
      ("segments", .obj [("3", .bool false)]), ("shortname", .str "y")]),
   ("9", .obj [("fields", .obj []), ("nr", .str "3"),
      ("segments", .obj [("4", .bool true)]), ("shortname", .str "z")])]

def reg (status : Nat) (choices : List Nat) (courseId instr : J) : J :=
  .obj [("parts", .obj [("1", .obj [("status", .num (.pos status))])]),
        ("persona", .obj [("family_name", .str "F"), ("given_names", .str "G")]),
        ("tracks", .obj [("3", .obj [("choices", .arr (choices.map (fun c => .num (.pos c)))),
                                     ("course_id", courseId), ("course_instructor", instr)])])]

/-- 100: participant choosing 8 (cancelled) then 7; 101: participant pre-assigned to 7 (ignored);
    102: not a participant (status 1); 103: participant instructing 7, no choices -/
def rdata : List (String × J) :=
  [("100", reg 2 [8, 7] .null .null),
   ("101", reg 2 [7] (.num (.pos 7)) .null),
   ("102", reg 1 [7] .null .null),
   ("103", reg 2 [] .null (.num (.pos 7)))]

def doc : J := .obj [
  ("EVENT_SCHEMA_VERSION", .arr [.num (.pos 17), .num (.pos 0)]),
  ("courses", .obj cdata),
  ("event", event),
  ("id", .num (.pos 1)),
  ("kind", .str "partial"),
  ("registrations", .obj rdata),
  ("timestamp", .str "2024-01-01T00:00:00+00:00")]

def course7 (instructors : List Nat) (hidden : List String) (mn mx invAtt : Nat) (fixed : Bool) : Course :=
  { dbid := 7, name := "1. x", numMin := mn, numMax := mx, instructors := instructors,
    factor := .dflt, offset := .dflt, fixed := fixed, hidden := hidden, invInstr := 0, invAtt := invAtt }

def parts : List Part := [⟨100, "G F", [(0, 1)]⟩, ⟨103, "G F", []⟩]
def courses : List Course := [course7 [1] ["G F"] 1 2 1 true]
def amb : Ambience :=
  { eventId := 1, trackId := 3, external := some (0, [0]), trackName := some "T",
    ignoredCourses := some 1, ignoredRegs := some 1 }

theorem readCourses_eq :
    readCourses cdata 3 opts = .ok ⟨[course7 [] [] 2 3 0 false], [8, 9], 1⟩ := by
  have hg : readCourses.go 3 opts [] [] 0 cdata =
      .ok ([(sortKey "1", course7 [] [] 2 3 0 false)], [8, 9], 1) := by rfl
  unfold readCourses
  rw [hg]
  simp only [List.mergeSort_singleton, List.map_cons, List.map_nil]

theorem readRegs_eq :
    (readRegs rdata 1 3 [("shortname", .str "T")] ⟨[course7 [] [] 2 3 0 false], [8, 9], 1⟩ opts).toOption.map
      (fun s => (s.parts, s.courses, s.extInstr, s.extPen, s.numIgnored)) =
      some (parts, [course7 [1] ["G F"] 2 3 1 false], 0, [0], 1) := by rfl



/-- the hypothesis `read … = .ok …` holds on the example -/
theorem read_eq : read doc opts = .ok (parts, courses, amb) := by
  rw [read_eq_readV]
  have h1 : checkVersion doc = .ok () := by rfl
  have h2 : doc.get "timestamp" = some (.str "2024-01-01T00:00:00+00:00") := rfl
  have h3 : timestampOk "2024-01-01T00:00:00+00:00" = true := by rfl
  have h4 : doc.get "event" = some event := rfl
  have h5 : (J.lookup "parts" [("parts", J.obj [("1", .obj [("tracks", .obj [("3", .obj [("shortname", .str "T")])])])])]).bind J.asObject =
      some [("1", .obj [("tracks", .obj [("3", .obj [("shortname", .str "T")])])])] := rfl
  have h6 : findTrack [("1", J.obj [("tracks", .obj [("3", .obj [("shortname", .str "T")])])])] opts.track =
      .ok (1, 3, [("shortname", .str "T")]) := rfl
  have h7 : coursesOf doc = some cdata := rfl
  have h8 : regsOf doc = some rdata := rfl
  have h9 : doc.get "id" = some (.num (.pos 1)) := rfl
  cases hr : readRegs rdata 1 3 [("shortname", .str "T")] ⟨[course7 [] [] 2 3 0 false], [8, 9], 1⟩ opts with
  | error e => have := readRegs_eq; rw [hr] at this; cases this
  | ok s =>
    have hs := readRegs_eq
    rw [hr] at hs
    simp only [Except.toOption, Option.map_some, Option.some.injEq, Prod.mk.injEq] at hs
    obtain ⟨s1, s2, s3, s4, s5⟩ := hs
    unfold readV
    simp only [h1, h2, h4, h7, h8, h9, event, Option.bind_some, J.asStr, J.asObject, h3, h5, h6,
      Bool.not_true, Bool.false_eq_true, if_false, readCourses_eq, hr, s1, s2, s3, s4, s5]
    rfl


/-- the hypothesis `Link …` of the clause lemmas holds on the example -/
example : ∃ partId trackId cdata rdata co,
    Link doc opts parts courses amb partId trackId cdata rdata co :=
  read_link doc opts parts courses amb read_eq

/-- the assignment: both participants go to course 7 (index 0) -/
def al : List (Option Nat) := [some 0, some 0]

/-- the hypothesis `HardOK …` holds on the example -/
theorem hardOK : HardOK (toInst parts courses) (fun p => al.getD p none) := by
  have hP : (toInst parts courses).P = 2 := rfl
  have hC : (toInst parts courses).C = 1 := rfl
  have ha : ∀ p, p < 2 → al.getD p none = some 0 := by
    intro p hp
    match p, hp with
    | 0, _ => rfl
    | 1, _ => rfl
  refine ⟨?_, ?_, ?_, ?_, ?_, ?_⟩
  · intro p hp c hc
    rw [hP] at hp
    simp only [ha p hp, Option.some.injEq] at hc
    subst hc
    decide
  · intro c hc _ i hi _
    rw [hC] at hc
    rw [hP] at hi
    have : c = 0 := by omega
    subst this
    exact ha i hi
  · intro c hc _
    rw [hC] at hc
    have : c = 0 := by omega
    subst this
    decide
  · intro c hc _
    rw [hC] at hc
    have : c = 0 := by omega
    subst this
    decide
  · intro p hp hch _
    rw [hP] at hp
    match p, hp with
    | 0, _ => exact ⟨⟨0, 1⟩, List.mem_singleton.2 rfl, rfl⟩
    | 1, _ => exact absurd hch (by decide)
  · intro p hp hch c hc
    rw [hP] at hp
    match p, hp with
    | 0, _ => exact absurd hch (by decide)
    | 1, _ =>
      simp only [ha 1 (by omega), Option.some.injEq] at hc
      subst hc
      decide

/-- the hypothesis `NodupKeys …` holds on the example -/
theorem nodupKeys : NodupKeys doc := by
  intro cd h
  have h7 : coursesOf doc = some cdata := rfl
  rw [h7] at h
  cases h
  decide


end Ex

end CD

#print axioms N2.G.HardOK.instructs_or_chose
#print axioms CD.read_link
#print axioms CD.Link.regs_entry
#print axioms CD.Link.courses_entry
#print axioms CD.Link.courses_named
#print axioms CD.Link.no_cancelled_assignment
#print axioms CD.Link.cancelled_untouched
#print axioms CD.Link.invCount_eq
#print axioms CD.Link.fixed_of_invisible
#print axioms CD.Link.named_not_preassigned
#print axioms CD.Ex.read_eq
#print axioms CD.Ex.hardOK
#print axioms CD.Ex.nodupKeys
