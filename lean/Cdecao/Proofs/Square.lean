import Mathlib.Algebra.BigOperators.Group.Finset.Basic
import Mathlib.Data.Finset.Card
import Cdecao.Proofs.Cols
/-! Spike: the matrix handed to the Hungarian routine is square — as many non-skipped rows as
    non-skipped columns (the hypothesis `#X = #Y` of `hung_partial`), in the abstract shape of the
    mask construction of `run_bab_node`. -/
open Finset
namespace Cols

theorem inv_eq_sum (numMax : Nat → Nat) (C : Nat) : inv numMax C = ∑ c ∈ range C, numMax c := by
  induction C with
  | zero => simp [inv]
  | succ C ih => rw [inv, ih, sum_range_succ]

/-- the number of non-skipped columns is the sum of the effective maxima -/
theorem live_total (numMax effMax : Nat → Nat) (C : Nat) (he : ∀ c, c < C → effMax c ≤ numMax c) :
    #((range (inv numMax C)).filter (fun cp => skipY numMax effMax C cp = false)) = ∑ c ∈ range C, effMax c := by
  rw [card_eq_sum_card_fiberwise (f := courseOf numMax C) (t := range C)]
  · apply sum_congr rfl
    intro c hc
    have hc' := mem_range.1 hc
    rw [filter_filter]
    exact live_card numMax effMax C c hc' (he c hc')
  · intro cp hcp
    simp only [coe_filter, mem_range, Set.mem_ofPred_eq] at hcp
    simp only [coe_range, Set.mem_Iio]
    exact (courseOf_spec numMax C cp hcp.1).1

/-- rows: the base-skipped rows lie below `P`, the surplus dummies are `P … P+extra-1` -/
theorem rows_total (n P extra : Nat) (base : Nat → Bool) (hbase : ∀ x, P ≤ x → base x = false) (hfit : P + extra ≤ n) :
    #((range n).filter (fun x => (base x || (decide (P ≤ x) && decide (x < P + extra))) = false))
      + #((range n).filter (fun x => base x = true)) + extra = n := by
  have hsplit : (range n).filter (fun x => (base x || (decide (P ≤ x) && decide (x < P + extra))) = true)
      = (range n).filter (fun x => base x = true) ∪ Ico P (P + extra) := by
    ext x
    simp only [mem_filter, mem_range, mem_union, mem_Ico, Bool.or_eq_true, Bool.and_eq_true, decide_eq_true_eq]
    constructor
    · rintro ⟨hx, h | h⟩
      · exact Or.inl ⟨hx, h⟩
      · exact Or.inr h
    · rintro (⟨hx, h⟩ | ⟨h1, h2⟩)
      · exact ⟨hx, Or.inl h⟩
      · exact ⟨by omega, Or.inr ⟨h1, h2⟩⟩
  have hdisj : Disjoint ((range n).filter (fun x => base x = true)) (Ico P (P + extra)) := by
    rw [disjoint_left]
    intro x hx hx'
    simp only [mem_filter, mem_range] at hx
    simp only [mem_Ico] at hx'
    have := hbase x hx'.1
    simp [this] at hx
  have hcompl := card_filter_add_card_filter_not (s := range n)
    (p := fun x => (base x || (decide (P ≤ x) && decide (x < P + extra))) = true)
  rw [hsplit, card_union_of_disjoint hdisj, Nat.card_Ico, card_range] at hcompl
  have e : (range n).filter (fun x => ¬ (base x || (decide (P ≤ x) && decide (x < P + extra))) = true)
      = (range n).filter (fun x => (base x || (decide (P ≤ x) && decide (x < P + extra))) = false) := by
    apply filter_congr; intro x _; simp
  rw [e] at hcompl
  omega

/-- square-ness: with `extra = n - m + nsy - nsx` (caobab.rs:324) the non-skipped rows are as many as
    the non-skipped columns -/
theorem square (numMax effMax : Nat → Nat) (C n P : Nat) (base : Nat → Bool)
    (he : ∀ c, c < C → effMax c ≤ numMax c) (hbase : ∀ x, P ≤ x → base x = false)
    (nsx nsy extra : Nat) (hnsx : nsx = #((range n).filter (fun x => base x = true)))
    (hnsy : nsy = ∑ c ∈ range C, (numMax c - effMax c))
    (hu : inv numMax C + nsx ≤ n + nsy) (hextra : extra = n - inv numMax C + nsy - nsx) (hfit : P + extra ≤ n)
    (hnm : inv numMax C ≤ n) :
    #((range n).filter (fun x => (base x || (decide (P ≤ x) && decide (x < P + extra))) = false))
      = #((range (inv numMax C)).filter (fun cp => skipY numMax effMax C cp = false)) := by
  rw [live_total numMax effMax C he]
  have hr := rows_total n P extra base hbase hfit
  have hm := inv_eq_sum numMax C
  have hsum : ∑ c ∈ range C, effMax c + nsy = inv numMax C := by
    rw [hnsy, hm, ← sum_add_distrib]
    apply sum_congr rfl
    intro c hc
    have := he c (mem_range.1 hc); omega
  omega

#print axioms square
end Cols
