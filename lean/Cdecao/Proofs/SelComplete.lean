import Mathlib.Data.Finset.Sort
import Cdecao.Proofs.Sel
import Cdecao.Model.Node
/-! # C20, completeness: the k-selection iterator of util.rs yields every strictly increasing list of
    `k` indices below `n` exactly once, and it coincides with the recursive colexicographic
    enumeration `N2.colexIdx` used by the node model. -/
namespace S

/-! ### `Incr`/`Valid` in terms of `List.Pairwise` -/

theorem incr_iff_pairwise : ∀ l : List Nat, Incr l ↔ l.Pairwise (· < ·) := by
  intro l
  induction l with
  | nil => simp [Incr]
  | cons a l ih =>
    cases l with
    | nil => simp [Incr]
    | cons b r =>
      simp only [Incr, ih]
      constructor
      · rintro ⟨hab, hp⟩
        refine List.pairwise_cons.mpr ⟨?_, hp⟩
        intro c hc
        rcases List.mem_cons.mp hc with rfl | hc
        · exact hab
        · exact Nat.lt_trans hab (List.rel_of_pairwise_cons hp hc)
      · intro hp
        exact ⟨List.rel_of_pairwise_cons hp List.mem_cons_self, List.Pairwise.of_cons hp⟩

/-- a selection: strictly increasing list of `k` indices below `n` -/
def Sel (n k : Nat) (l : List Nat) : Prop := l.Pairwise (· < ·) ∧ (∀ a ∈ l, a < n) ∧ l.length = k

theorem valid_iff (n : Nat) (l : List Nat) : Valid n 0 l ↔ l.Pairwise (· < ·) ∧ ∀ a ∈ l, a < n := by
  constructor
  · intro h; exact ⟨(incr_iff_pairwise l).mp h.inc, h.lt⟩
  · intro h; exact ⟨(incr_iff_pairwise l).mpr h.1, h.2, fun _ _ _ => Nat.zero_le _⟩

theorem sel_iff (n k : Nat) (l : List Nat) : Sel n k l ↔ Valid n 0 l ∧ l.length = k := by
  rw [valid_iff]; unfold Sel; exact ⟨fun ⟨a, b, c⟩ => ⟨⟨a, b⟩, c⟩, fun ⟨⟨a, b⟩, c⟩ => ⟨a, b, c⟩⟩

theorem rank_append (l : List Nat) (a : Nat) : ∀ j, rank j (l ++ [a]) = rank j l + Nat.choose a (j + l.length + 1) := by
  induction l with
  | nil => intro j; simp [rank]
  | cons b l ih =>
    intro j
    simp only [List.cons_append, rank, ih (j + 1), List.length_cons]
    rw [show j + 1 + l.length + 1 = j + (l.length + 1) + 1 by omega]
    omega

/-! ### the recursive colex enumeration `N2.colexIdx` -/

open N2 in
theorem length_colexIdx : ∀ n k, (colexIdx n k).length = Nat.choose n k := by
  intro n k
  induction n, k using colexIdx.induct with
  | case1 n => simp [colexIdx]
  | case2 k => simp [colexIdx]
  | case3 n k ih1 ih2 =>
    simp only [colexIdx, List.length_append, List.length_map, ih1, ih2, Nat.choose_succ_succ']
    omega

open N2 in
/-- `colexIdx n k` lists exactly the selections -/
theorem mem_colexIdx : ∀ n k (l : List Nat), l ∈ colexIdx n k ↔ Sel n k l := by
  intro n k
  induction n, k using colexIdx.induct with
  | case1 n =>
    intro l
    simp only [colexIdx, List.mem_singleton, Sel, List.length_eq_zero_iff]
    constructor
    · rintro rfl; simp
    · intro h; exact h.2.2
  | case2 k =>
    intro l
    simp only [colexIdx, List.not_mem_nil, false_iff, Sel]
    rintro ⟨_, h2, h3⟩
    cases l with
    | nil => simp at h3
    | cons a r => exact absurd (h2 a List.mem_cons_self) (Nat.not_lt_zero _)
  | case3 n k ih1 ih2 =>
    intro l
    simp only [colexIdx, List.mem_append, List.mem_map, ih1, ih2]
    constructor
    · rintro (h | ⟨m, hm, rfl⟩)
      · exact ⟨h.1, fun a ha => Nat.lt_succ_of_lt (h.2.1 a ha), h.2.2⟩
      · obtain ⟨h1, h2, h3⟩ := hm
        refine ⟨?_, ?_, by simp [h3]⟩
        · rw [List.pairwise_append]
          refine ⟨h1, by simp, ?_⟩
          intro a ha b hb
          rw [List.mem_singleton] at hb
          rw [hb]; exact h2 a ha
        · intro a ha
          rcases List.mem_append.mp ha with ha | ha
          · exact Nat.lt_succ_of_lt (h2 a ha)
          · rw [List.mem_singleton] at ha; omega
    · rintro ⟨h1, h2, h3⟩
      rcases List.eq_nil_or_concat l with rfl | ⟨m, b, rfl⟩
      · simp at h3
      · rw [List.concat_eq_append] at h1 h2 h3 ⊢
        rw [List.pairwise_append] at h1
        obtain ⟨hm, _, hmb⟩ := h1
        have hb : b < n + 1 := h2 b (by simp)
        have hlen : m.length = k := by simpa using h3
        by_cases e : b = n
        · subst e
          exact Or.inr ⟨m, ⟨hm, fun a ha => hmb a ha b (by simp), hlen⟩, rfl⟩
        · refine Or.inl ⟨?_, ?_, h3⟩
          · rw [List.pairwise_append]; exact ⟨hm, by simp, hmb⟩
          · intro a ha
            rcases List.mem_append.mp ha with ha | ha
            · have := hmb a ha b (by simp); omega
            · rw [List.mem_singleton] at ha; omega

open N2 in
/-- the `i`-th list of `colexIdx n k` has rank `i` -/
theorem rank_colexIdx : ∀ n k i (h : i < (colexIdx n k).length), rank 0 (colexIdx n k)[i] = i := by
  intro n k
  induction n, k using colexIdx.induct with
  | case1 n =>
    intro i h
    simp only [colexIdx, List.length_singleton] at h
    have : i = 0 := by omega
    subst this
    simp [colexIdx, rank]
  | case2 k => intro i h; simp [colexIdx] at h
  | case3 n k ih1 ih2 =>
    intro i h
    simp only [colexIdx]
    by_cases hi : i < (colexIdx n (k + 1)).length
    · rw [List.getElem_append_left hi]; exact ih1 i hi
    · have hi' : (colexIdx n (k + 1)).length ≤ i := Nat.le_of_not_lt hi
      rw [List.getElem_append_right hi', List.getElem_map, rank_append]
      have hlt : i - (colexIdx n (k + 1)).length < (colexIdx n k).length := by
        simp only [colexIdx, List.length_append, List.length_map] at h; omega
      have hlen : ((colexIdx n k)[i - (colexIdx n (k + 1)).length]).length = k :=
        ((mem_colexIdx n k _).mp (List.getElem_mem hlt)).2.2
      rw [ih2 _ hlt, hlen, length_colexIdx]
      rw [length_colexIdx] at hi'
      simp only [Nat.zero_add]
      omega

/-! ### the iterator coincides with the recursive enumeration -/

/-- **C20 (iii).** For `1 ≤ k` (and any `n`; for `k > n` both are empty) the lists yielded by the
    util.rs iterator are, in order, the lists of the recursive colex enumeration of the node model.
    (For `k = 0` the iterator yields nothing whereas `colexIdx n 0 = [[]]`.) -/
theorem selections_eq_colexIdx (n k : Nat) (hk : 1 ≤ k) : selections n k = N2.colexIdx n k := by
  by_cases hkn : k ≤ n
  · obtain ⟨hlen, hspec⟩ := selections_spec n k hk hkn
    apply List.ext_getElem
    · rw [hlen, length_colexIdx]
    · intro i h1 h2
      obtain ⟨l, hl, hv, hll, hr⟩ := hspec i (by omega)
      rw [List.getElem?_eq_getElem h1, Option.some.injEq] at hl
      rw [hl]
      have hm : l ∈ N2.colexIdx n k := (mem_colexIdx n k l).mpr ((sel_iff n k l).mpr ⟨hv, hll⟩)
      obtain ⟨i', hi', e⟩ := List.mem_iff_getElem.mp hm
      have := rank_colexIdx n k i' hi'
      rw [e, hr] at this
      subst this
      exact e.symm
  · have h0 : Nat.choose n k = 0 := Nat.choose_eq_zero_of_lt (by omega)
    rw [selections_empty n k (Or.inr (by omega))]
    symm
    apply List.eq_nil_of_length_eq_zero
    rw [length_colexIdx, h0]

/-- the element selections of the node model are the util.rs index selections applied to the list,
    for every `k` (also `k = 0` and `k > l.length`, where both sides are empty) -/
theorem node_selections_eq.{u} {α : Type u} (l : List α) (k : Nat) :
    N2.selections l k = (selections l.length k).map (fun idx => idx.filterMap (fun i => l[i]?)) := by
  unfold N2.selections
  by_cases h : k = 0 ∨ k > l.length
  · have : (k == 0 || decide (k > l.length)) = true := by
      rcases h with h | h
      · simp [h]
      · simp [h]
    rw [if_pos this, selections_empty _ _ h]; rfl
  · have : ¬ ((k == 0 || decide (k > l.length)) = true) := by
      simp only [Bool.or_eq_true, beq_iff_eq, decide_eq_true_eq]; exact h
    rw [if_neg this, selections_eq_colexIdx _ _ (by omega)]

/-! ### distinctness, completeness, exactly once -/

/-- **C20 (i).** The yielded lists are pairwise distinct (for all `n`, `k`). -/
theorem selections_nodup (n k : Nat) : (selections n k).Nodup := by
  by_cases h : k = 0 ∨ k > n
  · rw [selections_empty n k h]; exact List.nodup_nil
  · obtain ⟨hlen, hspec⟩ := selections_spec n k (by omega) (by omega)
    refine List.pairwise_iff_getElem.mpr ?_
    intro i j hi hj hij e
    obtain ⟨l1, hl1, _, _, hr1⟩ := hspec i (by omega)
    obtain ⟨l2, hl2, _, _, hr2⟩ := hspec j (by omega)
    rw [List.getElem?_eq_getElem hi, Option.some.injEq] at hl1
    rw [List.getElem?_eq_getElem hj, Option.some.injEq] at hl2
    subst hl1 hl2
    rw [e] at hr1
    omega

/-- membership in the yielded sequence, for `1 ≤ k`: exactly the selections -/
theorem mem_selections (n k : Nat) (hk : 1 ≤ k) (l : List Nat) : l ∈ selections n k ↔ Sel n k l := by
  rw [selections_eq_colexIdx n k hk, mem_colexIdx]

/-- **C20 (ii), completeness.** Every strictly increasing list of `k ≥ 1` naturals below `n` is
    yielded (no assumption `k ≤ n`: for `k > n` there is no such list). -/
theorem selections_complete (n k : Nat) (hk : 1 ≤ k) (l : List Nat) (hinc : l.Pairwise (· < ·))
    (hlt : ∀ a ∈ l, a < n) (hlen : l.length = k) : l ∈ selections n k :=
  (mem_selections n k hk l).mpr ⟨hinc, hlt, hlen⟩

theorem selections_complete_valid (n k : Nat) (hk : 1 ≤ k) (l : List Nat) (hv : Valid n 0 l)
    (hlen : l.length = k) : l ∈ selections n k :=
  (mem_selections n k hk l).mpr ((sel_iff n k l).mpr ⟨hv, hlen⟩)

/-- … and soundness in the same vocabulary: only such lists are yielded -/
theorem selections_sound (n k : Nat) (l : List Nat) (h : l ∈ selections n k) : Sel n k l := by
  by_cases hk : k = 0 ∨ k > n
  · rw [selections_empty n k hk] at h; cases h
  · exact (mem_selections n k (by omega) l).mp h

/-- **exactly once** -/
theorem selections_count (n k : Nat) (hk : 1 ≤ k) (l : List Nat) (hinc : l.Pairwise (· < ·))
    (hlt : ∀ a ∈ l, a < n) (hlen : l.length = k) : (selections n k).count l = 1 := by
  have h1 := List.nodup_iff_count.mp (selections_nodup n k) l
  have h2 := List.count_pos_iff.mpr (selections_complete n k hk l hinc hlt hlen)
  omega

/-- the rank is injective on the selections … -/
theorem rank_inj (n k : Nat) (l₁ l₂ : List Nat) (h1 : Sel n k l₁) (h2 : Sel n k l₂)
    (h : rank 0 l₁ = rank 0 l₂) : l₁ = l₂ := by
  obtain ⟨i1, hi1, e1⟩ := List.mem_iff_getElem.mp ((mem_colexIdx n k l₁).mpr h1)
  obtain ⟨i2, hi2, e2⟩ := List.mem_iff_getElem.mp ((mem_colexIdx n k l₂).mpr h2)
  have r1 := rank_colexIdx n k i1 hi1
  have r2 := rank_colexIdx n k i2 hi2
  rw [e1] at r1; rw [e2] at r2
  have : i1 = i2 := by omega
  subst this
  rw [← e1, ← e2]

/-- … and onto `[0, choose n k)`: the combinatorial number system -/
theorem rank_surj (n k i : Nat) (hi : i < Nat.choose n k) : ∃ l, Sel n k l ∧ rank 0 l = i := by
  have h : i < (N2.colexIdx n k).length := by rw [length_colexIdx]; exact hi
  exact ⟨_, (mem_colexIdx n k _).mp (List.getElem_mem h), rank_colexIdx n k i h⟩

theorem rank_lt (n k : Nat) (l : List Nat) (h : Sel n k l) : rank 0 l < Nat.choose n k := by
  obtain ⟨i, hi, e⟩ := List.mem_iff_getElem.mp ((mem_colexIdx n k l).mpr h)
  have := rank_colexIdx n k i hi
  rw [e] at this
  rw [length_colexIdx] at hi
  omega

/-- in terms of subsets: every `k`-element subset of `{0, …, n-1}` (`k ≥ 1`), written as its sorted
    list of elements, is yielded exactly once; and every yielded list is the sorted list of such a
    subset -/
theorem selections_finset (n k : Nat) (hk : 1 ≤ k) (s : Finset Nat) (hs : s ⊆ Finset.range n)
    (hc : s.card = k) : (selections n k).count (s.sort (· ≤ ·)) = 1 := by
  apply selections_count n k hk
  · exact (Finset.sortedLT_sort s).pairwise
  · intro a ha
    rw [Finset.mem_sort] at ha
    exact Finset.mem_range.mp (hs ha)
  · rw [Finset.length_sort, hc]

theorem selections_finset_conv (n k : Nat) (l : List Nat) (h : l ∈ selections n k) :
    ∃ s : Finset Nat, s ⊆ Finset.range n ∧ s.card = k ∧ s.sort (· ≤ ·) = l := by
  obtain ⟨h1, h2, h3⟩ := selections_sound n k l h
  have hnd : l.Nodup := h1.imp (fun h => Nat.ne_of_lt h)
  refine ⟨l.toFinset, ?_, ?_, ?_⟩
  · intro a ha
    exact Finset.mem_range.mpr (h2 a (List.mem_toFinset.mp ha))
  · rw [List.toFinset_card_of_nodup hnd, h3]
  · apply List.Perm.eq_of_pairwise (le := fun a b : Nat => a ≤ b)
    · intro a b _ _ h1 h2; omega
    · exact Finset.pairwise_sort _ _
    · exact h1.imp (fun h => Nat.le_of_lt h)
    · apply (List.perm_ext_iff_of_nodup (Finset.sort_nodup _ _) hnd).mpr
      intro a; simp

/-- the hypotheses are satisfiable: `[0, 2, 3]` is a selection of 3 out of 5 -/
example : (selections 5 3).count [0, 2, 3] = 1 :=
  selections_count 5 3 (by omega) [0, 2, 3] (by decide) (by decide) rfl

#print axioms selections_eq_colexIdx
#print axioms node_selections_eq
#print axioms selections_nodup
#print axioms selections_complete
#print axioms selections_count
#print axioms rank_inj
#print axioms selections_finset
#print axioms selections_finset_conv
end S
