import Mathlib.Data.Finset.Card
import Cdecao.Proofs.HungProof
/-! Spike: totality of the Hungarian model — under the invariants and an admissible matching
    the inner loop never runs out of fuel, always finds a finite `dmin`, and the walk terminates. -/
open Finset
namespace H2

def Sset (I : Inp) (tr : Tr) : Finset Nat := (range I.nx).filter (fun x => tr.s.get x = true)
def Tset (I : Inp) (tr : Tr) : Finset Nat := (range I.ny).filter (fun y => tr.t.get y = true)

/-- a constrained perfect matching exists (given as row ↦ column) -/
structure Admits (I : Inp) (τ : Nat → Nat) : Prop where
  maps : ∀ x, InX I x → InY I (τ x)
  inj : ∀ x1 x2, InX I x1 → InX I x2 → τ x1 = τ x2 → x1 = x2
  allowed : ∀ x, InX I x → allowed I x (τ x) = true

structure GInv (I : Inp) (tr : Tr) (rk : Nat → Nat) (fuel : Nat) : Prop where
  card : #(Sset I tr) = #(Tset I tr) + 1
  fuel : #(Tset I tr) + fuel = I.ny + 1
  rkle : ∀ x, tr.s.get x = true → rk x ≤ #(Tset I tr)

theorem Tset_card_le (I : Inp) (tr : Tr) : #(Tset I tr) ≤ I.ny := by
  have := card_filter_le (range I.ny) (fun y => tr.t.get y = true)
  simpa [Tset] using this

theorem augment_total (I : Inp) (st : St) (u : Nat) (tr : Tr) (rk : Nat → Nat)
    (ht : TInv I st u tr) (hp : PInv I st u tr rk) :
    ∀ (fuel yy xx : Nat) (mmc : Vec Nat), tr.s.get xx = true → rk xx < fuel →
      ∃ mm', augment u tr fuel yy xx mmc = some mm' := by
  intro fuel
  induction fuel with
  | zero => intro _ _ _ _ h; omega
  | succ fuel ih =>
    intro yy xx mmc hs hrk
    simp only [augment]
    by_cases hxu : xx = u
    · simp [hxu]
    · simp only [hxu, if_false]
      obtain ⟨h1, _⟩ := hp.spar xx hs hxu
      obtain ⟨h2, _, _⟩ := hp.tpar _ h1
      have := hp.rkdec xx hs hxu
      exact ih _ _ _ h2 (by omega)

/-- If no eligible pair is left, the rows of `S` would all have to be matched into `T`. -/
theorem dmin_exists (I : Inp) (st : St) (u : Nat) (tr : Tr) (rk : Nat → Nat) (fuel : Nat) (τ : Nat → Nat)
    (ho : OInv I st) (ht : TInv I st u tr) (hg : GInv I tr rk fuel) (ha : Admits I τ)
    (hempty : ∀ y, tr.nlxt.get y = false) : ∃ d, (scan I st tr).dmin = some d := by
  have sp := scan_post I st tr ht.szN ht.szB hempty
  cases hd : (scan I st tr).dmin with
  | some d => exact ⟨d, rfl⟩
  | none =>
    exfalso
    -- every row of S has its τ-column inside T
    have hin : ∀ x ∈ Sset I tr, τ x ∈ Tset I tr := by
      intro x hx
      simp only [Sset, mem_filter, mem_range] at hx
      have hxX := ht.sX ho x hx.2
      have hy := ha.maps x hxX
      simp only [Tset, mem_filter, mem_range]
      refine ⟨hy.1, ?_⟩
      cases htt : tr.t.get (τ x) with
      | true => rfl
      | false =>
        exfalso
        obtain ⟨d, hd', _⟩ := sp.lower x (τ x) ⟨hx.1, hy.1, hx.2⟩ ⟨hx.2, htt, hy.2, ha.allowed x hxX⟩
        rw [hd] at hd'; cases hd'
    have hle : #(Sset I tr) ≤ #(Tset I tr) := by
      apply card_le_card_of_injOn τ
      · intro x hx; exact hin x hx
      · intro x1 h1 x2 h2 heq
        simp only [Sset, coe_filter, mem_range, Set.mem_ofPred_eq] at h1 h2
        exact ha.inj x1 x2 (ht.sX ho x1 h1.2) (ht.sX ho x2 h2.2) heq
    have := hg.card; omega

/-- membership in the grown tree (needs the sizes to know the writes land) -/
theorem growTr_s (I : Inp) (st : St) (tr : Tr) (y : Nat) (hz : TSz I tr) (hlt : st.mm.get y < I.nx) (x : Nat) :
    (growTr I st tr y).s.get x = (decide (x = st.mm.get y) || tr.s.get x) := by
  simp only [growTr, Vec.get_set, hz.szS]
  by_cases e : st.mm.get y = x
  · subst e; simp [hlt]
  · have : ¬ x = st.mm.get y := fun h => e h.symm
    simp [e, this]

theorem growTr_t (I : Inp) (st : St) (tr : Tr) (y : Nat) (hz : TSz I tr) (hlt : y < I.ny) (y' : Nat) :
    (growTr I st tr y).t.get y' = (decide (y' = y) || tr.t.get y') := by
  simp only [growTr, Vec.get_set, hz.szT]
  by_cases e : y = y'
  · subst e; simp [hlt]
  · have : ¬ y' = y := fun h => e h.symm
    simp [e, this]

theorem grow_total (I : Inp) (u : Nat) (τ : Nat → Nat) (ha : Admits I τ) :
    ∀ (fuel : Nat) (st : St) (tr : Tr) (rk : Nat → Nat),
      OInv I st → TInv I st u tr → PInv I st u tr rk → TSz I tr → GInv I tr rk fuel →
      ∃ st', grow I u fuel st tr = some st' := by
  intro fuel
  induction fuel with
  | zero =>
    intro st tr rk _ _ _ _ hg
    have := hg.fuel; have := Tset_card_le I tr; omega
  | succ fuel ih =>
    intro st tr rk ho ht hp hz hg
    have tail : ∀ (st1 : St) (tr1 : Tr), OInv I st1 → TInv I st1 u tr1 → PInv I st1 u tr1 rk → TSz I tr1 →
        GInv I tr1 rk (fuel + 1) → ∀ y, tr1.nlxt.get y = true →
        ∃ st', (if st1.m.get y = true then grow I u fuel st1 (growTr I st1 tr1 y)
         else match augment u tr1 (I.ny + 1) y (tr1.nb.get y) st1.mm with
           | none => none
           | some mm => some { st1 with m := st1.m.set y true, mm := mm }) = some st' := by
      intro st1 tr1 ho1 ht1 hp1 hz1 hg1 y hy
      obtain ⟨hyY, hty, hsnb, _, _⟩ := ht1.nl y hy
      by_cases hm : st1.m.get y = true
      · simp only [hm, if_true]
        obtain ⟨a, b, c⟩ := growth_step I st1 u tr1 rk y ho1 ht1 hp1 hz1 hy hm
        have hzX := (ho1.mrow y hm).2.1
        -- z is fresh
        have hzfresh : tr1.s.get (st1.mm.get y) = false := by
          cases hs : tr1.s.get (st1.mm.get y) with
          | false => rfl
          | true =>
            exfalso
            rcases ht1.sS _ hs with hu | ⟨y', hy', hmm⟩
            · exact ht1.ufree y hm hu
            · have := ho1.minj y' y (ht1.tT y' hy').1 hm hmm
              subst this; simp [hty] at hy'
        have hS : Sset I (growTr I st1 tr1 y) = insert (st1.mm.get y) (Sset I tr1) := by
          ext x
          simp only [Sset, mem_filter, mem_range, mem_insert, growTr_s I st1 tr1 y hz1 hzX.1]
          by_cases e : x = st1.mm.get y
          · subst e; simp [hzX.1]
          · simp [e]
        have hT : Tset I (growTr I st1 tr1 y) = insert y (Tset I tr1) := by
          ext y'
          simp only [Tset, mem_filter, mem_range, mem_insert, growTr_t I st1 tr1 y hz1 hyY.1]
          by_cases e : y' = y
          · subst e; simp [hyY.1]
          · simp [e]
        have hzn : st1.mm.get y ∉ Sset I tr1 := by simp [Sset, hzfresh]
        have hyn : y ∉ Tset I tr1 := by simp [Tset, hty]
        apply ih st1 (growTr I st1 tr1 y) _ ho1 a b c
        refine ⟨?_, ?_, ?_⟩
        · rw [hS, hT, card_insert_of_notMem hzn, card_insert_of_notMem hyn, hg1.card]
        · rw [hT, card_insert_of_notMem hyn]; have := hg1.fuel; omega
        · intro x hx
          rw [hT, card_insert_of_notMem hyn]
          rw [growTr_s I st1 tr1 y hz1 hzX.1] at hx
          by_cases e : x = st1.mm.get y
          · simp only [e, if_true]; have := hg1.rkle _ hsnb; omega
          · simp [e] at hx; simp only [e, if_false]; have := hg1.rkle x hx; omega
      · simp only [hm, if_false]
        have := hg1.rkle _ hsnb
        have := Tset_card_le I tr1
        obtain ⟨mm', hmm'⟩ := augment_total I st1 u tr1 rk ht1 hp1 (I.ny + 1) y (tr1.nb.get y) st1.mm hsnb (by omega)
        exact ⟨{ st1 with m := st1.m.set y true, mm := mm' }, by simp [hmm']⟩
    simp only [grow]
    cases hf : findPos I.ny tr.nlxt.get with
    | some y =>
      simp only [hf]
      exact tail st tr ho ht hp hz hg y (findPos_some hf).2
    | none =>
      simp only [hf]
      have hempty : ∀ y, tr.nlxt.get y = false := by
        intro y
        by_cases hy : y < I.ny
        · exact findPos_none hf y hy
        · rw [Vec.get_of_size_le _ _ (by rw [ht.szN]; omega)]; rfl
      obtain ⟨d, hd⟩ := dmin_exists I st u tr rk (fuel + 1) τ ho ht hg ha hempty
      simp only [hd]
      have sp := scan_post I st tr ht.szN ht.szB hempty
      obtain ⟨y0, hy0, hy0t⟩ := sp.ne d hd
      cases hf2 : findPos I.ny (scan I st tr).nlxt.get with
      | none => have := findPos_none hf2 y0 hy0; simp [hy0t] at this
      | some y =>
        simp only [hf2]
        obtain ⟨ho', ht'⟩ := label_update I st u tr ho ht hempty d hd
        have hp' := pinv_relabel I st u tr rk d (scan I st tr).nlxt (scan I st tr).nb ho ht hp
        exact tail (relabel I st tr d) { tr with nlxt := (scan I st tr).nlxt, nb := (scan I st tr).nb }
          ho' ht' hp' ⟨hz.szS, hz.szT, hz.szSP, hz.szTP⟩ ⟨hg.card, hg.fuel, hg.rkle⟩ y (findPos_some hf2).2

#print axioms grow_total

theorem initTr_ginv (I : Inp) (st : St) (u : Nat) (hu : InX I u) : GInv I (initTr I st u) (fun _ => 0) (I.ny + 1) := by
  have gs : ∀ x, (initTr I st u).s.get x = decide (x = u) := by
    intro x
    simp only [initTr, Vec.get_set, Vec.get_const, Vec.size_const]
    by_cases e : u = x
    · subst e; simp [hu.1]
    · have : ¬ x = u := fun h => e h.symm
      simp [e, this]
      try (intro _; rfl)
  have gt : ∀ y, (initTr I st u).t.get y = false := by
    intro y; simp only [initTr, Vec.get_const]; split <;> rfl
  have hS : Sset I (initTr I st u) = {u} := by
    ext x; simp only [Sset, mem_filter, mem_range, gs, mem_singleton, decide_eq_true_eq]
    constructor
    · intro h; exact h.2
    · intro h; subst h; exact ⟨hu.1, rfl⟩
  have hT : Tset I (initTr I st u) = ∅ := by
    ext y; simp [Tset, gt]
  refine ⟨by rw [hS, hT]; simp, by rw [hT]; simp, by intro x _; simp⟩

theorem outer_total (I : Inp) (τ : Nat → Nat) (ha : Admits I τ) : ∀ (free : List Nat) (st : St),
    OutInv I free st → (∀ u ∈ free, InX I u) → free.Nodup → ∃ st', outer I free st = some st' := by
  intro free
  induction free with
  | nil => intro st _ _ _; exact ⟨st, by simp [outer]⟩
  | cons u rest ih =>
    intro st h hX hnd
    simp only [outer]
    have hfree : ∀ y, st.m.get y = true → st.mm.get y ≠ u := by
      intro y hy e; exact h.rowsDone y hy (by rw [e]; exact List.mem_cons_self)
    have huX := hX u List.mem_cons_self
    obtain ⟨a, b, c⟩ := initTr_inv I st u huX hfree
    obtain ⟨st1, hg⟩ := grow_total I u τ ha (I.ny + 1) st (initTr I st u) _ h.inv a b c (initTr_ginv I st u huX)
    simp only [hg]
    obtain ⟨hinv1, hsz1, y0, hy0, hy0Y, hm1, hrows⟩ :=
      grow_correct I u (I.ny + 1) st (initTr I st u) _ st1 h.inv a b c h.szmm hg
    have hnd' := List.nodup_cons.1 hnd
    have gm : ∀ y, st1.m.get y = true ↔ (st.m.get y = true ∨ y = y0) := by
      intro y; rw [hm1, Vec.get_set, h.szm]
      by_cases e : y0 = y
      · subst e; simp [hy0Y.1]
      · have : ¬ y = y0 := fun h => e h.symm
        simp [e, this]
    have h1 : OutInv I rest st1 := by
      refine ⟨hinv1, by rw [hm1]; simp [h.szm], hsz1, ?_⟩
      intro y hy hmem
      have hM : M' st y0 y := by
        rcases (gm y).1 hy with h | h
        · exact Or.inl h
        · exact Or.inr h
      rcases hrows y hM with e | ⟨c0, hc0, e⟩
      · rw [e] at hmem; exact hnd'.1 hmem
      · rw [← e] at hmem; exact h.rowsDone c0 hc0 (List.mem_cons_of_mem _ hmem)
    exact ih st1 h1 (fun v hv => hX v (List.mem_cons_of_mem _ hv)) hnd'.2

/-- C07, totality half: if a constrained perfect matching exists, the model returns a result
    (no `unwrap` on `None`, no fuel exhaustion). -/
theorem hung_total (I : Inp) (τ : Nat → Nat) (ha : Admits I τ) : ∃ r, run I = some r := by
  simp only [run]
  let st0 : St := { lx := Vec.tab I.nx (rowMax I), ly := Vec.const I.ny 0, m := Vec.const I.ny false, mm := Vec.const I.ny 0 }
  let free := ((List.range I.nx).filter (fun x => !I.skipx.get x)).reverse
  have m0 : ∀ y, st0.m.get y = false := by
    intro y; simp only [st0, Vec.get_const]; split <;> rfl
  have rowMax_ge : ∀ x y, y < I.ny → I.wt x y ≤ rowMax I x := by
    intro x y hy
    unfold rowMax
    have := foldl_range_inv (fun acc y => max acc (I.wt x y))
      (fun n acc => ∀ y, y < n → I.wt x y ≤ acc) I.ny 0 (by intro y h; omega)
      (by
        intro i b _ hb y hy
        by_cases e : y = i
        · subst e; exact le_max_right _ _
        · exact le_trans (hb y (by omega)) (le_max_left _ _))
    exact this y hy
  have hinit : OutInv I free st0 := by
    refine ⟨⟨by simp [st0], by simp [st0], ?_, ?_, ?_⟩, by simp [st0], by simp [st0], ?_⟩
    · intro x y hx hy _
      simp only [st0, Vec.get_tab, Vec.get_const, hx.1, hy.1, if_true]
      have := rowMax_ge x y hy.1; omega
    · intro y hy; simp [m0 y] at hy
    · intro y1 _ hy; simp [m0 y1] at hy
    · intro y hy; simp [m0 y] at hy
  have hfreeX : ∀ u, u ∈ free → InX I u := by
    intro u hu; simp [free] at hu; exact ⟨hu.1, hu.2⟩
  have hnd : free.Nodup := by
    simp only [free, List.nodup_reverse]
    exact List.Nodup.filter _ List.nodup_range
  obtain ⟨st', hst'⟩ := outer_total I τ ha free st0 hinit hfreeX hnd
  simp only [free, st0] at hst'
  simp only [hst']
  exact ⟨_, rfl⟩

#print axioms hung_total
end H2
