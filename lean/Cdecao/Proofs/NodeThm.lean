import Cdecao.Proofs.NodeFeas
/-! Spike: C01 at node level for the final-style node model: whatever `runNodeS` reports as feasible
    satisfies all hard constraints. -/
namespace N2
open H2

theorem guards_none (I : Inst) (nd : Node) (h : guards I nd = none) :
    I.precomputeOk = true ∧ I.m + numSkipX I nd ≤ I.n + numSkipY I nd ∧
    I.P + (I.n - I.m + numSkipY I nd - numSkipX I nd) ≤ I.n := by
  unfold guards at h
  split at h; · contradiction
  split at h; · contradiction
  split at h; · contradiction
  split at h; · contradiction
  split at h; · contradiction
  split at h; · contradiction
  split at h; · contradiction
  rename_i h1 _ _ _ _ h6 h7
  refine ⟨by simpa using h1, by omega, by omega⟩

theorem roomStage_some (I : Inst) (R : RoomFns) (nd : Node) (a : Nat → Option Nat) (score : Nat) (r : Res)
    (h : roomStage I R nd a score = .ok (some r)) : ∃ k s, r = .infeasible k s := by
  unfold roomStage at h
  split at h
  · simp at h
  · split at h
    · contradiction
    · simp at h
    · simp only [Except.ok.injEq, Option.some.injEq] at h
      exact ⟨_, _, h.symm⟩

theorem C01_node (I : Inst) (R : RoomFns) (nd : Node) (hI : InstOK I) (hn : NodeOK I nd)
    (al : List (Option Nat)) (sc : Nat) (h : runNodeS I R nd = .ok (.feasible al sc)) :
    ∃ mm : Vec Nat, al = (List.range I.P).map (assign I nd mm.get) ∧ G.HardOK I (assign I nd mm.get) := by
  unfold runNodeS at h
  split at h
  · -- early exits never report a feasible solution
    rename_i r hg
    exfalso
    unfold guards at hg
    repeat' split at hg
    all_goals first
      | (simp only [Option.some.injEq] at hg; rw [← hg] at h; simp at h; done)
      | contradiction
  · rename_i hg
    obtain ⟨hpre, hu, hfit⟩ := guards_none I nd hg
    split at h
    · contradiction
    · rename_i mm hsc hrun
      obtain ⟨hperf, _, _⟩ := hung_partial (nodeInp I nd) (node_square I nd hpre hu hfit) mm hsc hrun
      have hctx := ctxOK I nd hI hn mm hperf
      refine ⟨mm, ?_⟩
      unfold post at h
      dsimp only at h
      have hav : ∀ p, p < I.P → (Vec.tab I.P (assign I nd mm.get)).get p = assign I nd mm.get p := by
        intro p hp; rw [Vec.get_tab]; simp [hp]
      split at h
      · contradiction
      · rename_i r hr
        obtain ⟨k, s, rfl⟩ := roomStage_some _ _ _ _ _ _ hr
        simp at h
      · unfold feasStage at h
        split at h
        · contradiction
        · rename_i b c hf
          simp only [Except.ok.injEq, Res.feasible.injEq] at h
          have hgate := checkFeas_gate I nd mm.get _ _ (by
              intro p hp
              simp only [nodeInp, Vec.get_tab]
              have : p < I.n := by unfold Inst.n; omega
              simp [this, hp]) hav b c hf
          constructor
          · rw [← h.1]
            apply List.map_congr_left
            intro p hp; exact hav p (List.mem_range.1 hp)
          · exact G.gate_sound I _ hctx hgate
        · simp at h

#print axioms C01_node
end N2
