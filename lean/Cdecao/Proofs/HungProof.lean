import Cdecao.Model.Hungarian
/-! Spike: the label-update scan establishes its post-condition (first step of stage B) -/
namespace H2
open Vec

section veclemmas
variable {α : Type} [Inhabited α]
@[simp, grind =] theorem Vec.size_set (v : Vec α) (i : Nat) (x : α) : (v.set i x).size = v.size := by
  simp [Vec.size, Vec.set]
@[simp, grind =] theorem Vec.size_tab (n : Nat) (f : Nat → α) : (Vec.tab n f).size = n := by simp [Vec.size, Vec.tab]
@[simp, grind =] theorem Vec.size_const (n : Nat) (x : α) : (Vec.const n x).size = n := by simp [Vec.size, Vec.const]
@[grind =] theorem Vec.get_set (v : Vec α) (i j : Nat) (x : α) :
    (v.set i x).get j = if i = j ∧ i < v.size then x else v.get j := by
  simp only [Vec.get, Vec.set, Vec.size, Array.getD_eq_getD_getElem?, Array.getElem?_setIfInBounds]
  split <;> split <;> simp_all <;> grind
@[grind =] theorem Vec.get_tab (n : Nat) (f : Nat → α) (i : Nat) :
    (Vec.tab n f).get i = if i < n then f i else default := by
  simp only [Vec.get, Vec.tab, Array.getD_eq_getD_getElem?]
  split <;> simp_all
@[grind =] theorem Vec.get_const (n : Nat) (x : α) (i : Nat) :
    (Vec.const n x).get i = if i < n then x else default := by
  simp only [Vec.get, Vec.const, Array.getD_eq_getD_getElem?]
  split <;> simp_all
end veclemmas

def slack (I : Inp) (st : St) (x y : Nat) : Int := st.lx.get x + st.ly.get y - I.wt x y
def elig (I : Inp) (tr : Tr) (x y : Nat) : Prop :=
  tr.s.get x = true ∧ tr.t.get y = false ∧ I.skipy.get y = false ∧ allowed I x y = true

/-- one inner step of the scan, exactly as in `scan` -/
def scanStep (I : Inp) (st : St) (tr : Tr) (x : Nat) (acc : Scan) (y : Nat) : Scan :=
  if !tr.t.get y && !I.skipy.get y && allowed I x y then
    let delta := st.lx.get x + st.ly.get y - I.wt x y
    match acc.dmin with
    | some d =>
      if delta = d then { acc with nlxt := acc.nlxt.set y true, nb := acc.nb.set y x }
      else if delta < d then { dmin := some delta, nlxt := (Vec.const I.ny false).set y true, nb := acc.nb.set y x }
      else acc
    | none => { dmin := some delta, nlxt := (Vec.const I.ny false).set y true, nb := acc.nb.set y x }
  else acc

def scanRow (I : Inp) (st : St) (tr : Tr) (acc : Scan) (x : Nat) : Scan :=
  if tr.s.get x then (List.range I.ny).foldl (scanStep I st tr x) acc else acc

theorem scan_eq (I : Inp) (st : St) (tr : Tr) :
    scan I st tr = (List.range I.nx).foldl (scanRow I st tr) { dmin := none, nlxt := tr.nlxt, nb := tr.nb } := rfl

/-- invariant of the scan: `done x y` says which pairs have been looked at -/
structure ScanInv (I : Inp) (st : St) (tr : Tr) (done : Nat → Nat → Prop) (acc : Scan) : Prop where
  szN : acc.nlxt.size = I.ny
  szB : acc.nb.size = I.ny
  lower : ∀ x y, done x y → elig I tr x y → ∃ d, acc.dmin = some d ∧ d ≤ slack I st x y
  wit : ∀ y, acc.nlxt.get y = true →
      ∃ d, acc.dmin = some d ∧ y < I.ny ∧ elig I tr (acc.nb.get y) y ∧ slack I st (acc.nb.get y) y = d ∧
        ∃ y', done (acc.nb.get y) y'
  att : ∀ d, acc.dmin = some d → ∃ x y, done x y ∧ elig I tr x y ∧ slack I st x y = d
  ne : ∀ d, acc.dmin = some d → ∃ y, y < I.ny ∧ acc.nlxt.get y = true

theorem scanStep_inv (I : Inp) (st : St) (tr : Tr) (x y : Nat) (hy : y < I.ny) (hs : tr.s.get x = true)
    (done : Nat → Nat → Prop) (acc : Scan) (h : ScanInv I st tr done acc) :
    ScanInv I st tr (fun x' y' => done x' y' ∨ (x' = x ∧ y' = y)) (scanStep I st tr x acc y) := by
  unfold scanStep
  by_cases hc : (!tr.t.get y && !I.skipy.get y && allowed I x y) = true
  · have hel : elig I tr x y := by
      simp only [Bool.and_eq_true, Bool.not_eq_true'] at hc
      exact ⟨hs, hc.1.1, hc.1.2, hc.2⟩
    simp only [hc, if_true]
    cases hd : acc.dmin with
    | none =>
      simp only
      refine ⟨by simp, by simp [h.szB], ?_, ?_, ?_, ?_⟩
      rotate_left 2
      · intro d0 hd0; cases hd0; exact ⟨x, y, Or.inr ⟨rfl, rfl⟩, hel, rfl⟩
      · intro d0 hd0; exact ⟨y, hy, by rw [Vec.get_set]; simp [hy]⟩
      · intro x' y' hdone hel'
        rcases hdone with hdone | ⟨rfl, rfl⟩
        · obtain ⟨d, hd', _⟩ := h.lower x' y' hdone hel'; simp [hd] at hd'
        · exact ⟨_, rfl, by simp [slack]⟩
      · intro y' hy'
        have : y' = y := by
          rw [Vec.get_set, Vec.get_const] at hy'
          by_cases hyy : y = y'
          · exact hyy.symm
          · simp [hyy] at hy' <;> (try (split at hy' <;> simp_all))
        subst this
        refine ⟨_, rfl, hy, ?_, ?_, ?_⟩
        · rw [Vec.get_set]; simp [h.szB, hy] <;> exact hel
        · rw [Vec.get_set]; simp [h.szB, hy, slack]
        · rw [Vec.get_set]; simp [h.szB, hy] <;> exact ⟨y', Or.inr ⟨rfl, rfl⟩⟩
    | some d =>
      simp only
      by_cases heq : st.lx.get x + st.ly.get y - I.wt x y = d
      · simp only [heq, if_true]
        refine ⟨by simp [h.szN], by simp [h.szB], ?_, ?_, ?_, ?_⟩
        rotate_left 2
        · intro d0 hd0; cases hd0
          obtain ⟨x', y', hdn, hel', hsl⟩ := h.att d hd
          exact ⟨x', y', Or.inl hdn, hel', hsl⟩
        · intro d0 hd0; exact ⟨y, hy, by rw [Vec.get_set]; simp [h.szN, hy]⟩
        · intro x' y' hdone hel'
          rcases hdone with hdone | ⟨rfl, rfl⟩
          · obtain ⟨d', hd', hle⟩ := h.lower x' y' hdone hel'
            rw [hd] at hd'; cases hd'
            exact ⟨d, rfl, hle⟩
          · exact ⟨d, rfl, by simp [slack, heq]⟩
        · intro y' hy'
          by_cases hyy : y = y'
          · subst hyy
            refine ⟨d, rfl, hy, ?_, ?_, ?_⟩
            · rw [Vec.get_set]; simp [h.szB, hy] <;> exact hel
            · rw [Vec.get_set]; simp [h.szB, hy, slack, heq]
            · rw [Vec.get_set]; simp [h.szB, hy] <;> exact ⟨y, Or.inr ⟨rfl, rfl⟩⟩
          · rw [Vec.get_set] at hy'; simp [hyy] at hy'
            obtain ⟨d', hd', hlt, hel', hsl, y'', hdn⟩ := h.wit y' hy'
            rw [hd] at hd'; cases hd'
            refine ⟨d, rfl, hlt, ?_, ?_, ?_⟩
            · rw [Vec.get_set]; simp [hyy] <;> exact hel'
            · rw [Vec.get_set]; simp [hyy] <;> exact hsl
            · rw [Vec.get_set]; simp [hyy] <;> exact ⟨y'', Or.inl hdn⟩
      · simp only [heq, if_false]
        by_cases hlt : st.lx.get x + st.ly.get y - I.wt x y < d
        · simp only [hlt, if_true]
          refine ⟨by simp, by simp [h.szB], ?_, ?_, ?_, ?_⟩
          rotate_left 2
          · intro d0 hd0; cases hd0; exact ⟨x, y, Or.inr ⟨rfl, rfl⟩, hel, rfl⟩
          · intro d0 hd0; exact ⟨y, hy, by rw [Vec.get_set]; simp [hy]⟩
          · intro x' y' hdone hel'
            rcases hdone with hdone | ⟨rfl, rfl⟩
            · obtain ⟨d', hd', hle⟩ := h.lower x' y' hdone hel'
              rw [hd] at hd'; cases hd'
              exact ⟨_, rfl, by omega⟩
            · exact ⟨_, rfl, by simp [slack]⟩
          · intro y' hy'
            have : y' = y := by
              rw [Vec.get_set, Vec.get_const] at hy'
              by_cases hyy : y = y'
              · exact hyy.symm
              · simp [hyy] at hy' <;> (try (split at hy' <;> simp_all))
            subst this
            refine ⟨_, rfl, hy, ?_, ?_, ?_⟩
            · rw [Vec.get_set]; simp [h.szB, hy] <;> exact hel
            · rw [Vec.get_set]; simp [h.szB, hy, slack]
            · rw [Vec.get_set]; simp [h.szB, hy] <;> exact ⟨y', Or.inr ⟨rfl, rfl⟩⟩
        · simp only [hlt, if_false]
          refine ⟨h.szN, h.szB, ?_, ?_, ?_, h.ne⟩
          rotate_left 2
          · intro d0 hd0
            obtain ⟨x', y', hdn, hel', hsl⟩ := h.att d0 hd0
            exact ⟨x', y', Or.inl hdn, hel', hsl⟩
          · intro x' y' hdone hel'
            rcases hdone with hdone | ⟨rfl, rfl⟩
            · exact h.lower x' y' hdone hel'
            · exact ⟨d, hd, by simp only [slack]; omega⟩
          · intro y' hy'
            obtain ⟨d', hd', hl, hel', hsl, y'', hdn⟩ := h.wit y' hy'
            exact ⟨d', hd', hl, hel', hsl, y'', Or.inl hdn⟩
  · simp only [hc]
    refine ⟨h.szN, h.szB, ?_, ?_, ?_, h.ne⟩
    rotate_left 2
    · intro d0 hd0
      obtain ⟨x', y', hdn, hel', hsl⟩ := h.att d0 hd0
      exact ⟨x', y', Or.inl hdn, hel', hsl⟩
    · intro x' y' hdone hel'
      rcases hdone with hdone | ⟨rfl, rfl⟩
      · exact h.lower x' y' hdone hel'
      · exfalso
        apply hc
        obtain ⟨_, h2, h3, h4⟩ := hel'
        simp [h2, h3, h4]
    · intro y' hy'
      obtain ⟨d', hd', hl, hel', hsl, y'', hdn⟩ := h.wit y' hy'
      exact ⟨d', hd', hl, hel', hsl, y'', Or.inl hdn⟩


theorem foldl_range_inv {β : Type} (f : β → Nat → β) (P : Nat → β → Prop) (n : Nat) (b : β)
    (h0 : P 0 b) (hstep : ∀ i b, i < n → P i b → P (i + 1) (f b i)) :
    P n ((List.range n).foldl f b) := by
  induction n with
  | zero => simpa using h0
  | succ n ih =>
    rw [List.range_succ, List.foldl_append]
    simp only [List.foldl_cons, List.foldl_nil]
    apply hstep n _ (Nat.lt_succ_self n)
    exact ih (fun i b hi hp => hstep i b (Nat.lt_succ_of_lt hi) hp)

theorem ScanInv.mono {I : Inp} {st : St} {tr : Tr} {d1 d2 : Nat → Nat → Prop} {acc : Scan}
    (h : ScanInv I st tr d1 acc) (h12 : ∀ x y, d1 x y ↔ d2 x y) : ScanInv I st tr d2 acc := by
  have : d1 = d2 := by funext x y; exact propext (h12 x y)
  subst this; exact h

theorem scanRow_inv (I : Inp) (st : St) (tr : Tr) (x : Nat) (done : Nat → Nat → Prop) (acc : Scan)
    (h : ScanInv I st tr done acc) :
    ScanInv I st tr (fun x' y' => done x' y' ∨ (x' = x ∧ y' < I.ny ∧ tr.s.get x = true)) (scanRow I st tr acc x) := by
  unfold scanRow
  by_cases hs : tr.s.get x = true
  · simp only [hs, if_true]
    have := foldl_range_inv (scanStep I st tr x)
      (fun n acc => ScanInv I st tr (fun x' y' => done x' y' ∨ (x' = x ∧ y' < n)) acc) I.ny acc
      (h.mono (by intro x' y'; simp))
      (by
        intro i b hi hb
        refine (scanStep_inv I st tr x i hi hs _ b hb).mono ?_
        intro x' y'
        constructor
        · rintro ((h1 | ⟨h1, h2⟩) | ⟨h1, h2⟩)
          · exact Or.inl h1
          · exact Or.inr ⟨h1, by omega⟩
          · exact Or.inr ⟨h1, by omega⟩
        · rintro (h1 | ⟨h1, h2⟩)
          · exact Or.inl (Or.inl h1)
          · by_cases hyi : y' = i
            · exact Or.inr ⟨h1, hyi⟩
            · exact Or.inl (Or.inr ⟨h1, by omega⟩))
    exact this.mono (by intro x' y'; simp [hs])
  · simp only [hs]
    exact h.mono (by intro x' y'; simp [hs])

/-- Post-condition of the whole scan, under the call-site fact that `nlxt` is empty. -/
theorem scan_post (I : Inp) (st : St) (tr : Tr) (hN : tr.nlxt.size = I.ny) (hB : tr.nb.size = I.ny)
    (hempty : ∀ y, tr.nlxt.get y = false) :
    ScanInv I st tr (fun x y => x < I.nx ∧ y < I.ny ∧ tr.s.get x = true) (scan I st tr) := by
  rw [scan_eq]
  have := foldl_range_inv (scanRow I st tr)
    (fun n acc => ScanInv I st tr (fun x y => x < n ∧ y < I.ny ∧ tr.s.get x = true) acc) I.nx
    { dmin := none, nlxt := tr.nlxt, nb := tr.nb }
    ⟨hN, hB, by intro x y h; omega, by intro y hy; simp [hempty y] at hy, by intro d hd; simp at hd,
      by intro d hd; simp at hd⟩
    (by
      intro i b hi hb
      refine (scanRow_inv I st tr i _ b hb).mono ?_
      intro x y
      constructor
      · rintro (⟨h1, h2, h3⟩ | ⟨h1, h2, h3⟩)
        · exact ⟨by omega, h2, h3⟩
        · subst h1; exact ⟨by omega, h2, h3⟩
      · rintro ⟨h1, h2, h3⟩
        by_cases hxi : x = i
        · exact Or.inr ⟨hxi, h2, by subst hxi; exact h3⟩
        · exact Or.inl ⟨by omega, h2, h3⟩)
  exact this

#print axioms scan_post

/-! ### invariants and the label update -/

def InX (I : Inp) (x : Nat) : Prop := x < I.nx ∧ I.skipx.get x = false
def InY (I : Inp) (y : Nat) : Prop := y < I.ny ∧ I.skipy.get y = false
def tight (I : Inp) (st : St) (x y : Nat) : Prop := st.lx.get x + st.ly.get y = I.wt x y

structure OInv (I : Inp) (st : St) : Prop where
  szlx : st.lx.size = I.nx
  szly : st.ly.size = I.ny
  feas : ∀ x y, InX I x → InY I y → allowed I x y = true → I.wt x y ≤ st.lx.get x + st.ly.get y
  mrow : ∀ y, st.m.get y = true →
      InY I y ∧ InX I (st.mm.get y) ∧ allowed I (st.mm.get y) y = true ∧ tight I st (st.mm.get y) y
  minj : ∀ y1 y2, st.m.get y1 = true → st.m.get y2 = true → st.mm.get y1 = st.mm.get y2 → y1 = y2

structure TInv (I : Inp) (st : St) (u : Nat) (tr : Tr) : Prop where
  szN : tr.nlxt.size = I.ny
  szB : tr.nb.size = I.ny
  uX : InX I u
  ufree : ∀ y, st.m.get y = true → st.mm.get y ≠ u
  sS : ∀ x, tr.s.get x = true → x = u ∨ ∃ y, tr.t.get y = true ∧ st.mm.get y = x
  tT : ∀ y, tr.t.get y = true → st.m.get y = true ∧ tr.s.get (st.mm.get y) = true
  nl : ∀ y, tr.nlxt.get y = true →
      InY I y ∧ tr.t.get y = false ∧ tr.s.get (tr.nb.get y) = true ∧
        allowed I (tr.nb.get y) y = true ∧ tight I st (tr.nb.get y) y

theorem TInv.sX {I : Inp} {st : St} {u : Nat} {tr : Tr} (ho : OInv I st) (h : TInv I st u tr)
    (x : Nat) (hx : tr.s.get x = true) : InX I x := by
  rcases h.sS x hx with rfl | ⟨y, hy, rfl⟩
  · exact h.uX
  · exact (ho.mrow y (h.tT y hy).1).2.1

/-- the state after a label update by `d` (hungarian.rs:174-175) -/
def relabel (I : Inp) (st : St) (tr : Tr) (d : Int) : St :=
  { st with lx := Vec.tab I.nx (fun x => if tr.s.get x then st.lx.get x - d else st.lx.get x),
            ly := Vec.tab I.ny (fun y => if tr.t.get y then st.ly.get y + d else st.ly.get y) }

theorem relabel_lx (I : Inp) (st : St) (tr : Tr) (d : Int) (x : Nat) (hx : x < I.nx) :
    (relabel I st tr d).lx.get x = if tr.s.get x then st.lx.get x - d else st.lx.get x := by
  simp [relabel, Vec.get_tab, hx]
theorem relabel_ly (I : Inp) (st : St) (tr : Tr) (d : Int) (y : Nat) (hy : y < I.ny) :
    (relabel I st tr d).ly.get y = if tr.t.get y then st.ly.get y + d else st.ly.get y := by
  simp [relabel, Vec.get_tab, hy]

theorem label_update (I : Inp) (st : St) (u : Nat) (tr : Tr) (ho : OInv I st) (ht : TInv I st u tr)
    (hempty : ∀ y, tr.nlxt.get y = false) (d : Int) (hd : (scan I st tr).dmin = some d) :
    OInv I (relabel I st tr d) ∧
    TInv I (relabel I st tr d) u { tr with nlxt := (scan I st tr).nlxt, nb := (scan I st tr).nb } := by
  have sp := scan_post I st tr ht.szN ht.szB hempty
  -- d is attained by an eligible pair, hence non-negative
  have hd0 : 0 ≤ d := by
    obtain ⟨x, y, ⟨hx, hy, _⟩, ⟨hs, htf, hsk, hal⟩, hsl⟩ := sp.att d hd
    have := ho.feas x y (ht.sX ho x hs) ⟨hy, hsk⟩ hal
    simp only [slack] at hsl; omega
  have hlow : ∀ x y, InX I x → InY I y → tr.s.get x = true → tr.t.get y = false → allowed I x y = true →
      d ≤ st.lx.get x + st.ly.get y - I.wt x y := by
    intro x y hx hy hs htf hal
    obtain ⟨d', hd', hle⟩ := sp.lower x y ⟨hx.1, hy.1, hs⟩ ⟨hs, htf, hy.2, hal⟩
    rw [hd] at hd'; cases hd'
    simpa [slack] using hle
  -- a matched column outside T has its row outside S
  have hout : ∀ y, st.m.get y = true → tr.t.get y = false → tr.s.get (st.mm.get y) = false := by
    intro y hm htf
    cases hs : tr.s.get (st.mm.get y) with
    | false => rfl
    | true =>
      exfalso
      rcases ht.sS _ hs with hu | ⟨y', hy', hmm⟩
      · exact ht.ufree y hm hu
      · have := ho.minj y' y (ht.tT y' hy').1 hm hmm
        subst this; simp [htf] at hy'
  have tight' : ∀ x y, x < I.nx → y < I.ny → tight I st x y →
      (tr.s.get x = true ↔ tr.t.get y = true) → tight I (relabel I st tr d) x y := by
    intro x y hx hy hti hiff
    simp only [tight, relabel_lx I st tr d x hx, relabel_ly I st tr d y hy] at *
    by_cases hs : tr.s.get x = true
    · have := hiff.1 hs; simp [hs, this]; omega
    · have : ¬ tr.t.get y = true := fun h => hs (hiff.2 h)
      simp [hs, this]; exact hti
  refine ⟨⟨by simp [relabel], by simp [relabel], ?_, ?_, ?_⟩, ⟨?_, ?_, ht.uX, ?_, ?_, ?_, ?_⟩⟩
  · -- feasibility
    intro x y hx hy hal
    have hf := ho.feas x y hx hy hal
    rw [relabel_lx I st tr d x hx.1, relabel_ly I st tr d y hy.1]
    by_cases hs : tr.s.get x = true <;> by_cases htt : tr.t.get y = true
    · simp [hs, htt]; omega
    · have := hlow x y hx hy hs (by simpa using htt) hal
      simp [hs, htt]; omega
    · simp [hs, htt]; omega
    · simp [hs, htt]; exact hf
  · -- matched edges stay tight
    intro y hm
    have hm' : st.m.get y = true := hm
    obtain ⟨hy, hx, hal, hti⟩ := ho.mrow y hm'
    refine ⟨hy, hx, hal, ?_⟩
    apply tight' _ _ hx.1 hy.1 hti
    constructor
    · intro hs
      cases htt : tr.t.get y with
      | true => rfl
      | false => have := hout y hm' htt; simp [this] at hs
    · intro htt; exact (ht.tT y htt).2
  · exact ho.minj
  · exact sp.szN
  · exact sp.szB
  · exact ht.ufree
  · exact ht.sS
  · exact ht.tT
  · -- the new neighbourhood consists of tight allowed edges out of S
    intro y hy
    obtain ⟨d', hd', hlt, ⟨hs, htf, hsk, hal⟩, hsl, _⟩ := sp.wit y hy
    rw [hd] at hd'; cases hd'
    have hxX := ht.sX ho _ hs
    refine ⟨⟨hlt, hsk⟩, htf, hs, hal, ?_⟩
    simp only [tight, relabel_lx I st tr d _ hxX.1, relabel_ly I st tr d y hlt, hs, htf]
    simp only [slack] at hsl
    simp
    omega

#print axioms label_update

/-! ### augmentation along the alternating path (hungarian.rs:215-227) -/

/-- parent structure of the alternating tree, with a rank that decreases towards the root -/
structure PInv (I : Inp) (st : St) (u : Nat) (tr : Tr) (rk : Nat → Nat) : Prop where
  tpar : ∀ y, tr.t.get y = true →
      tr.s.get (tr.tPar.get y) = true ∧ allowed I (tr.tPar.get y) y = true ∧ tight I st (tr.tPar.get y) y
  spar : ∀ x, tr.s.get x = true → x ≠ u → tr.t.get (tr.sPar.get x) = true ∧ st.mm.get (tr.sPar.get x) = x
  rkdec : ∀ x, tr.s.get x = true → x ≠ u → rk (tr.tPar.get (tr.sPar.get x)) < rk x

/-- columns matched after the augmentation -/
def M' (st : St) (y0 : Nat) (c : Nat) : Prop := st.m.get c = true ∨ c = y0

structure AugPre (I : Inp) (st : St) (u : Nat) (tr : Tr) (rk : Nat → Nat) (y0 yy xx : Nat) (mmc : Vec Nat) : Prop where
  sz : mmc.size = I.ny
  inj : ∀ c1 c2, M' st y0 c1 → M' st y0 c2 → c1 ≠ yy → c2 ≠ yy → mmc.get c1 = mmc.get c2 → c1 = c2
  nou : ∀ c, M' st y0 c → c ≠ yy → mmc.get c ≠ u
  good : ∀ c, M' st y0 c → c ≠ yy →
      InY I c ∧ InX I (mmc.get c) ∧ allowed I (mmc.get c) c = true ∧ tight I st (mmc.get c) c
  rows : ∀ c, M' st y0 c → c ≠ yy → mmc.get c = u ∨ ∃ c0, st.m.get c0 = true ∧ st.mm.get c0 = mmc.get c
  cur : tr.s.get xx = true ∧ M' st y0 yy ∧ InY I yy ∧ allowed I xx yy = true ∧ tight I st xx yy
  low : ∀ x, tr.s.get x = true → x ≠ u → rk x ≤ rk xx → mmc.get (tr.sPar.get x) = x
  hole : st.m.get yy = false ∨ rk xx < rk (st.mm.get yy)

structure AugPost (I : Inp) (st : St) (u y0 : Nat) (mm' : Vec Nat) : Prop where
  sz : mm'.size = I.ny
  rows : ∀ c, M' st y0 c → mm'.get c = u ∨ ∃ c0, st.m.get c0 = true ∧ st.mm.get c0 = mm'.get c
  inj : ∀ c1 c2, M' st y0 c1 → M' st y0 c2 → mm'.get c1 = mm'.get c2 → c1 = c2
  good : ∀ c, M' st y0 c →
      InY I c ∧ InX I (mm'.get c) ∧ allowed I (mm'.get c) c = true ∧ tight I st (mm'.get c) c

theorem augment_correct (I : Inp) (st : St) (u : Nat) (tr : Tr) (rk : Nat → Nat) (y0 : Nat)
    (ho : OInv I st) (ht : TInv I st u tr) (hp : PInv I st u tr rk) :
    ∀ (fuel yy xx : Nat) (mmc mm' : Vec Nat), AugPre I st u tr rk y0 yy xx mmc →
      augment u tr fuel yy xx mmc = some mm' → AugPost I st u y0 mm' := by
  intro fuel
  induction fuel with
  | zero => intro yy xx mmc mm' _ h; simp [augment] at h
  | succ fuel ih =>
    intro yy xx mmc mm' pre h
    simp only [augment] at h
    have hyy : yy < mmc.size := by rw [pre.sz]; exact pre.cur.2.2.1.1
    have get1 : ∀ c, (mmc.set yy xx).get c = if c = yy then xx else mmc.get c := by
      intro c; rw [Vec.get_set]
      by_cases hc : c = yy
      · subst hc; simp [hyy]
      · have : ¬ yy = c := fun h => hc h.symm
        simp [hc, this]
    by_cases hxu : xx = u
    · -- reached the root: done
      subst hxu
      simp only [if_true] at h
      cases h
      refine ⟨by simp [pre.sz], ?_, ?_, ?_⟩
      · intro c hc
        rw [get1]
        by_cases e : c = yy
        · simp [e]
        · simp only [e, if_false]; exact pre.rows c hc e
      · intro c1 c2 h1 h2 heq
        rw [get1, get1] at heq
        by_cases e1 : c1 = yy <;> by_cases e2 : c2 = yy
        · rw [e1, e2]
        · simp [e1, e2] at heq; exact absurd heq.symm (pre.nou c2 h2 e2)
        · simp [e1, e2] at heq; exact absurd heq (pre.nou c1 h1 e1)
        · simp [e1, e2] at heq; exact pre.inj c1 c2 h1 h2 e1 e2 heq
      · intro c hc
        rw [get1]
        by_cases e : c = yy
        · subst e
          simp only [if_true]
          obtain ⟨_, _, hy, hal, hti⟩ := pre.cur
          exact ⟨hy, ht.uX, hal, hti⟩
        · simp only [e, if_false]; exact pre.good c hc e
    · -- continue with the old partner column of xx
      simp only [hxu, if_false] at h
      obtain ⟨hsx, hMyy, hYyy, halx, htix⟩ := pre.cur
      obtain ⟨htyy', hmmyy'⟩ := hp.spar xx hsx hxu
      obtain ⟨hmyy', _⟩ := ht.tT _ htyy'
      obtain ⟨hsx', hal', hti'⟩ := hp.tpar _ htyy'
      have hrk := hp.rkdec xx hsx hxu
      have hne : tr.sPar.get xx ≠ yy := by
        intro e
        rcases pre.hole with hm | hr
        · rw [e] at hmyy'; simp [hm] at hmyy'
        · rw [e] at hmmyy'; rw [hmmyy'] at hr; omega
      have hold : mmc.get (tr.sPar.get xx) = xx := pre.low xx hsx hxu (Nat.le_refl _)
      apply ih (tr.sPar.get xx) (tr.tPar.get (tr.sPar.get xx)) (mmc.set yy xx) mm' ?_ h
      refine ⟨by simp [pre.sz], ?_, ?_, ?_, ?_, ?_, ?_, ?_⟩
      · intro c1 c2 h1 h2 n1 n2 heq
        rw [get1, get1] at heq
        by_cases e1 : c1 = yy <;> by_cases e2 : c2 = yy
        · rw [e1, e2]
        · simp [e1, e2] at heq
          have := pre.inj c2 (tr.sPar.get xx) h2 (Or.inl hmyy') e2 hne (by rw [hold]; exact heq.symm)
          exact absurd this n2
        · simp [e1, e2] at heq
          have := pre.inj c1 (tr.sPar.get xx) h1 (Or.inl hmyy') e1 hne (by rw [hold]; exact heq)
          exact absurd this n1
        · simp [e1, e2] at heq; exact pre.inj c1 c2 h1 h2 e1 e2 heq
      · intro c hc n
        rw [get1]
        by_cases e : c = yy
        · simp [e]; exact hxu
        · simp [e]; exact pre.nou c hc e
      · intro c hc n
        rw [get1]
        by_cases e : c = yy
        · subst e; simp only [if_true]
          exact ⟨hYyy, ht.sX ho xx hsx, halx, htix⟩
        · simp only [e, if_false]; exact pre.good c hc e
      · intro c hc n
        rw [get1]
        by_cases e : c = yy
        · simp only [e, if_true]
          rcases ht.sS xx hsx with hu | ⟨y, hy, hmm⟩
          · exact absurd hu hxu
          · exact Or.inr ⟨y, (ht.tT y hy).1, hmm⟩
        · simp only [e, if_false]; exact pre.rows c hc e
      · exact ⟨hsx', Or.inl hmyy', (ho.mrow _ hmyy').1, hal', hti'⟩
      · intro x hx hxu' hle
        rw [get1]
        have hne' : tr.sPar.get x ≠ yy := by
          intro e
          obtain ⟨htx, hmmx⟩ := hp.spar x hx hxu'
          obtain ⟨hmx, _⟩ := ht.tT _ htx
          rcases pre.hole with hm | hr
          · rw [e] at hmx; simp [hm] at hmx
          · rw [e] at hmmx; rw [hmmx] at hr; omega
        simp only [hne', if_false]
        exact pre.low x hx hxu' (by omega)
      · right; rw [hmmyy']; exact hrk

#print axioms augment_correct

/-! ### growing the alternating tree by a matched column (hungarian.rs:183-211) -/

structure TSz (I : Inp) (tr : Tr) : Prop where
  szS : tr.s.size = I.nx
  szT : tr.t.size = I.ny
  szSP : tr.sPar.size = I.nx
  szTP : tr.tPar.size = I.ny

def newN (I : Inp) (st : St) (t' : Vec Bool) (z : Nat) (y' : Nat) : Bool :=
  (!I.skipy.get y' && !t'.get y') && (if I.dummy.get z then !I.mand.get y' else true)
    && (I.wt z y' == st.ly.get y' + st.lx.get z)

/-- the tree after adding the matched column `y` and its partner (same expression as in `grow`) -/
def growTr (I : Inp) (st : St) (tr : Tr) (y : Nat) : Tr :=
  let z := st.mm.get y
  let t' := tr.t.set y true
  let nlxt1 := tr.nlxt.set y false
  { t := t', tPar := tr.tPar.set y (tr.nb.get y), s := tr.s.set z true, sPar := tr.sPar.set z y,
    nlxt := Vec.tab I.ny (fun y' => nlxt1.get y' || newN I st t' z y'),
    nb := Vec.tab I.ny (fun y' => if newN I st t' z y' then z else tr.nb.get y') }

theorem growth_step (I : Inp) (st : St) (u : Nat) (tr : Tr) (rk : Nat → Nat) (y : Nat)
    (ho : OInv I st) (ht : TInv I st u tr) (hp : PInv I st u tr rk) (hz : TSz I tr)
    (hy : tr.nlxt.get y = true) (hm : st.m.get y = true) :
    TInv I st u (growTr I st tr y) ∧
    PInv I st u (growTr I st tr y) (fun x => if x = st.mm.get y then rk (tr.nb.get y) + 1 else rk x) ∧
    TSz I (growTr I st tr y) := by
  obtain ⟨hyY, hty, hsnb, halnb, htinb⟩ := ht.nl y hy
  obtain ⟨_, hzX, halz, htiz⟩ := ho.mrow y hm
  have hynY := hyY.1
  -- z is a fresh row
  have hzfresh : tr.s.get (st.mm.get y) = false := by
    cases hs : tr.s.get (st.mm.get y) with
    | false => rfl
    | true =>
      exfalso
      rcases ht.sS _ hs with hu | ⟨y', hy', hmm⟩
      · exact ht.ufree y hm hu
      · have := ho.minj y' y (ht.tT y' hy').1 hm hmm
        subst this; simp [hty] at hy'
  have hzu : st.mm.get y ≠ u := ht.ufree y hm
  have gs : ∀ x, (growTr I st tr y).s.get x = (decide (x = st.mm.get y) || tr.s.get x) := by
    intro x; simp only [growTr, Vec.get_set, hz.szS]
    by_cases e : st.mm.get y = x
    · subst e; simp [hzX.1]
    · have : ¬ x = st.mm.get y := fun h => e h.symm
      simp [e, this]
  have gt : ∀ y', (growTr I st tr y).t.get y' = (decide (y' = y) || tr.t.get y') := by
    intro y'; simp only [growTr, Vec.get_set, hz.szT]
    by_cases e : y = y'
    · subst e; simp [hynY]
    · have : ¬ y' = y := fun h => e h.symm
      simp [e, this]
  have gsp : ∀ x, (growTr I st tr y).sPar.get x = if x = st.mm.get y then y else tr.sPar.get x := by
    intro x; simp only [growTr, Vec.get_set, hz.szSP]
    by_cases e : st.mm.get y = x
    · subst e; simp [hzX.1]
    · have : ¬ x = st.mm.get y := fun h => e h.symm
      simp [e, this]
  have gtp : ∀ y', (growTr I st tr y).tPar.get y' = if y' = y then tr.nb.get y else tr.tPar.get y' := by
    intro y'; simp only [growTr, Vec.get_set, hz.szTP]
    by_cases e : y = y'
    · subst e; simp [hynY]
    · have : ¬ y' = y := fun h => e h.symm
      simp [e, this]
  refine ⟨⟨by simp [growTr], by simp [growTr], ht.uX, ht.ufree, ?_, ?_, ?_⟩, ⟨?_, ?_, ?_⟩,
    ⟨by simp [growTr, hz.szS], by simp [growTr, hz.szT], by simp [growTr, hz.szSP], by simp [growTr, hz.szTP]⟩⟩
  · -- sS
    intro x hx
    rw [gs] at hx
    by_cases e : x = st.mm.get y
    · right; exact ⟨y, by rw [gt]; simp, e.symm⟩
    · simp [e] at hx
      rcases ht.sS x hx with hu | ⟨y', hy', hmm⟩
      · exact Or.inl hu
      · right; exact ⟨y', by rw [gt]; simp [hy'], hmm⟩
  · -- tT
    intro y' hy'
    rw [gt] at hy'
    by_cases e : y' = y
    · subst e; exact ⟨hm, by rw [gs]; simp⟩
    · simp [e] at hy'
      obtain ⟨h1, h2⟩ := ht.tT y' hy'
      exact ⟨h1, by rw [gs]; simp [h2]⟩
  · -- nl
    intro y' hy'
    simp only [growTr, Vec.get_tab] at hy' ⊢
    by_cases hlt : y' < I.ny
    · simp only [hlt, if_true] at hy' ⊢
      by_cases hn : newN I st (tr.t.set y true) (st.mm.get y) y' = true
      · -- a new neighbour through z
        simp only [hn, if_true]
        simp only [newN, Bool.and_eq_true, Bool.not_eq_true', beq_iff_eq] at hn
        obtain ⟨⟨⟨hsk, htf⟩, hdm⟩, hw⟩ := hn
        refine ⟨⟨hlt, hsk⟩, htf, ?_, ?_, ?_⟩
        · have := gs (st.mm.get y); simp only [growTr] at this; rw [this]; simp
        · simp only [allowed]
          by_cases hd : I.dummy.get (st.mm.get y) = true
          · simp [hd] at hdm; simp [hd, hdm]
          · simp [hd]
        · simp only [tight]; omega
      · -- an old neighbour
        have hn' : newN I st (tr.t.set y true) (st.mm.get y) y' = false := by simpa using hn
        simp only [hn', Bool.or_false, Bool.false_eq_true, if_false] at hy' ⊢
        have hne : y' ≠ y := by
          intro e; subst e
          rw [Vec.get_set] at hy'
          simp [ht.szN, hynY] at hy'
        have hold : tr.nlxt.get y' = true := by
          rw [Vec.get_set] at hy'
          have : ¬ y = y' := fun h => hne h.symm
          simpa [this] using hy'
        obtain ⟨h1, h2, h3, h4, h5⟩ := ht.nl y' hold
        refine ⟨h1, ?_, ?_, h4, h5⟩
        · have := gt y'; simp only [growTr] at this; rw [this]; simp [hne, h2]
        · have := gs (tr.nb.get y'); simp only [growTr] at this; rw [this]; simp [h3]
    · simp [hlt] at hy'
  · -- tpar
    intro y' hy'
    rw [gt] at hy'
    rw [gtp]
    by_cases e : y' = y
    · subst e; simp only [if_true]
      exact ⟨by rw [gs]; simp [hsnb], halnb, htinb⟩
    · simp [e] at hy'
      simp only [e, if_false]
      obtain ⟨h1, h2, h3⟩ := hp.tpar y' hy'
      exact ⟨by rw [gs]; simp [h1], h2, h3⟩
  · -- spar
    intro x hx hxu
    rw [gs] at hx
    rw [gsp]
    by_cases e : x = st.mm.get y
    · subst e
      simp only [if_true]
      exact ⟨by rw [gt]; simp, trivial⟩
    · simp [e] at hx
      simp only [e, if_false]
      obtain ⟨h1, h2⟩ := hp.spar x hx hxu
      exact ⟨by rw [gt]; simp [h1], h2⟩
  · -- rank decreases towards the root
    intro x hx hxu
    rw [gs] at hx
    rw [gsp]
    by_cases e : x = st.mm.get y
    · simp only [e, if_true]
      rw [gtp]; simp only [if_true]
      have : tr.nb.get y ≠ st.mm.get y := by
        intro h; rw [h] at hsnb; simp [hzfresh] at hsnb
      simp [this]
    · simp [e] at hx
      simp only [e, if_false]
      obtain ⟨h1, h2⟩ := hp.spar x hx hxu
      have hne : tr.sPar.get x ≠ y := by
        intro h; rw [h] at h1; simp [hty] at h1
      rw [gtp]; simp only [hne, if_false]
      obtain ⟨h3, _, _⟩ := hp.tpar _ h1
      have : tr.tPar.get (tr.sPar.get x) ≠ st.mm.get y := by
        intro h; rw [h] at h3; simp [hzfresh] at h3
      simp only [this, if_false]
      exact hp.rkdec x hx hxu

#print axioms growth_step

/-! ### the inner loop as a whole -/

theorem findPos_go_some (p : Nat → Bool) : ∀ (fuel i y : Nat), findPos.go p i fuel = some y →
    i ≤ y ∧ y < i + fuel ∧ p y = true := by
  intro fuel
  induction fuel with
  | zero => intro i y h; simp [findPos.go] at h
  | succ fuel ih =>
    intro i y h
    simp only [findPos.go] at h
    by_cases hp : p i = true
    · simp [hp] at h; subst h; exact ⟨Nat.le_refl _, by omega, hp⟩
    · simp [hp] at h
      obtain ⟨h1, h2, h3⟩ := ih (i + 1) y h
      exact ⟨by omega, by omega, h3⟩

theorem findPos_go_none (p : Nat → Bool) : ∀ (fuel i : Nat), findPos.go p i fuel = none →
    ∀ y, i ≤ y → y < i + fuel → p y = false := by
  intro fuel
  induction fuel with
  | zero => intro i _ y h1 h2; omega
  | succ fuel ih =>
    intro i h y h1 h2
    simp only [findPos.go] at h
    by_cases hp : p i = true
    · simp [hp] at h
    · simp [hp] at h
      by_cases e : y = i
      · subst e; simpa using hp
      · exact ih (i + 1) h y (by omega) (by omega)

theorem findPos_some {n : Nat} {p : Nat → Bool} {y : Nat} (h : findPos n p = some y) : y < n ∧ p y = true := by
  obtain ⟨_, h2, h3⟩ := findPos_go_some p n 0 y h
  exact ⟨by omega, h3⟩

theorem findPos_none {n : Nat} {p : Nat → Bool} (h : findPos n p = none) (y : Nat) (hy : y < n) : p y = false :=
  findPos_go_none p n 0 h y (Nat.zero_le _) (by omega)

theorem Vec.get_of_size_le {α : Type} [Inhabited α] (v : Vec α) (i : Nat) (h : v.size ≤ i) : v.get i = default := by
  simp only [Vec.get, Vec.size] at *
  simp [Array.getD_eq_getD_getElem?, Array.getElem?_eq_none h]

theorem pinv_relabel (I : Inp) (st : St) (u : Nat) (tr : Tr) (rk : Nat → Nat) (d : Int) (nl : Vec Bool) (nb : Vec Nat)
    (ho : OInv I st) (ht : TInv I st u tr) (hp : PInv I st u tr rk) :
    PInv I (relabel I st tr d) u { tr with nlxt := nl, nb := nb } rk := by
  refine ⟨?_, hp.spar, hp.rkdec⟩
  intro y hy
  obtain ⟨h1, h2, h3⟩ := hp.tpar y hy
  refine ⟨h1, h2, ?_⟩
  have hx := (ht.sX ho _ h1).1
  have hyn := (ho.mrow y (ht.tT y hy).1).1.1
  simp only [tight, relabel_lx I st tr d _ hx, relabel_ly I st tr d y hyn] at *
  have h1' : tr.s.get (tr.tPar.get y) = true := h1
  have hy' : tr.t.get y = true := hy
  simp [h1', hy']; omega

/-- what one run of the inner loop achieves: exactly one more matched column -/
structure GrowPost (I : Inp) (st : St) (u : Nat) (st' : St) : Prop where
  inv : OInv I st'
  szmm : st'.mm.size = I.ny
  ex : ∃ y0, st.m.get y0 = false ∧ InY I y0 ∧ st'.m = st.m.set y0 true ∧
      (∀ c, M' st y0 c → st'.mm.get c = u ∨ ∃ c0, st.m.get c0 = true ∧ st.mm.get c0 = st'.mm.get c)

theorem grow_correct (I : Inp) (u : Nat) :
    ∀ (fuel : Nat) (st : St) (tr : Tr) (rk : Nat → Nat) (st' : St),
      OInv I st → TInv I st u tr → PInv I st u tr rk → TSz I tr → st.mm.size = I.ny →
      grow I u fuel st tr = some st' → GrowPost I st u st' := by
  intro fuel
  induction fuel with
  | zero => intro st tr rk st' _ _ _ _ _ h; simp [grow] at h
  | succ fuel ih =>
    intro st tr rk st' ho ht hp hz hmm h
    -- common tail: given the chosen column y in the (possibly relabelled) state
    have tail : ∀ (st1 : St) (tr1 : Tr), OInv I st1 → TInv I st1 u tr1 → PInv I st1 u tr1 rk → TSz I tr1 →
        st1.m = st.m → st1.mm = st.mm → ∀ y, tr1.nlxt.get y = true →
        (if st1.m.get y = true then grow I u fuel st1 (growTr I st1 tr1 y)
         else match augment u tr1 (I.ny + 1) y (tr1.nb.get y) st1.mm with
           | none => none
           | some mm => some { st1 with m := st1.m.set y true, mm := mm }) = some st' →
        GrowPost I st u st' := by
      intro st1 tr1 ho1 ht1 hp1 hz1 em emm y hy hres
      by_cases hm : st1.m.get y = true
      · simp only [hm, if_true] at hres
        obtain ⟨a, b, c⟩ := growth_step I st1 u tr1 rk y ho1 ht1 hp1 hz1 hy hm
        have := ih st1 (growTr I st1 tr1 y) _ st' ho1 a b c (by rw [emm]; exact hmm) hres
        obtain ⟨hinv, hsz, y0, h1, h2, h3, h4⟩ := this
        exact ⟨hinv, hsz, y0, by rw [← em]; exact h1, h2, by rw [← em]; exact h3, by
          intro c hc
          have hc' : M' st1 y0 c := by unfold M' at *; rw [em]; exact hc
          rcases h4 c hc' with h | ⟨c0, h5, h6⟩
          · exact Or.inl h
          · exact Or.inr ⟨c0, by rw [← em]; exact h5, by rw [← emm]; exact h6⟩⟩
      · simp only [hm, if_false] at hres
        have hmf : st1.m.get y = false := by simpa using hm
        obtain ⟨hyY, hty, hsnb, halnb, htinb⟩ := ht1.nl y hy
        cases haug : augment u tr1 (I.ny + 1) y (tr1.nb.get y) st1.mm with
        | none => simp [haug] at hres
        | some mm' =>
          simp only [haug] at hres
          cases hres
          have pre : AugPre I st1 u tr1 rk y y (tr1.nb.get y) st1.mm := by
            refine ⟨by rw [emm]; exact hmm, ?_, ?_, ?_, ?_, ⟨hsnb, Or.inr rfl, hyY, halnb, htinb⟩, ?_, Or.inl hmf⟩
            · intro c1 c2 h1 h2 n1 n2 heq
              rcases h1 with h1 | h1 <;> rcases h2 with h2 | h2
              · exact ho1.minj c1 c2 h1 h2 heq
              · exact absurd h2 n2
              · exact absurd h1 n1
              · exact absurd h1 n1
            · intro c h1 n1
              rcases h1 with h1 | h1
              · exact ht1.ufree c h1
              · exact absurd h1 n1
            · intro c h1 n1
              rcases h1 with h1 | h1
              · exact ho1.mrow c h1
              · exact absurd h1 n1
            · intro c h1 n1
              rcases h1 with h1 | h1
              · exact Or.inr ⟨c, h1, rfl⟩
              · exact absurd h1 n1
            · intro x hx hxu _
              exact (hp1.spar x hx hxu).2
          have post := augment_correct I st1 u tr1 rk y ho1 ht1 hp1 (I.ny + 1) y (tr1.nb.get y) st1.mm mm' pre haug
          refine ⟨⟨ho1.szlx, ho1.szly, ho1.feas, ?_, ?_⟩, post.sz, y, by rw [← em]; exact hmf, hyY, by simp [em], ?_⟩
          · intro c hc
            have hc' : M' st1 y c := by
              simp only [Vec.get_set] at hc
              by_cases e : y = c
              · exact Or.inr e.symm
              · simp [e] at hc; exact Or.inl hc
            exact post.good c hc'
          · intro c1 c2 h1 h2 heq
            have t1 : ∀ c, (st1.m.set y true).get c = true → M' st1 y c := by
              intro c hc
              simp only [Vec.get_set] at hc
              by_cases e : y = c
              · exact Or.inr e.symm
              · simp [e] at hc; exact Or.inl hc
            exact post.inj c1 c2 (t1 c1 h1) (t1 c2 h2) heq
          · intro c hc
            have hc' : M' st1 y c := by unfold M' at *; rw [em]; exact hc
            rcases post.rows c hc' with h | ⟨c0, h5, h6⟩
            · exact Or.inl h
            · exact Or.inr ⟨c0, by rw [← em]; exact h5, by rw [← emm]; exact h6⟩
    -- now unfold one iteration of `grow`
    simp only [grow] at h
    cases hf : findPos I.ny tr.nlxt.get with
    | some y =>
      simp only [hf] at h
      exact tail st tr ho ht hp hz rfl rfl y (findPos_some hf).2 h
    | none =>
      simp only [hf] at h
      cases hd : (scan I st tr).dmin with
      | none => simp [hd] at h
      | some d =>
        simp only [hd] at h
        cases hf2 : findPos I.ny (scan I st tr).nlxt.get with
        | none => simp [hf2] at h
        | some y =>
          simp only [hf2] at h
          have hempty : ∀ y, tr.nlxt.get y = false := by
            intro y
            by_cases hy : y < I.ny
            · exact findPos_none hf y hy
            · rw [Vec.get_of_size_le _ _ (by rw [ht.szN]; omega)]; rfl
          obtain ⟨ho', ht'⟩ := label_update I st u tr ho ht hempty d hd
          have hp' := pinv_relabel I st u tr rk d (scan I st tr).nlxt (scan I st tr).nb ho ht hp
          exact tail (relabel I st tr d) { tr with nlxt := (scan I st tr).nlxt, nb := (scan I st tr).nb }
            ho' ht' hp' ⟨hz.szS, hz.szT, hz.szSP, hz.szTP⟩ rfl rfl y (findPos_some hf2).2 h

#print axioms grow_correct

/-! ### initial tree and the outer loop (hungarian.rs:115-138) -/

theorem initTr_inv (I : Inp) (st : St) (u : Nat) (hu : InX I u) (hfree : ∀ y, st.m.get y = true → st.mm.get y ≠ u) :
    TInv I st u (initTr I st u) ∧ PInv I st u (initTr I st u) (fun _ => 0) ∧ TSz I (initTr I st u) := by
  have gs : ∀ x, (initTr I st u).s.get x = decide (x = u) := by
    intro x
    simp only [initTr, Vec.get_set, Vec.get_const, Vec.size_const]
    by_cases e : u = x
    · subst e; simp [hu.1]
    · have : ¬ x = u := fun h => e h.symm
      simp [e, this]
      try (intro _; rfl)
  have gt : ∀ y, (initTr I st u).t.get y = false := by
    intro y; simp only [initTr, Vec.get_const]; split <;> rfl
  refine ⟨⟨by simp [initTr], by simp [initTr], hu, hfree, ?_, ?_, ?_⟩, ⟨?_, ?_, ?_⟩,
    ⟨by simp [initTr], by simp [initTr], by simp [initTr], by simp [initTr]⟩⟩
  · intro x hx; rw [gs] at hx; left; simpa using hx
  · intro y hy; rw [gt] at hy; cases hy
  · intro y hy
    simp only [initTr, Vec.get_tab] at hy
    by_cases hlt : y < I.ny
    · simp only [hlt, if_true, Bool.and_eq_true, Bool.not_eq_true', beq_iff_eq] at hy
      obtain ⟨hsk, hw, hdm⟩ := hy
      have hnb : (initTr I st u).nb.get y = u := by simp [initTr, Vec.get_const, hlt]
      refine ⟨⟨hlt, hsk⟩, gt y, by rw [hnb, gs]; simp, ?_, ?_⟩
      · rw [hnb]; simp only [allowed]
        cases hdu : I.dummy.get u <;> cases hmy : I.mand.get y <;> simp_all
      · rw [hnb]; simp only [tight]; omega
    · simp [hlt] at hy
  · intro y hy; rw [gt] at hy; cases hy
  · intro x hx hxu; rw [gs] at hx; simp at hx; exact absurd hx hxu
  · intro x hx hxu; rw [gs] at hx; simp at hx; exact absurd hx hxu

structure OutInv (I : Inp) (free : List Nat) (st : St) : Prop where
  inv : OInv I st
  szm : st.m.size = I.ny
  szmm : st.mm.size = I.ny
  rowsDone : ∀ y, st.m.get y = true → st.mm.get y ∉ free

/-- the set of matched columns grows by exactly one column per processed row -/
theorem outer_correct (I : Inp) : ∀ (free : List Nat) (st st' : St),
    OutInv I free st → (∀ u ∈ free, InX I u) → free.Nodup → outer I free st = some st' →
    OutInv I [] st' ∧
    ∃ cols : List Nat, cols.length = free.length ∧ cols.Nodup ∧
      (∀ y, st'.m.get y = true ↔ (st.m.get y = true ∨ y ∈ cols)) ∧ (∀ y ∈ cols, st.m.get y = false ∧ y < I.ny) := by
  intro free
  induction free with
  | nil =>
    intro st st' h _ _ hres
    simp [outer] at hres; subst hres
    exact ⟨h, [], rfl, List.nodup_nil, by simp, by simp⟩
  | cons u rest ih =>
    intro st st' h hX hnd hres
    simp only [outer] at hres
    cases hg : grow I u (I.ny + 1) st (initTr I st u) with
    | none => simp [hg] at hres
    | some st1 =>
      simp only [hg] at hres
      have hfree : ∀ y, st.m.get y = true → st.mm.get y ≠ u := by
        intro y hy e; exact h.rowsDone y hy (by rw [e]; exact List.mem_cons_self)
      obtain ⟨a, b, c⟩ := initTr_inv I st u (hX u List.mem_cons_self) hfree
      obtain ⟨hinv1, hsz1, y0, hy0, hy0Y, hm1, hrows⟩ :=
        grow_correct I u (I.ny + 1) st (initTr I st u) _ st1 h.inv a b c h.szmm hg
      have hnd' := List.nodup_cons.1 hnd
      have gm : ∀ y, st1.m.get y = true ↔ (st.m.get y = true ∨ y = y0) := by
        intro y; rw [hm1, Vec.get_set, h.szm]
        by_cases e : y0 = y
        · subst e; simp [hy0Y.1]
        · have : ¬ y = y0 := fun h => e h.symm
          simp [e, this]
      have h1 : OutInv I rest st1 := by
        refine ⟨hinv1, by rw [hm1]; simp [h.szm], hsz1, ?_⟩
        intro y hy hmem
        have hM : M' st y0 y := by
          rcases (gm y).1 hy with h | h
          · exact Or.inl h
          · exact Or.inr h
        rcases hrows y hM with e | ⟨c0, hc0, e⟩
        · rw [e] at hmem; exact hnd'.1 hmem
        · rw [← e] at hmem; exact h.rowsDone c0 hc0 (List.mem_cons_of_mem _ hmem)
      obtain ⟨hfin, cols, hlen, hcnd, hiff, hcols⟩ :=
        ih st1 st' h1 (fun v hv => hX v (List.mem_cons_of_mem _ hv)) hnd'.2 hres
      refine ⟨hfin, y0 :: cols, by simp [hlen], ?_, ?_, ?_⟩
      · refine List.nodup_cons.2 ⟨?_, hcnd⟩
        intro hmem
        have := (hcols y0 hmem).1
        have : st1.m.get y0 = true := (gm y0).2 (Or.inr rfl)
        simp_all
      · intro y
        rw [hiff y, gm y]
        simp only [List.mem_cons]
        constructor
        · rintro ((h | h) | h)
          · exact Or.inl h
          · exact Or.inr (Or.inl h)
          · exact Or.inr (Or.inr h)
        · rintro (h | h | h)
          · exact Or.inl (Or.inl h)
          · exact Or.inl (Or.inr h)
          · exact Or.inr h
      · intro y hy
        rcases List.mem_cons.1 hy with e | hmem
        · subst e; exact ⟨hy0, hy0Y.1⟩
        · obtain ⟨h2, h3⟩ := hcols y hmem
          refine ⟨?_, h3⟩
          cases hv : st.m.get y with
          | false => rfl
          | true => have := (gm y).2 (Or.inl hv); simp [this] at h2

#print axioms outer_correct
end H2
