import Cdecao.Proofs.NodeNone
/-! Spike (C02_partial, `NodeSpec.feas`): the assignment of a feasible node is a solution consistent with the
    node, and (by `node_bound`) a best one. -/
open Finset
namespace N2
open H2

/-- attendees of a course sit in its non-skipped columns (the injection of `gate_sound`, exposed) -/
theorem attendees_le_live (I : Inst) (nd : Node) (mm : Nat → Nat) (c : Nat) :
    G.attendees I (G.assign I (ctxOf I nd mm)) c
      ≤ #((range I.m).filter (fun cp => skipY I nd cp = false ∧ I.colCourse cp = c)) := by
  set X := ctxOf I nd mm with hX
  have att_col : ∀ p, G.assign I X p = some c → I.instructs p c = false → G.matched X p = some c := by
    intro p ha hni
    rcases G.assign_cases ha with h | ⟨_, h⟩
    · obtain ⟨_, _, h3⟩ := G.instrOf_some h; simp [hni] at h3
    · exact h
  unfold G.attendees
  rw [countP_range_eq_card]
  apply card_le_card_of_injOn (G.colOf X)
  · intro p hp
    simp only [coe_filter, mem_range, Set.mem_ofPred_eq, Bool.and_eq_true, beq_iff_eq, Bool.not_eq_true'] at hp
    obtain ⟨_, ha, hni⟩ := hp
    obtain ⟨h1, h2, _, h4⟩ := G.colOf_spec (att_col p ha hni)
    simp only [coe_filter, mem_range, Set.mem_ofPred_eq]
    exact ⟨h1, h2, h4⟩
  · intro p1 hp1 p2 hp2 heq
    simp only [coe_filter, mem_range, Set.mem_ofPred_eq, Bool.and_eq_true, beq_iff_eq, Bool.not_eq_true'] at hp1 hp2
    obtain ⟨_, _, h3, _⟩ := G.colOf_spec (att_col p1 hp1.2.1 hp1.2.2)
    obtain ⟨_, _, h3', _⟩ := G.colOf_spec (att_col p2 hp2.2.1 hp2.2.2)
    rw [← h3, ← h3', heq]

/-- `NodeSpec.feas`, first clause: the reported assignment is a solution consistent with the node -/
theorem feas_in_sol (I : Inst) (R : RoomFns) (nd : Node) (hI : InstOK2 I)
    (hmm : ∀ c, c < I.C → (I.course c).numMin ≤ (I.course c).numMax) (hn2 : NodeOK2 I nd)
    (al : List (Option Nat)) (sc : Nat) (h : runNodeS I R nd = .ok (.feasible al sc)) :
    ∃ a : Nat → Option Nat, al = (List.range I.P).map a ∧ SolIn I nd a ∧ sc = G.scoreOf I a := by
  have hn : NodeOK I nd := fun c hc => (hn2.canc c hc).2.1
  obtain ⟨mm, hsc, b, c, hg, hrun, hf, hal, hscore⟩ := runNodeS_feasible I R nd al sc h
  obtain ⟨hpre, hu, hfit⟩ := guards_none I nd hg
  obtain ⟨hperf, hw, _⟩ := hung_partial (nodeInp I nd) (node_square I nd hpre hu hfit) mm hsc hrun
  have hctx := ctxOK I nd hI.toInstOK hn mm hperf
  have hsctx := scoreCtx I nd hI.toInstOK hpre hu hfit mm hperf
  have hav : ∀ p, p < I.P → (Vec.tab I.P (assign I nd mm.get)).get p = assign I nd mm.get p := by
    intro p hp; rw [Vec.get_tab]; simp [hp]
  have hisI : ∀ p, p < I.P → (nodeInp I nd).skipx.get p = skipXBase I nd p := by
    intro p hp
    simp only [nodeInp, Vec.get_tab]
    have : p < I.n := by unfold Inst.n; omega
    simp [this, hp]
  have hgate := checkFeas_gate I nd mm.get _ _ hisI hav b c hf
  have hhard := G.gate_sound I _ hctx hgate
  refine ⟨assign I nd mm.get, ?_, ⟨hhard, ?_, ?_, ?_⟩, ?_⟩
  · rw [hal]
    apply List.map_congr_left
    intro p hp; exact hav p (List.mem_range.1 hp)
  · -- nobody sits in a cancelled course
    intro c hc p _ hap
    exact (G.assign_live hctx hap).2 hc
  · -- enforced courses reach their minimum
    intro c hce
    have hmin := enforced_min I nd hmm hn2 hg mm hperf (assign I nd mm.get) (skipXBase I nd)
      (fun _ _ => rfl) (fun _ _ => rfl) c hce
    refine Nat.le_trans hmin ?_
    unfold sizeOf G.attendees
    apply List.countP_mono_left
    intro p hp hpp
    have hpP := List.mem_range.1 hp
    simp only [Bool.and_eq_true, Bool.not_eq_true', beq_iff_eq] at hpp ⊢
    refine ⟨hpp.2, ?_⟩
    -- not skipped, so not instructing the (non-cancelled) course c
    rw [Bool.eq_false_iff]
    intro hin
    have hcc : c ∉ nd.cancelled := fun hcan => (hn2.canc c hcan).2.2 hce
    have hlive : liveInstructor I nd p = true := by
      simp only [liveInstructor, List.any_eq_true, List.mem_range, Bool.and_eq_true, Bool.not_eq_true']
      exact ⟨c, hn2.enf c hce, by simpa [List.contains_iff_mem] using hcc, hin⟩
    have := hpp.1
    simp [skipXBase, hlive] at this
  · -- shrink sizes are respected
    intro cs hcs
    have hc := (hn2.shr cs hcs).1
    refine Nat.le_trans (attendees_le_live I nd mm.get cs.1) ?_
    rw [live_card I nd cs.1 hc]
    unfold effMax
    split
    · exact Nat.zero_le _
    · exact foldl_min_le_mem _ _ cs (by simp [List.mem_filter, hcs])
  · have := G.score_truthful I _ (wN I) hctx hsctx
    have he : assign I nd mm.get = G.assign I (ctxOf I nd mm.get) := rfl
    rw [he, ← this, G.nodeScore, hscore, hw, hsc_eq I nd hI.pen mm hperf,
      bonus_eq I nd mm.get hI.toInstOK hI.nodup]
    rfl

/-- `NodeSpec.feas`, complete: … and no solution consistent with the node scores more -/
theorem feas_optimal (I : Inst) (R : RoomFns) (nd : Node) (hI : InstOK2 I)
    (hmm : ∀ c, c < I.C → (I.course c).numMin ≤ (I.course c).numMax) (hn2 : NodeOK2 I nd) (hnf : NoFreeable I)
    (al : List (Option Nat)) (sc : Nat) (h : runNodeS I R nd = .ok (.feasible al sc))
    (a' : Nat → Option Nat) (hs : SolIn I nd a') : G.scoreOf I a' ≤ sc := by
  obtain ⟨mm, hsc, b, c, hg, hrun, _, _, hscore⟩ := runNodeS_feasible I R nd al sc h
  rw [hscore]
  exact node_bound I nd hI hmm hn2 hnf hg mm hsc hrun a' hs

#print axioms feas_in_sol
#print axioms feas_optimal
end N2
