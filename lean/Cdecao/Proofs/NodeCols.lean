import Cdecao.Model.Node
import Cdecao.Proofs.Square
/-! Spike: the final-style node model uses exactly the column structure of `Cols`. -/
namespace N2

def numMaxOf (I : Inst) (c : Nat) : Nat := (I.course c).numMax

theorem inv_eq (I : Inst) : ∀ c, inv I c = Cols.inv (numMaxOf I) c := by
  intro c
  induction c with
  | zero => rfl
  | succ c ih => simp [inv, Cols.inv, ih, numMaxOf]

theorem courseOf_eq (I : Inst) : ∀ C cp, courseOf I C cp = Cols.courseOf (numMaxOf I) C cp := by
  intro C
  induction C with
  | zero => intro cp; rfl
  | succ C ih => intro cp; simp [courseOf, Cols.courseOf, ih, inv_eq]

theorem foldl_min_le (l : List (Nat × Nat)) (a : Nat) : l.foldl (fun acc cs => min acc cs.2) a ≤ a := by
  induction l generalizing a with
  | nil => exact Nat.le_refl _
  | cons x xs ih => exact Nat.le_trans (ih _) (Nat.min_le_left _ _)

theorem effMax_le (I : Inst) (nd : Node) (c : Nat) : effMax I nd c ≤ numMaxOf I c := by
  unfold effMax numMaxOf
  split
  · exact Nat.zero_le _
  · exact foldl_min_le _ _

theorem effMax_cancelled (I : Inst) (nd : Node) (c : Nat) (h : c ∈ nd.cancelled) : effMax I nd c = 0 := by
  simp [effMax, h]

theorem skipY_eq (I : Inst) (nd : Node) (cp : Nat) :
    skipY I nd cp = Cols.skipY (numMaxOf I) (effMax I nd) I.C cp := by
  simp only [skipY, Cols.skipY, Inst.colCourse, Inst.colPos, Cols.posOf, courseOf_eq, inv_eq]
  congr

/-- hence: a course has exactly `effMax` non-skipped columns, none if cancelled -/
theorem live_card (I : Inst) (nd : Node) (c : Nat) (hc : c < I.C) :
    ((Finset.range I.m).filter (fun cp => skipY I nd cp = false ∧ I.colCourse cp = c)).card = effMax I nd c := by
  have := Cols.live_card (numMaxOf I) (effMax I nd) I.C c hc (effMax_le I nd c)
  simp only [Inst.m, inv_eq, Inst.colCourse, courseOf_eq, skipY_eq] at this ⊢
  exact this

#print axioms live_card
end N2
