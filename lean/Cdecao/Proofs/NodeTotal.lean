import Cdecao.Proofs.NodeKids2
/-! Spike (C10, first part): none of the panic sites before the matching is reachable for a well-formed
    instance and a node satisfying `NodeOK2`. -/
open Finset
namespace N2
open H2

theorem live_some (I : Inst) (nd : Node) (x : Nat) (h : liveInstructor I nd x = true) :
    I.isInstructorSomewhere x = true := by
  simp only [liveInstructor, List.any_eq_true, List.mem_range, Bool.and_eq_true] at h
  obtain ⟨c, hc, _, hin⟩ := h
  simp only [Inst.isInstructorSomewhere, List.any_eq_true]
  refine ⟨I.course c, ?_, hin⟩
  simp only [Inst.course, Inst.C] at hc ⊢
  simp [List.getD_eq_getElem?_getD, List.getElem?_eq_getElem hc]

theorem numSkipX_le (I : Inst) (nd : Node) (hp : I.precomputeOk = true) : numSkipX I nd ≤ I.maxSkipped := by
  unfold numSkipX Inst.maxSkipped
  rw [countP_range_eq_card, countP_range_eq_card]
  apply card_le_card
  intro x hx
  simp only [mem_filter, mem_range] at hx ⊢
  have hxP : x < I.P := by
    by_contra hge
    have := skipXBase_oob I nd hp x (Nat.le_of_not_lt hge)
    rw [this] at hx; exact absurd hx.2 (by simp)
  refine ⟨hxP, ?_⟩
  have h2 := hx.2
  simp only [skipXBase, Bool.or_eq_true, Bool.and_eq_true, decide_eq_true_eq] at h2 ⊢
  rcases h2 with ⟨_, h⟩ | h
  · left; exact h
  · right; exact live_some I nd x h

theorem effMax_ge (I : Inst) (nd : Node) (hn : NodeOK2 I nd) (c : Nat) (hc : c ∉ nd.cancelled)
    (hmm : (I.course c).numMin ≤ (I.course c).numMax) : (I.course c).numMin ≤ effMax I nd c := by
  unfold effMax
  rw [if_neg (by simpa [List.contains_iff_mem] using hc)]
  have : ∀ (l : List (Nat × Nat)) (a : Nat), (I.course c).numMin ≤ a →
      (∀ cs ∈ l, (I.course c).numMin ≤ cs.2) →
      (I.course c).numMin ≤ l.foldl (fun acc cs => min acc cs.2) a := by
    intro l
    induction l with
    | nil => intro a ha _; exact ha
    | cons x xs ih =>
      intro a ha hl
      simp only [List.foldl_cons]
      exact ih _ (Nat.le_min.2 ⟨ha, hl x (by simp)⟩) (fun cs hcs => hl cs (by simp [hcs]))
  apply this _ _ hmm
  intro cs hcs
  simp only [List.mem_filter, beq_iff_eq] at hcs
  have := (hn.shr cs hcs.1).2
  rw [hcs.2] at this; exact this

theorem sum_eff (I : Inst) (nd : Node) :
    (List.range I.C).foldl (fun acc c => acc + effMax I nd c) 0 + numSkipY I nd = I.m := by
  rw [numSkipY, foldl_add_eq_sum, foldl_add_eq_sum, Inst.m, inv_eq, Cols.inv_eq_sum, ← sum_add_distrib]
  apply sum_congr rfl
  intro c _
  have := effMax_le I nd c
  simp only [numMaxOf] at this ⊢
  omega

theorem guards_no_panic (I : Inst) (nd : Node) (hI : InstOK I)
    (hmm : ∀ c, c < I.C → (I.course c).numMin ≤ (I.course c).numMax) (hn : NodeOK2 I nd) (e : String) :
    guards I nd ≠ some (.error e) := by
  intro hg
  unfold guards at hg
  split at hg
  · rename_i h; simp [hI.pre] at h
  split at hg
  · rename_i h
    have hall : (((nd.cancelled.all fun c => decide (c < I.C)) && nd.enforced.all fun c => decide (c < I.C)) &&
        nd.shrinked.all fun cs => decide (cs.1 < I.C)) = true := by
      simp only [Bool.and_eq_true, List.all_eq_true, decide_eq_true_eq]
      exact ⟨⟨fun c hc => (hn.canc c hc).1, hn.enf⟩, fun cs hcs => (hn.shr cs hcs).1⟩
    rw [hall] at h; simp at h
  split at hg
  · simp at hg
  split at hg
  · simp at hg
  split at hg
  · simp at hg
  rename_i _ _ _ hplaces _
  have hsx := numSkipX_le I nd hI.pre
  have hse := sum_eff I nd
  have hn' : I.m + I.maxSkipped ≤ I.n := by unfold Inst.n; omega
  split at hg
  · rename_i h; omega
  split at hg
  · rename_i h; omega
  split at hg
  · rename_i h
    -- a mandatory column is never skipped
    simp only [List.any_eq_true, List.mem_range, Bool.and_eq_true] at h
    obtain ⟨cp, _, hm, hs⟩ := h
    simp only [mandY, Bool.and_eq_true, List.contains_iff_mem, decide_eq_true_eq] at hm
    simp only [skipY, decide_eq_true_eq] at hs
    have hc := hn.enf _ hm.1
    have hnc : I.colCourse cp ∉ nd.cancelled := fun hcan => (hn.canc _ hcan).2.2 hm.1
    have := effMax_ge I nd hn _ hnc (hmm _ hc)
    omega
  · contradiction

#print axioms guards_no_panic
end N2
