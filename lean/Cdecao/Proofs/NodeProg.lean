import Mathlib.Algebra.Order.BigOperators.Group.Finset
import Cdecao.Proofs.NodeFeasTotal
/-! Spike (C04 termination / `NodeSpec.prog`): every child strictly decreases a measure, so the search
    tree of every instance is finite. -/
open Finset
namespace N2
open H2

def isFree (nd : Node) (c : Nat) : Bool := !nd.cancelled.contains c && !nd.enforced.contains c
def freeCnt (I : Inst) (nd : Node) : Nat := #((range I.C).filter (fun c => isFree nd c = true))
def shrOf (B : Nat) (sh : List (Nat × Nat)) (c : Nat) : Nat :=
  (sh.filter (fun cs => cs.1 == c)).foldl (fun acc cs => min acc cs.2) B
def shrSum (I : Inst) (B : Nat) (nd : Node) : Nat := ∑ c ∈ range I.C, shrOf B nd.shrinked c
def mu (I : Inst) (B : Nat) (nd : Node) : Nat := freeCnt I nd + shrSum I B nd

theorem foldl_min_le_mem (l : List (Nat × Nat)) (a : Nat) (x : Nat × Nat) (hx : x ∈ l) :
    l.foldl (fun acc cs => min acc cs.2) a ≤ x.2 := by
  induction l generalizing a with
  | nil => cases hx
  | cons y ys ih =>
    simp only [List.foldl_cons]
    rcases List.mem_cons.1 hx with rfl | h
    · exact Nat.le_trans (foldl_min_le _ _) (Nat.min_le_right _ _)
    · exact ih _ h

theorem foldl_min_gt (l : List (Nat × Nat)) (a s : Nat) (ha : s < a) (hl : ∀ x ∈ l, s < x.2) :
    s < l.foldl (fun acc cs => min acc cs.2) a := by
  induction l generalizing a with
  | nil => exact ha
  | cons y ys ih =>
    simp only [List.foldl_cons]
    exact ih _ (Nat.lt_min.2 ⟨ha, hl y (by simp)⟩) (fun x hx => hl x (by simp [hx]))

theorem shrOf_append_le (B : Nat) (sh add : List (Nat × Nat)) (c : Nat) : shrOf B (sh ++ add) c ≤ shrOf B sh c := by
  unfold shrOf
  rw [List.filter_append, List.foldl_append]
  exact foldl_min_le _ _

theorem shrOf_append_lt (B : Nat) (sh add : List (Nat × Nat)) (ci ss : Nat) (hm : (ci, ss) ∈ add) (hB : ss < B)
    (hnew : ∀ cs ∈ sh, cs.1 = ci → ss < cs.2) : shrOf B (sh ++ add) ci < shrOf B sh ci := by
  have h1 : shrOf B (sh ++ add) ci ≤ ss := by
    unfold shrOf
    exact foldl_min_le_mem _ _ (ci, ss) (by simp [List.mem_filter, hm])
  have h2 : ss < shrOf B sh ci := by
    unfold shrOf
    apply foldl_min_gt _ _ _ hB
    intro x hx
    simp only [List.mem_filter, beq_iff_eq] at hx
    exact hnew x hx.1 hx.2
  omega

/-- a room constraint set makes progress -/
theorem mu_room (I : Inst) (B : Nat) (nd : Node) (sh : List (Nat × Nat)) (ca : List Nat)
    (hsh : ∀ cs ∈ sh, cs.1 < I.C ∧ cs.2 < B ∧ ∀ cs' ∈ nd.shrinked, cs'.1 = cs.1 → cs.2 < cs'.2)
    (hca : ∀ c ∈ ca, c < I.C ∧ isFree nd c = true) (hne : sh ≠ [] ∨ ca ≠ []) :
    mu I B { nd with shrinked := nd.shrinked ++ sh, cancelled := nd.cancelled ++ ca } < mu I B nd := by
  have hfree_le : freeCnt I { nd with shrinked := nd.shrinked ++ sh, cancelled := nd.cancelled ++ ca } ≤ freeCnt I nd := by
    unfold freeCnt
    apply card_le_card
    intro c hc
    simp only [mem_filter, isFree, Bool.and_eq_true, Bool.not_eq_true', List.contains_eq_mem,
      decide_eq_false_iff_not, List.mem_append, not_or] at hc ⊢
    exact ⟨hc.1, hc.2.1.1, hc.2.2⟩
  have hshr_le : shrSum I B { nd with shrinked := nd.shrinked ++ sh, cancelled := nd.cancelled ++ ca } ≤ shrSum I B nd := by
    unfold shrSum
    exact sum_le_sum (fun c _ => shrOf_append_le B _ _ c)
  unfold mu
  rcases hne with hne | hne
  · -- a new shrink entry
    obtain ⟨⟨ci, ss⟩, hm⟩ := List.exists_mem_of_ne_nil _ hne
    obtain ⟨h1, h2, h3⟩ := hsh _ hm
    have : shrSum I B { nd with shrinked := nd.shrinked ++ sh, cancelled := nd.cancelled ++ ca } < shrSum I B nd := by
      unfold shrSum
      apply sum_lt_sum (fun c _ => shrOf_append_le B _ _ c)
      exact ⟨ci, mem_range.2 h1, shrOf_append_lt B _ _ ci ss hm h2 h3⟩
    omega
  · obtain ⟨c, hm⟩ := List.exists_mem_of_ne_nil _ hne
    obtain ⟨h1, h2⟩ := hca c hm
    have : freeCnt I { nd with shrinked := nd.shrinked ++ sh, cancelled := nd.cancelled ++ ca } < freeCnt I nd := by
      unfold freeCnt
      apply card_lt_card
      rw [ssubset_iff_of_subset]
      · refine ⟨c, by simp [h1, h2], ?_⟩
        simp [isFree, hm]
      · intro c' hc'
        simp only [mem_filter, isFree, Bool.and_eq_true, Bool.not_eq_true', List.contains_eq_mem,
          decide_eq_false_iff_not, List.mem_append, not_or] at hc' ⊢
        exact ⟨hc'.1, hc'.2.1.1, hc'.2.2⟩
    omega

/-- cancelling or enforcing a free course makes progress -/
theorem mu_cancel (I : Inst) (B : Nat) (nd : Node) (c : Nat) (hc : c < I.C) (hf : isFree nd c = true) :
    mu I B { nd with cancelled := nd.cancelled ++ [c] } < mu I B nd := by
  have := mu_room I B nd [] [c] (by simp) (by simp [hc, hf]) (Or.inr (by simp))
  simpa using this

theorem mu_enforce (I : Inst) (B : Nat) (nd : Node) (c : Nat) (hc : c < I.C) (hf : isFree nd c = true) :
    mu I B { nd with enforced := nd.enforced ++ [c] } < mu I B nd := by
  unfold mu
  have h1 : shrSum I B { nd with enforced := nd.enforced ++ [c] } = shrSum I B nd := rfl
  have h2 : freeCnt I { nd with enforced := nd.enforced ++ [c] } < freeCnt I nd := by
    unfold freeCnt
    apply card_lt_card
    rw [ssubset_iff_of_subset]
    · refine ⟨c, by simp [hc, hf], ?_⟩
      simp [isFree]
    · intro c' hc'
      simp only [mem_filter, isFree, Bool.and_eq_true, Bool.not_eq_true', List.contains_eq_mem,
        decide_eq_false_iff_not, List.mem_append, not_or] at hc' ⊢
      exact ⟨hc'.1, hc'.2.1, hc'.2.2.1⟩
  omega

end N2

namespace N2
open H2

def ssOf (I : Inst) (R : RoomFns) (ci toSize : Nat) : Nat :=
  max (R.quot ci toSize - (I.course ci).instructors.length) (I.course ci).numMin

def ShrNew (I : Inst) (B : Nat) (nd : Node) (cs : Nat × Nat) : Prop :=
  cs.1 < I.C ∧ cs.2 < B ∧ ∀ cs' ∈ nd.shrinked, cs'.1 = cs.1 → cs.2 < cs'.2
def CanNew (I : Inst) (nd : Node) (c : Nat) : Prop := c < I.C ∧ isFree nd c = true

theorem createRCS_prog (I : Inst) (R : RoomFns) (nd : Node) (toSize : Nat) (allReq : Bool) (B : Nat)
    (hB : ∀ ci, ci < I.C → ssOf I R ci toSize < B) :
    ∀ (l : List Nat) (sh : List (Nat × Nat)) (ca : List Nat) (r : RCS),
      createRCS I R nd toSize allReq l sh ca = some r → (∀ c ∈ l, c < I.C) →
      (∀ cs ∈ sh, ShrNew I B nd cs) → (∀ c ∈ ca, CanNew I nd c) →
      (∀ cs ∈ r.shrink, ShrNew I B nd cs) ∧ (∀ c ∈ r.cancel, CanNew I nd c) := by
  intro l
  induction l with
  | nil =>
    intro sh ca r h _ hsh hca
    simp only [createRCS, Option.some.injEq] at h
    rw [← h]; exact ⟨hsh, hca⟩
  | cons ci rest ih =>
    intro sh ca r h hl hsh hca
    have hci : ci < I.C := hl ci (by simp)
    have hrest : ∀ c ∈ rest, c < I.C := fun c hc => hl c (by simp [hc])
    unfold createRCS at h
    dsimp only at h
    split at h
    · split at h
      · contradiction
      · exact ih _ _ _ h hrest hsh hca
    · rename_i hnc
      split at h
      · split at h
        · split at h
          · contradiction
          · exact ih _ _ _ h hrest hsh hca
        · rename_i hnew
          apply ih _ _ _ h hrest _ hca
          intro cs hcs
          rw [List.mem_append] at hcs
          rcases hcs with hcs | hcs
          · exact hsh cs hcs
          · simp only [List.mem_singleton] at hcs
            subst hcs
            refine ⟨hci, hB ci hci, ?_⟩
            intro cs' hcs' he
            simp only [List.any_eq_true, not_exists, not_and, Bool.and_eq_true, beq_iff_eq,
              decide_eq_true_eq] at hnew
            have := hnew cs' hcs'
            simp only [he, Nat.not_le] at this
            exact this trivial
      · split at h
        · split at h
          · contradiction
          · exact ih _ _ _ h hrest hsh hca
        · rename_i hnf
          apply ih _ _ _ h hrest hsh
          intro c hc
          rw [List.mem_append] at hc
          rcases hc with hc | hc
          · exact hca c hc
          · simp only [List.mem_singleton] at hc
            subst hc
            simp only [Bool.or_eq_true, not_or, Bool.not_eq_true] at hnf
            refine ⟨hci, ?_⟩
            simp only [isFree, Bool.and_eq_true, Bool.not_eq_true']
            exact ⟨by simpa using hnc, hnf.1⟩

theorem checkRoom_prog (I : Inst) (R : RoomFns) (nd : Node) (a : Nat → Option Nat) (rooms : List Nat) (B : Nat)
    (hB : ∀ ci, ci < I.C → ∀ k, ssOf I R ci (rooms.getD k 0) < B)
    (b : Bool) (sets : List RCS) (h : checkRoom I R nd a rooms = .ok (b, sets)) :
    ∀ r ∈ sets, (∀ cs ∈ r.shrink, ShrNew I B nd cs) ∧ (∀ c ∈ r.cancel, CanNew I nd c) ∧
      (r.shrink ≠ [] ∨ r.cancel ≠ []) := by
  have hsrc : ∀ x ∈ stableByKey (effSizes I R a), x.1 < I.C :=
    fun x hx => effSizes_fst I R a x ((stable_mem _ x).1 hx)
  unfold checkRoom at h
  dsimp only at h
  split at h
  · simp only [Except.ok.injEq, Prod.mk.injEq] at h
    rw [← h.2]; simp
  · rename_i ci r0 _
    split at h
    · contradiction
    · split at h
      · contradiction
      · split at h
        · contradiction
        · rename_i always halways
          have hal := createRCS_prog I R nd _ _ B (fun c hc => hB c hc _) _ _ _ _ halways (by
            intro c hc
            simp only [List.mem_map, List.mem_filter] at hc
            obtain ⟨x, ⟨hx, _⟩, rfl⟩ := hc
            exact hsrc x hx) (by simp) (by simp)
          repeat' split at h
          all_goals first
            | contradiction
            | (rename_i hany
               simp only [Except.ok.injEq, Prod.mk.injEq] at h
               rw [← h.2]
               intro r hr
               have hne : r.shrink ≠ [] ∨ r.cancel ≠ [] := by
                 by_contra hcon
                 simp only [not_or, not_not] at hcon
                 apply hany
                 rw [List.any_eq_true]
                 exact ⟨r, hr, by simp [hcon.1, hcon.2]⟩
               refine ⟨?_, ?_, hne⟩ <;>
               · simp only [List.mem_filterMap, Option.map_eq_some_iff] at hr
                 obtain ⟨sel, hsel, r0, hr0, rfl⟩ := hr
                 have h0 := createRCS_prog I R nd _ _ B (fun c hc => hB c hc _) _ _ _ _ hr0 (by
                   intro c hc
                   simp only [List.mem_map] at hc
                   obtain ⟨x, hx, rfl⟩ := hc
                   have := selections_sub _ _ sel hsel x hx
                   exact hsrc x (List.mem_of_mem_drop (List.mem_of_mem_take this))) (by simp) (by simp)
                 intro x hx
                 simp only [List.mem_append] at hx
                 rcases hx with hx | hx
                 · first | exact h0.1 x hx | exact h0.2 x hx
                 · first | exact hal.1 x hx | exact hal.2 x hx)

#print axioms checkRoom_prog
end N2

namespace N2
open H2

/-- `NodeSpec.prog` for the node model: every child is strictly smaller in the measure `mu` -/
theorem node_prog (I : Inst) (R : RoomFns) (nd : Node) (B : Nat)
    (hB : ∀ rooms, I.roomSizes = some rooms → ∀ ci, ci < I.C → ∀ k, ssOf I R ci (rooms.getD k 0) < B)
    (kids : List Node) (sc : Nat) (h : runNodeS I R nd = .ok (.infeasible kids sc)) :
    ∀ k ∈ kids, mu I B k < mu I B nd := by
  unfold runNodeS at h
  split at h
  · rename_i r hg
    exfalso
    unfold guards at hg
    repeat' split at hg
    all_goals first
      | (simp only [Option.some.injEq] at hg; rw [← hg] at h; simp at h; done)
      | contradiction
  · split at h
    · contradiction
    · unfold post at h
      dsimp only at h
      split at h
      · contradiction
      · rename_i r hr
        unfold roomStage at hr
        split at hr
        · simp at hr
        · rename_i rooms hrooms
          split at hr
          · contradiction
          · simp at hr
          · rename_i sets hcr
            simp only [Except.ok.injEq, Option.some.injEq] at hr
            rw [← hr] at h
            simp only [Except.ok.injEq, Res.infeasible.injEq] at h
            rw [← h.1]
            intro k hk
            simp only [List.mem_map] at hk
            obtain ⟨r0, hr0, rfl⟩ := hk
            obtain ⟨h1, h2, h3⟩ := checkRoom_prog I R nd _ rooms B (hB rooms hrooms) _ _ hcr r0 hr0
            exact mu_room I B nd r0.shrink r0.cancel h1 h2 h3
      · unfold feasStage at h
        split at h
        · contradiction
        · simp at h
        · rename_i pprob bc hf
          simp only [Except.ok.injEq, Res.infeasible.injEq] at h
          rw [← h.1]
          intro k hk
          split at hk
          · simp at hk
          · rename_i c
            obtain ⟨hcC, hcc, hce⟩ := checkFeas_bc I nd _ _ _ _ c hf
            have hfree : isFree nd c = true := by simp [isFree, hcc, hce]
            simp only [List.mem_append] at hk
            rcases hk with hk | hk
            · split at hk
              · simp at hk
              · simp only [List.mem_singleton] at hk
                subst hk
                exact mu_enforce I B nd c hcC hfree
            · split at hk
              · simp at hk
              · simp only [List.mem_singleton] at hk
                subst hk
                exact mu_cancel I B nd c hcC hfree

#print axioms node_prog

/-- a bound `B` as `node_prog` needs it always exists (finitely many courses and rooms) -/
theorem exists_B (I : Inst) (R : RoomFns) : ∃ B, ∀ rooms, I.roomSizes = some rooms →
    ∀ ci, ci < I.C → ∀ k, ssOf I R ci (rooms.getD k 0) < B := by
  cases hr : I.roomSizes with
  | none => exact ⟨0, fun rooms h => by simp at h⟩
  | some rooms =>
    refine ⟨1 + ∑ ci ∈ range I.C, ∑ r ∈ (0 :: rooms).toFinset, ssOf I R ci r, ?_⟩
    intro rooms' h ci hci k
    simp only [Option.some.injEq] at h
    subst h
    have hmem : rooms.getD k 0 ∈ (0 :: rooms).toFinset := by
      simp only [List.toFinset_cons, mem_insert, List.mem_toFinset, List.getD_eq_getElem?_getD]
      cases hk : rooms[k]? with
      | none => left; rfl
      | some v => right; exact List.mem_of_getElem? hk
    have h1 : ssOf I R ci (rooms.getD k 0) ≤ ∑ r ∈ (0 :: rooms).toFinset, ssOf I R ci r :=
      single_le_sum (f := fun r => ssOf I R ci r) (fun _ _ => Nat.zero_le _) hmem
    have h2 : ∑ r ∈ (0 :: rooms).toFinset, ssOf I R ci r ≤ ∑ ci ∈ range I.C, ∑ r ∈ (0 :: rooms).toFinset, ssOf I R ci r :=
      single_le_sum (f := fun ci => ∑ r ∈ (0 :: rooms).toFinset, ssOf I R ci r) (fun _ _ => Nat.zero_le _)
        (mem_range.2 hci)
    omega

#print axioms exists_B
end N2
