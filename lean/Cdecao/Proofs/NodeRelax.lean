import Cdecao.Proofs.Relax
import Cdecao.Proofs.NodeProg
/-! Spike (C02/C03 core): the relaxation bound on the final-style node model. Any placement of the node's
    active participants into courses that respects the node's capacities and enforced minima weighs at
    most the Hungarian score of the node. -/
open Finset
namespace N2
open H2

/-- a relaxed-feasible placement of the active participants of node `nd` -/
structure Placement (I : Inst) (nd : Node) (g : Nat → Nat) : Prop where
  inC : ∀ p, p < I.P → skipXBase I nd p = false → g p < I.C
  cap : ∀ c, c < I.C → #((range I.P).filter (fun p => skipXBase I nd p = false ∧ g p = c)) ≤ effMax I nd c
  min : ∀ c, c ∈ nd.enforced → (I.course c).numMin ≤ #((range I.P).filter (fun p => skipXBase I nd p = false ∧ g p = c))

theorem weight_course (I : Inst) (x cp cp' : Nat) (h : I.colCourse cp = I.colCourse cp') :
    I.weight x cp = I.weight x cp' := by
  unfold Inst.weight; rw [h]

theorem relax_bound (I : Inst) (nd : Node) (hI : InstOK2 I)
    (hmm : ∀ c, c < I.C → (I.course c).numMin ≤ (I.course c).numMax) (hn : NodeOK2 I nd)
    (hg : guards I nd = none) (mm : Vec Nat) (hsc : Int) (hrun : H2.run (nodeInp I nd) = some (mm, hsc))
    (g : Nat → Nat) (hpl : Placement I nd g) :
    ((∑ p ∈ (range I.P).filter (fun p => skipXBase I nd p = false), G.weightOf I p (g p) : Nat) : Int) ≤ hsc := by
  classical
  obtain ⟨hpre, hu, hfit⟩ := guards_none I nd hg
  have hsq0 := node_square I nd hpre hu hfit
  obtain ⟨_, _, hopt⟩ := hung_partial (nodeInp I nd) hsq0 mm hsc hrun
  set X := (probOf (nodeInp I nd)).X with hX
  set Y := (probOf (nodeInp I nd)).Y with hY
  let Rr := X.filter (fun x => x < I.P)
  let D := X.filter (fun x => ¬ x < I.P)
  let Mand := Y.filter (fun cp => mandY I nd cp = true)
  have hun : Rr ∪ D = X := filter_union_filter_not_eq _ _
  have hPn : I.P ≤ I.n := by unfold Inst.n; omega
  have hR : Rr = (range I.P).filter (fun x => skipXBase I nd x = false) := by
    ext x
    simp only [Rr, hX, mem_filter, mem_X, InX, nodeInp, Vec.get_tab, mem_range]
    constructor
    · rintro ⟨⟨hxn, hs⟩, hxP⟩
      simp only [hxn, if_true, Bool.or_eq_false_iff] at hs
      exact ⟨hxP, hs.1⟩
    · rintro ⟨hxP, hs⟩
      have hxn : x < I.n := by omega
      refine ⟨⟨hxn, ?_⟩, hxP⟩
      simp only [hxn, if_true, hs, Bool.false_or, Bool.and_eq_false_iff, decide_eq_false_iff_not]
      left; omega
  have hYeq : Y = (range I.m).filter (fun cp => skipY I nd cp = false) := by
    ext cp; rw [hY, mem_Y_iff]; simp
  -- no mandatory column is skipped
  have hms : ∀ cp, cp < I.m → mandY I nd cp = true → skipY I nd cp = false := by
    intro cp hcp hm
    unfold guards at hg
    repeat' split at hg
    all_goals try contradiction
    rename_i hno
    simp only [List.any_eq_true, List.mem_range, Bool.and_eq_true, not_exists, not_and, Bool.not_eq_true] at hno
    exact hno cp hcp hm
  have hcapY : ∀ c, #(Rr.filter (fun p => g p = c)) ≤ #(Y.filter (fun y => I.colCourse y = c)) := by
    intro c
    have hRf : Rr.filter (fun p => g p = c) = (range I.P).filter (fun p => skipXBase I nd p = false ∧ g p = c) := by
      rw [hR, filter_filter]
    have hYf : Y.filter (fun y => I.colCourse y = c) = (range I.m).filter (fun cp => skipY I nd cp = false ∧ I.colCourse cp = c) := by
      rw [hYeq, filter_filter]
    rw [hRf, hYf]
    by_cases hc : c < I.C
    · rw [live_card I nd c hc]; exact hpl.cap c hc
    · have : (range I.P).filter (fun p => skipXBase I nd p = false ∧ g p = c) = ∅ := by
        rw [filter_eq_empty_iff]
        rintro p hp ⟨h1, h2⟩
        have := hpl.inC p (mem_range.1 hp) h1
        omega
      rw [this]; simp
  have hminY : ∀ c, #(Mand.filter (fun y => I.colCourse y = c)) ≤ #(Rr.filter (fun p => g p = c)) := by
    intro c
    have hRf : Rr.filter (fun p => g p = c) = (range I.P).filter (fun p => skipXBase I nd p = false ∧ g p = c) := by
      rw [hR, filter_filter]
    rw [hRf]
    by_cases hce : c ∈ nd.enforced
    · refine Nat.le_trans ?_ (hpl.min c hce)
      have hc := hn.enf c hce
      have hcols := Cols.mand_cols (numMaxOf I) (fun c => (I.course c).numMin) (fun c => nd.enforced.contains c)
        I.C c hc (hmm c hc) (by simpa [List.contains_iff_mem] using hce)
      have : #((range I.m).filter (fun cp => mandY I nd cp = true ∧ I.colCourse cp = c)) = (I.course c).numMin := by
        have h2 : (range I.m).filter (fun cp => mandY I nd cp = true ∧ I.colCourse cp = c)
            = (range (Cols.inv (numMaxOf I) I.C)).filter (fun cp =>
                Cols.mandY (numMaxOf I) (fun c => (I.course c).numMin) (fun c => nd.enforced.contains c) I.C cp = true ∧
                Cols.courseOf (numMaxOf I) I.C cp = c) := by
          rw [← inv_eq]
          apply filter_congr
          intro cp _
          rw [mandY_eq, Inst.colCourse, courseOf_eq]
        rw [h2, hcols]; simp
      rw [← this]
      apply card_le_card
      intro cp hcp
      simp only [Mand, hY, mem_filter, mem_Y_iff, mem_range] at hcp ⊢
      exact ⟨hcp.1.1.1, hcp.1.2, hcp.2⟩
    · have : Mand.filter (fun y => I.colCourse y = c) = ∅ := by
        rw [filter_eq_empty_iff]
        intro cp hcp hcc
        simp only [Mand, mem_filter, mandY, Bool.and_eq_true, List.contains_iff_mem] at hcp
        rw [hcc] at hcp
        exact hce hcp.2.1
      rw [this]; simp
  obtain ⟨σ, hσ1, hσ2, hσ3, hσ4⟩ := exists_matching_of_placement Rr D Y Mand I.colCourse g (filter_subset _ _)
    (by rw [hun]; exact hsq0) hcapY hminY
  rw [hun] at hσ1
  have hperf : Perfect (probOf (nodeInp I nd)) σ := by
    refine ⟨hσ1, hσ2, ?_⟩
    intro y hy
    have hym : y < I.m := ((mem_Y_iff I nd y).1 hy).1
    have hxn : σ y < I.n := ((mem_X _ _).1 (hσ1 y hy)).1
    show allowed (nodeInp I nd) (σ y) y = true
    simp only [allowed, nodeInp, Vec.get_tab, hxn, hym, if_true, Bool.not_eq_true', Bool.and_eq_false_iff,
      decide_eq_false_iff_not]
    by_cases hmand : mandY I nd y = true
    · left
      have : σ y ∈ Rr := hσ3 y (by simp only [Mand, mem_filter]; exact ⟨hy, hmand⟩)
      simp only [Rr, mem_filter] at this
      omega
    · right; simpa using hmand
  have hle := hopt σ hperf
  refine Int.le_trans ?_ hle
  -- the weight of σ dominates the placement's weight
  have hchoose : ∀ p ∈ Rr, ∃ y, y ∈ Y ∧ σ y = p ∧ I.colCourse y = g p := fun p hp => by
    obtain ⟨y, h1, h2, h3⟩ := hσ4 p hp; exact ⟨y, h1, h2, h3⟩
  choose! yof hy1 hy2 hy3 using hchoose
  have hinj : Set.InjOn yof Rr := by
    intro p1 h1 p2 h2 he
    have e1 := hy2 p1 h1
    have e2 := hy2 p2 h2
    rw [he] at e1
    exact e1.symm.trans e2
  rw [← sum_cast, ← hR]
  have hterm : ∀ p ∈ Rr, ((G.weightOf I p (g p) : Nat) : Int) = (nodeInp I nd).wt (σ (yof p)) (yof p) := by
    intro p hp
    have hym : yof p < I.m := ((mem_Y_iff I nd (yof p)).1 (hy1 p hp)).1
    have hpP : p < I.P := by simp only [Rr, mem_filter] at hp; exact hp.2
    have hpn : p < I.n := by omega
    rw [hy2 p hp, wt_eq I nd _ _ hpn hym, ← hy3 p hp, ← wN_real I p _ hpP, wN,
      Int.toNat_of_nonneg (weight_nonneg I hI.pen _ _)]
  rw [sum_congr rfl hterm, ← sum_image (f := fun y => (nodeInp I nd).wt (σ y) y) hinj]
  unfold weight
  apply sum_le_sum_of_subset_of_nonneg
  · intro y hy
    obtain ⟨p, hp, rfl⟩ := mem_image.1 hy
    exact hy1 p hp
  · intro y hy _
    have hym : y < I.m := ((mem_Y_iff I nd y).1 hy).1
    have hxn : σ y < I.n := ((mem_X _ _).1 (hσ1 y hy)).1
    show 0 ≤ (nodeInp I nd).wt (σ y) y
    rw [wt_eq I nd _ _ hxn hym]
    exact weight_nonneg I hI.pen _ _

#print axioms relax_bound
end N2
