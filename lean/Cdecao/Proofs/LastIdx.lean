import Cdecao.Model.Cdedb

/-!
# `lastIdx`: the index of the last hit

Characterisation of `CD.lastIdx` (used by `CD.courseIndex`): the result is in range, satisfies the
predicate, nothing later does; `none` exactly when nothing satisfies the predicate; and when at most
one position satisfies the predicate it agrees with `List.findIdx?`.
-/

namespace CD

theorem lastIdx_eq_none_iff {α : Type} (p : α → Bool) :
    ∀ (l : List α) (k : Nat), lastIdx p l k = none ↔ ∀ x ∈ l, p x = false := by
  intro l
  induction l with
  | nil => intro k; simp [lastIdx]
  | cons a l ih =>
    intro k
    unfold lastIdx
    cases h : lastIdx p l (k + 1) with
    | some i =>
      have : ¬ ∀ x ∈ l, p x = false := fun hall => by
        have := (ih (k + 1)).2 hall
        rw [h] at this; cases this
      simp only [reduceCtorEq, List.mem_cons, forall_eq_or_imp, false_iff, not_and]
      intro _; exact this
    | none =>
      have := (ih (k + 1)).1 h
      cases hp : p a with
      | false =>
        simp only [Bool.false_eq_true, if_false, List.mem_cons, forall_eq_or_imp, true_iff]
        exact ⟨hp, this⟩
      | true =>
        simp only [if_true, reduceCtorEq, List.mem_cons, forall_eq_or_imp, false_iff, not_and]
        intro hc; rw [hp] at hc; cases hc

/-- general form, counting from `k` -/
theorem lastIdx_eq_some_iff_aux {α : Type} (p : α → Bool) :
    ∀ (l : List α) (k i : Nat), lastIdx p l k = some i ↔
      ∃ j, i = k + j ∧ ∃ h : j < l.length, p l[j] = true ∧
        ∀ j' (h' : j' < l.length), j < j' → p l[j'] = false := by
  intro l
  induction l with
  | nil => intro k i; simp [lastIdx]
  | cons a l ih =>
    intro k i
    unfold lastIdx
    cases h : lastIdx p l (k + 1) with
    | some i0 =>
      obtain ⟨j, rfl, hj, hpj, hlater⟩ := (ih (k + 1) i0).1 h
      simp only [Option.some.injEq]
      constructor
      · rintro rfl
        refine ⟨j + 1, by omega, by simpa using hj, by simpa using hpj, ?_⟩
        intro j' h' hlt
        obtain ⟨j'', rfl⟩ : ∃ j'', j' = j'' + 1 := ⟨j' - 1, by omega⟩
        simpa using hlater j'' (by simpa using h') (by omega)
      · rintro ⟨j2, rfl, hj2, hpj2, hlater2⟩
        rcases Nat.lt_trichotomy j2 (j + 1) with hlt | heq | hgt
        · have := hlater2 (j + 1) (by simpa using hj) hlt
          simp only [List.getElem_cons_succ] at this
          rw [hpj] at this; cases this
        · omega
        · obtain ⟨j'', rfl⟩ : ∃ j'', j2 = j'' + 1 := ⟨j2 - 1, by omega⟩
          have := hlater j'' (by simpa using hj2) (by omega)
          simp only [List.getElem_cons_succ] at hpj2
          rw [hpj2] at this; cases this
    | none =>
      have hall := (lastIdx_eq_none_iff p l (k + 1)).1 h
      cases hp : p a with
      | false =>
        simp only [Bool.false_eq_true, if_false, reduceCtorEq, false_iff, not_exists, not_and]
        rintro j - hj hpj -
        cases j with
        | zero => simp [hp] at hpj
        | succ j =>
          simp only [List.getElem_cons_succ] at hpj
          rw [hall _ (List.getElem_mem _)] at hpj; cases hpj
      | true =>
        simp only [if_true, Option.some.injEq]
        constructor
        · rintro rfl
          refine ⟨0, rfl, by simp, by simpa using hp, ?_⟩
          intro j' h' hlt
          obtain ⟨j'', rfl⟩ : ∃ j'', j' = j'' + 1 := ⟨j' - 1, by omega⟩
          simp only [List.getElem_cons_succ]
          exact hall _ (List.getElem_mem _)
        · rintro ⟨j, rfl, hj, hpj, -⟩
          cases j with
          | zero => rfl
          | succ j =>
            simp only [List.getElem_cons_succ] at hpj
            rw [hall _ (List.getElem_mem _)] at hpj; cases hpj

/-- **`lastIdx` from 0**: the result is the last position satisfying `p` -/
theorem lastIdx_eq_some_iff {α : Type} (p : α → Bool) (l : List α) (i : Nat) :
    lastIdx p l 0 = some i ↔
      ∃ h : i < l.length, p l[i] = true ∧ ∀ j (h' : j < l.length), i < j → p l[j] = false := by
  rw [lastIdx_eq_some_iff_aux]
  constructor
  · rintro ⟨j, hij, h⟩
    obtain rfl : i = j := by omega
    exact h
  · intro h; exact ⟨i, by omega, h⟩

/-- when at most one position satisfies `p`, last = first -/
theorem lastIdx_eq_findIdx?_of_unique {α : Type} (p : α → Bool) (l : List α)
    (hu : ∀ i j (hi : i < l.length) (hj : j < l.length), p l[i] = true → p l[j] = true → i = j) :
    lastIdx p l 0 = l.findIdx? p := by
  cases hf : l.findIdx? p with
  | none =>
    rw [List.findIdx?_eq_none_iff] at hf
    rw [lastIdx_eq_none_iff]
    intro x hx; simpa using hf x hx
  | some i =>
    obtain ⟨hi, hp, _⟩ := List.findIdx?_eq_some_iff_getElem.1 hf
    rw [lastIdx_eq_some_iff]
    refine ⟨hi, hp, ?_⟩
    intro j hj hlt
    cases hpj : p l[j] with
    | false => rfl
    | true => have := hu i j hi hj hp hpj; omega

/-! ## `courseIndex` -/

/-- `courseIndex` resolves `id` to a kept course exactly when `id` is not skipped and `c` is the
    last position of `co.courses` with that database id -/
theorem courseIndex_eq_some_some_iff (co : CoursesOut) (id c : Nat) :
    courseIndex co id = some (some c) ↔
      id ∉ co.skipped ∧ ∃ h : c < co.courses.length, (co.courses[c]).dbid = id ∧
        ∀ j (h' : j < co.courses.length), c < j → (co.courses[j]).dbid ≠ id := by
  unfold courseIndex
  by_cases hs : co.skipped.contains id = true
  · rw [if_pos hs]
    have : id ∈ co.skipped := by simpa using hs
    simp [this]
  · rw [if_neg hs]
    have hs' : id ∉ co.skipped := by simpa using hs
    cases hf : lastIdx (fun c => c.dbid == id) co.courses 0 with
    | none =>
      have hall := (lastIdx_eq_none_iff _ _ _).1 hf
      simp only [reduceCtorEq, false_iff, not_and, not_exists]
      intro _ h hd _
      have := hall _ (List.getElem_mem h)
      simp [hd] at this
    | some i =>
      simp only [Option.some.injEq]
      constructor
      · rintro rfl
        obtain ⟨h, hp, hl⟩ := (lastIdx_eq_some_iff _ _ _).1 hf
        refine ⟨hs', h, by simpa using hp, ?_⟩
        intro j h' hlt; simpa using hl j h' hlt
      · rintro ⟨_, h, hp, hl⟩
        have : lastIdx (fun c => c.dbid == id) co.courses 0 = some c := by
          rw [lastIdx_eq_some_iff]
          exact ⟨h, by simpa using hp, fun j h' hlt => by simpa using hl j h' hlt⟩
        rw [hf] at this; cases this; rfl

theorem courseIndex_eq_some_none_iff (co : CoursesOut) (id : Nat) :
    courseIndex co id = some none ↔ id ∈ co.skipped := by
  unfold courseIndex
  by_cases hs : co.skipped.contains id = true
  · rw [if_pos hs]; simpa using hs
  · rw [if_neg hs]
    have hs' : id ∉ co.skipped := by simpa using hs
    cases hf : lastIdx (fun c => c.dbid == id) co.courses 0 <;> simp [hs']

theorem courseIndex_eq_none_iff (co : CoursesOut) (id : Nat) :
    courseIndex co id = none ↔ id ∉ co.skipped ∧ ∀ c ∈ co.courses, c.dbid ≠ id := by
  unfold courseIndex
  by_cases hs : co.skipped.contains id = true
  · rw [if_pos hs]
    have : id ∈ co.skipped := by simpa using hs
    simp [this]
  · rw [if_neg hs]
    have hs' : id ∉ co.skipped := by simpa using hs
    cases hf : lastIdx (fun c => c.dbid == id) co.courses 0 with
    | none =>
      have hall := (lastIdx_eq_none_iff _ _ _).1 hf
      simp only [true_iff]
      exact ⟨hs', fun c hc => by simpa using hall c hc⟩
    | some i =>
      obtain ⟨h, hp, _⟩ := (lastIdx_eq_some_iff _ _ _).1 hf
      simp only [reduceCtorEq, false_iff, not_and]
      intro _ hall
      exact hall _ (List.getElem_mem h) (by simpa using hp)

end CD
