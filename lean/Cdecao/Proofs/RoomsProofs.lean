import Cdecao.Model.Rooms
import Batteries.Data.List.Perm
/-! # C18 plumbing: from the rank-wise double loop `RS.possible` to the per-course listing
    `RM.possibleByCourse` (sorting permutation, descending room list, `dedup`), and the link between
    the executable specification (`RM.fits`, `RM.usable`, `RM.specSound`, `RM.specNonempty`) and the
    `Prop` statements (`RS.Feasible`, `RS.Alloc`). -/
namespace RMP
open RM RS

/-! ### descending lists -/

/-- sortedness notion used throughout: pairwise `≥` -/
def GE (l : List Nat) : Prop := l.Pairwise (fun a b => b ≤ a)

theorem sortDesc_perm (l : List Nat) : (sortDesc l).Perm l := List.mergeSort_perm _ _

theorem sortDesc_GE (l : List Nat) : GE (sortDesc l) := by
  have h := List.pairwise_mergeSort (le := fun a b : Nat => decide (b ≤ a))
    (by intro a b c h1 h2; simp only [decide_eq_true_eq] at *; omega)
    (by intro a b; simp only [Bool.or_eq_true, decide_eq_true_eq]; omega) l
  exact h.imp (by intro a b h; simpa using h)

theorem mem_sortDesc (l : List Nat) (v : Nat) : v ∈ sortDesc l ↔ v ∈ l := (sortDesc_perm l).mem_iff

theorem length_sortDesc (l : List Nat) : (sortDesc l).length = l.length := (sortDesc_perm l).length_eq

/-- two descending permutations of each other are equal -/
theorem GE.eq_of_perm {l₁ l₂ : List Nat} (h₁ : GE l₁) (h₂ : GE l₂) (h : l₁.Perm l₂) : l₁ = l₂ :=
  List.Perm.eq_of_pairwise (le := fun a b => b ≤ a) (by intro a b _ _ h1 h2; omega) h₁ h₂ h

theorem sortDesc_eq_of {l s : List Nat} (hs : GE s) (h : s.Perm l) : sortDesc l = s :=
  GE.eq_of_perm (sortDesc_GE l) hs ((sortDesc_perm l).trans h.symm)

/-- a descending list read with default 0 is an antitone function on all of `Nat` -/
theorem GE.anti {l : List Nat} (h : GE l) (i j : Nat) (hij : i ≤ j) : l.getD j 0 ≤ l.getD i 0 := by
  by_cases hj : j < l.length
  · rcases Nat.lt_or_eq_of_le hij with hlt | rfl
    · have := (List.pairwise_iff_getElem.mp h) i j (by omega) hj hlt
      simpa [List.getD_eq_getElem?_getD, List.getElem?_eq_getElem, hj, show i < l.length by omega] using this
    · exact Nat.le_refl _
  · simp [List.getD_eq_getElem?_getD, List.getElem?_eq_none (Nat.le_of_not_lt hj)]

theorem GE.desc {l : List Nat} (h : GE l) : Desc l := fun i j hij _ => h.anti i j hij

theorem Desc.ge {l : List Nat} (h : Desc l) : GE l := by
  refine List.pairwise_iff_getElem.mpr ?_
  intro i j hi hj hij
  have := h i j (Nat.le_of_lt hij) hj
  simpa [List.getD_eq_getElem?_getD, List.getElem?_eq_getElem, hi, hj] using this

/-- `sort_by_key` + `reverse` of the rooms: `RM.sortDesc` yields a descending permutation -/
theorem sortDesc_desc (l : List Nat) : Desc (sortDesc l) := (sortDesc_GE l).desc

/-! ### the rank order (`RM.orderOk`) -/

/-- what `RM.orderOk` checks -/
structure OrderFacts (sizes order : List Nat) : Prop where
  len : order.length = sizes.length
  perm : (List.range sizes.length).Perm order
  ge : GE (order.map (fun c => sizes.getD c 0))

theorem orderOk_facts {sizes order : List Nat} (h : orderOk sizes order = true) :
    OrderFacts sizes order := by
  simp only [orderOk, Bool.and_eq_true, beq_iff_eq, List.all_eq_true, List.mem_range,
    decide_eq_true_eq] at h
  obtain ⟨⟨hlen, hcount⟩, hadj⟩ := h
  refine ⟨hlen, ?_, ?_⟩
  · have hsub : (List.range sizes.length) ⊆ order := by
      intro c hc
      have := hcount c (List.mem_range.mp hc)
      exact List.count_pos_iff.mp (by omega)
    exact (List.subperm_of_subset List.nodup_range hsub).perm_of_length_le (by simp [hlen])
  · refine List.pairwise_iff_getElem.mpr ?_
    intro i j hi hj hij
    simp only [List.length_map] at hi hj
    simp only [List.getElem_map]
    have key : ∀ d, (hd : i + d < order.length) →
        sizes.getD order[i + d] 0 ≤ sizes.getD order[i] 0 := by
      intro d
      induction d with
      | zero => intro _; exact Nat.le_refl _
      | succ d ih =>
        intro hd
        have h1 := ih (by omega)
        have h2 := hadj (i + d) (by omega)
        simp only [List.getD_eq_getElem?_getD] at h2
        rw [List.getElem?_eq_getElem (show i + d + 1 < order.length by omega),
          List.getElem?_eq_getElem (show i + d < order.length by omega)] at h2
        simp only [Option.getD_some, ← List.getD_eq_getElem?_getD] at h2
        exact Nat.le_trans h2 h1
    have := key (j - i) (by omega)
    simpa [show i + (j - i) = j by omega] using this

theorem orderOk_iff {sizes order : List Nat} : orderOk sizes order = true ↔ OrderFacts sizes order := by
  refine ⟨orderOk_facts, ?_⟩
  rintro ⟨hlen, hperm, hge⟩
  simp only [orderOk, Bool.and_eq_true, beq_iff_eq, List.all_eq_true, List.mem_range,
    decide_eq_true_eq]
  refine ⟨⟨hlen, ?_⟩, ?_⟩
  · intro c hc
    rw [← hperm.count_eq]
    have h1 := List.nodup_iff_count.mp (List.nodup_range (n := sizes.length)) c
    have h2 := List.count_pos_iff.mpr (List.mem_range.mpr hc)
    omega
  · intro i hi
    have := hge.anti i (i + 1) (by omega)
    simp only [List.getD_eq_getElem?_getD, List.getElem?_map] at this
    rw [List.getElem?_eq_getElem (show i + 1 < order.length by omega),
      List.getElem?_eq_getElem (show i < order.length by omega)] at this
    simpa [List.getD_eq_getElem?_getD, List.getElem?_eq_getElem, show i + 1 < order.length by omega,
      show i < order.length by omega] using this

namespace OrderFacts
variable {sizes order : List Nat} (F : OrderFacts sizes order)
include F

theorem nodup : order.Nodup := F.perm.nodup List.nodup_range

theorem mem_iff (c : Nat) : c ∈ order ↔ c < sizes.length := by
  rw [← F.perm.mem_iff, List.mem_range]

/-- rank of a course -/
theorem idx_lt {c : Nat} (hc : c < sizes.length) : order.idxOf c < order.length :=
  List.idxOf_lt_length_of_mem ((F.mem_iff c).mpr hc)

theorem get_idx {c : Nat} (hc : c < sizes.length) : order.getD (order.idxOf c) 0 = c := by
  have h := F.idx_lt hc
  simp [List.getD_eq_getElem?_getD, h]

theorem idx_inj {c1 c2 : Nat} (h1 : c1 < sizes.length) (h2 : c2 < sizes.length)
    (h : order.idxOf c1 = order.idxOf c2) : c1 = c2 := by
  rw [← F.get_idx h1, ← F.get_idx h2, h]

/-- the sizes by rank are a permutation of the sizes by course -/
theorem perm_sizes : (order.map (fun c => sizes.getD c 0)).Perm sizes := by
  have h1 := (F.perm.map (fun c => sizes.getD c 0)).symm
  have h2 : (List.range sizes.length).map (fun c => sizes.getD c 0) = sizes := by
    apply List.ext_getElem
    · simp
    · intro i h1 h2
      simp [List.getD_eq_getElem?_getD, h2]
  rw [h2] at h1
  exact h1

end OrderFacts

/-- the derived rank-wise instance -/
def inst (sizes order rooms : List Nat) : RS.In :=
  { S := order.map (fun c => sizes.getD c 0), R := sortDesc rooms }

theorem possibleByCourse_eq (sizes order rooms : List Nat) :
    possibleByCourse sizes order rooms =
      (List.range sizes.length).map (fun c => dedupAdj (RS.slot (RS.possible (inst sizes order rooms)) (order.idxOf c))) := rfl

theorem inst_num {sizes order : List Nat} (F : OrderFacts sizes order) (rooms : List Nat) :
    (inst sizes order rooms).num = sizes.length := by simp [inst, In.num, F.len]

theorem inst_s {sizes order : List Nat} (F : OrderFacts sizes order) (rooms : List Nat) {c : Nat}
    (hc : c < sizes.length) : (inst sizes order rooms).s (order.idxOf c) = sizes.getD c 0 := by
  have h := F.idx_lt hc
  simp [inst, In.s, List.getD_eq_getElem?_getD, h]

/-! ### `RM.fits` = rank-wise comparison of ANY descending arrangements -/

theorem getD_zero_of_all {l : List Nat} (h : ∀ b ∈ l, b = 0) (i : Nat) : l.getD i 0 = 0 := by
  rw [List.getD_eq_getElem?_getD]
  cases hg : l[i]? with
  | none => rfl
  | some b => exact h b (List.mem_of_getElem? hg)

/-- dropping the zeros of a descending list does not change it as a function with default 0 -/
theorem GE.filter_getD {l : List Nat} (h : GE l) (i : Nat) :
    (l.filter (· > 0)).getD i 0 = l.getD i 0 := by
  induction l generalizing i with
  | nil => rfl
  | cons a l ih =>
    have hl : GE l := List.Pairwise.of_cons h
    have ha : ∀ b ∈ l, b ≤ a := fun b hb => List.rel_of_pairwise_cons h hb
    by_cases hp : a > 0
    · simp only [List.filter_cons, hp, decide_true, if_true]
      cases i with
      | zero => rfl
      | succ i => simpa using ih hl i
    · have h0 : ∀ b ∈ a :: l, b = 0 := by
        intro b hb
        rcases List.mem_cons.mp hb with rfl | hb
        · omega
        · have := ha b hb; omega
      rw [getD_zero_of_all h0]
      apply getD_zero_of_all
      intro b hb
      exact h0 b (List.mem_filter.mp hb).1

theorem fits_iff {sizes rooms S R : List Nat} (hS : GE S) (hSp : S.Perm sizes) (hR : GE R)
    (hRp : R.Perm rooms) : fits sizes rooms = true ↔ ∀ i, S.getD i 0 ≤ R.getD i 0 := by
  have e1 : sortDesc rooms = R := sortDesc_eq_of hR hRp
  have e2 : sortDesc (sizes.filter (· > 0)) = S.filter (· > 0) :=
    sortDesc_eq_of (List.Pairwise.filter _ hS) (hSp.filter _)
  unfold fits
  simp only [e1, e2, List.all_eq_true, List.mem_range, decide_eq_true_eq, hS.filter_getD]
  constructor
  · intro h i
    by_cases hi : i < (S.filter (· > 0)).length
    · exact h i hi
    · rw [← hS.filter_getD]
      simp [List.getD_eq_getElem?_getD, List.getElem?_eq_none (Nat.le_of_not_lt hi)]
  · intro h i _; exact h i

/-- `RM.fits` is rank-wise feasibility of the derived instance -/
theorem fits_iff_feasible {sizes order : List Nat} (F : OrderFacts sizes order) (rooms : List Nat) :
    fits sizes rooms = true ↔ Feasible (inst sizes order rooms) := by
  rw [fits_iff F.ge F.perm_sizes (sortDesc_GE rooms) (sortDesc_perm rooms)]
  constructor
  · intro h i _ hpos
    have := h i
    refine ⟨?_, this⟩
    apply Decidable.byContradiction
    intro hlt
    have hlt' : (sortDesc rooms).length ≤ i := Nat.le_of_not_lt hlt
    have h0 : (sortDesc rooms).getD i 0 = 0 := by
      simp [List.getD_eq_getElem?_getD, List.getElem?_eq_none hlt']
    simp only [In.s, inst] at hpos
    omega
  · intro h i
    by_cases hpos : 0 < (inst sizes order rooms).s i
    · have hi : i < (inst sizes order rooms).num := by
        apply Decidable.byContradiction
        intro hlt
        have : (inst sizes order rooms).s i = 0 := by
          simp only [In.s, In.num] at *
          simp [List.getD_eq_getElem?_getD, List.getElem?_eq_none (Nat.le_of_not_lt hlt)]
        omega
      exact (h i hi hpos).2
    · simp only [In.s, inst] at hpos
      omega

/-! ### rank-level soundness with an injective allocation, index transport along a permutation -/

theorem swap_inj (a b i1 i2 : Nat) (h : swap a b i1 = swap a b i2) : i1 = i2 := by
  unfold swap at h
  split at h <;> split at h <;> (try split at h) <;> (try split at h) <;> omega

/-- `RS.possible_sound`, additionally: the allocation is injective on all ranks and the course's own
    room index is in range even if the course does not take place -/
theorem possible_sound_inj (I : In) (hR : Desc I.R) (hF : Feasible I) (x v : Nat)
    (h : v ∈ slot (possible I) x) :
    v ∈ I.R ∧ ∃ f, Alloc I f ∧ (∀ i1 i2, f i1 = f i2 → i1 = i2) ∧ f x < I.R.length ∧ I.r (f x) = v := by
  have hmem : ∀ j, j < I.R.length → I.r j ∈ I.R := by
    intro j hj
    simp [In.r, List.getD_eq_getElem?_getD, hj]
  rcases possible_mem I x v h with ⟨j, hj, rfl⟩ | ⟨i, hi, _, rfl⟩
  · obtain ⟨h1, h2, h3⟩ := mem_js hj
    have e : swap x j x = j := by simp [swap]
    exact ⟨hmem j h2, swap x j, swap_alloc I hR hF x j h1 h2 h3, swap_inj x j, by rw [e]; exact h2,
      by rw [e]⟩
  · obtain ⟨h1, h2, h3⟩ := mem_js hi
    have e : swap i x x = i := by
      unfold swap
      by_cases e : x = i
      · simp [e]
      · simp [e]
    exact ⟨hmem i (by omega), swap i x, swap_alloc I hR hF i x h1 h2 h3, swap_inj i x,
      by rw [e]; omega, by rw [e]⟩

/-- a permutation of lists as an injective map of indices -/
theorem perm_idx {l₁ l₂ : List Nat} (h : l₁.Perm l₂) :
    ∃ σ : Nat → Nat, (∀ i j, σ i = σ j → i = j) ∧ ∀ i, l₁[i]? = l₂[σ i]? := by
  induction h with
  | nil => exact ⟨id, fun _ _ h => h, fun _ => rfl⟩
  | cons a _ ih =>
    obtain ⟨σ, hinj, hget⟩ := ih
    refine ⟨fun i => match i with | 0 => 0 | i + 1 => σ i + 1, ?_, ?_⟩
    · intro i j hij
      cases i <;> cases j <;> simp at hij
      · rfl
      · rw [hinj _ _ hij]
    · intro i
      cases i with
      | zero => rfl
      | succ i => simpa using hget i
  | swap a b l =>
    refine ⟨swap 0 1, swap_inj 0 1, ?_⟩
    intro i
    match i with
    | 0 => rfl
    | 1 => rfl
    | i + 2 => simp [swap]
  | trans _ _ ih1 ih2 =>
    obtain ⟨σ1, hinj1, hget1⟩ := ih1
    obtain ⟨σ2, hinj2, hget2⟩ := ih2
    exact ⟨fun i => σ2 (σ1 i), fun i j h => hinj1 _ _ (hinj2 _ _ h), fun i => by rw [hget1, hget2]⟩

theorem idx_lt_of_get {R rooms : List Nat} {σ : Nat → Nat} (hget : ∀ i, R[i]? = rooms[σ i]?) {i : Nat}
    (hi : i < R.length) : σ i < rooms.length := by
  have h := hget i
  rw [List.getElem?_eq_getElem hi] at h
  apply Decidable.byContradiction
  intro hn
  rw [List.getElem?_eq_none (Nat.le_of_not_lt hn)] at h
  cases h

/-! ### the statement by course -/

/-- a complete allocation of distinct room indices (into the rooms list as given) to all courses
    that take place (positive effective size) -/
structure CAlloc (sizes rooms : List Nat) (g : Nat → Nat) : Prop where
  lt : ∀ c, c < sizes.length → 0 < sizes.getD c 0 → g c < rooms.length
  fits : ∀ c, c < sizes.length → 0 < sizes.getD c 0 → sizes.getD c 0 ≤ rooms.getD (g c) 0
  inj : ∀ c1 c2, c1 < sizes.length → c2 < sizes.length → 0 < sizes.getD c1 0 → 0 < sizes.getD c2 0 →
    g c1 = g c2 → c1 = c2

/-- transfer of a rank-wise allocation through the sorting permutation and the room sort -/
theorem calloc_of_alloc {sizes order rooms : List Nat} (F : OrderFacts sizes order) {f : Nat → Nat}
    (hA : Alloc (inst sizes order rooms) f) {σ : Nat → Nat} (hinj : ∀ i j, σ i = σ j → i = j)
    (hget : ∀ i, (sortDesc rooms)[i]? = rooms[σ i]?) :
    CAlloc sizes rooms (fun c => σ (f (order.idxOf c))) := by
  have hnum := inst_num F rooms
  have hlt : ∀ i, i < (sortDesc rooms).length → σ i < rooms.length := fun i hi => idx_lt_of_get hget hi
  have hr : ∀ i, (inst sizes order rooms).r i = rooms.getD (σ i) 0 := by
    intro i
    simp only [In.r, inst, List.getD_eq_getElem?_getD, hget i]
  refine ⟨?_, ?_, ?_⟩
  · intro c hc hpos
    have hi : order.idxOf c < (inst sizes order rooms).num := by rw [hnum, ← F.len]; exact F.idx_lt hc
    exact hlt _ (hA.lt _ hi (by rw [inst_s F rooms hc]; exact hpos))
  · intro c hc hpos
    have hi : order.idxOf c < (inst sizes order rooms).num := by rw [hnum, ← F.len]; exact F.idx_lt hc
    have := hA.fits _ hi (by rw [inst_s F rooms hc]; exact hpos)
    rw [inst_s F rooms hc, hr] at this
    exact this
  · intro c1 c2 h1 h2 p1 p2 h
    have hi1 : order.idxOf c1 < (inst sizes order rooms).num := by rw [hnum, ← F.len]; exact F.idx_lt h1
    have hi2 : order.idxOf c2 < (inst sizes order rooms).num := by rw [hnum, ← F.len]; exact F.idx_lt h2
    exact F.idx_inj h1 h2 (hA.inj _ _ hi1 hi2 (by rw [inst_s F rooms h1]; exact p1)
      (by rw [inst_s F rooms h2]; exact p2) (hinj _ _ h))

theorem mem_dedupAdj (l : List Nat) (v : Nat) : v ∈ dedupAdj l ↔ v ∈ l := by
  induction l using dedupAdj.induct with
  | case1 => simp [dedupAdj]
  | case2 x => simp [dedupAdj]
  | case3 x y rest heq ih =>
    have : x = y := by simpa using heq
    subst this
    simp only [dedupAdj, heq, if_true, ih, List.mem_cons]
    constructor
    · rintro (h | h)
      · exact Or.inl h
      · exact Or.inr (Or.inr h)
    · rintro (h | h | h)
      · exact Or.inl h
      · exact Or.inl h
      · exact Or.inr h
  | case4 x y rest hne ih =>
    have hne' : (x == y) = false := by simpa using hne
    rw [dedupAdj, hne']
    simp only [Bool.false_eq_true, if_false, List.mem_cons]
    rw [ih]
    simp

/-- the entry of course `c` in the listing -/
theorem getD_possibleByCourse (sizes order rooms : List Nat) {c : Nat} (hc : c < sizes.length) :
    (possibleByCourse sizes order rooms).getD c [] =
      dedupAdj (slot (possible (inst sizes order rooms)) (order.idxOf c)) := by
  simp [possibleByCourse_eq, List.getD_eq_getElem?_getD, hc]

theorem length_possibleByCourse (sizes order rooms : List Nat) :
    (possibleByCourse sizes order rooms).length = sizes.length := by
  simp [possibleByCourse_eq]

theorem mem_possibleByCourse (sizes order rooms : List Nat) {c : Nat} (hc : c < sizes.length) (v : Nat) :
    v ∈ (possibleByCourse sizes order rooms).getD c [] ↔
      v ∈ slot (possible (inst sizes order rooms)) (order.idxOf c) := by
  rw [getD_possibleByCourse sizes order rooms hc, mem_dedupAdj]

/-- **C18 end to end, soundness.** With a sorting permutation `order` and a room-feasible assignment,
    every room size `v` listed for course `c` is large enough, is the size of an existing room, and
    there is a complete allocation `g` of distinct room indices (into `rooms`) to all courses that
    take place in which `c` gets a room of size `v`; `c`'s room is in range and distinct from the
    rooms of all other courses even if `c` itself does not take place. -/
theorem possibleByCourse_sound {sizes order rooms : List Nat} (hO : orderOk sizes order = true)
    (hF : fits sizes rooms = true) (c : Nat) (hc : c < sizes.length) (v : Nat)
    (hv : v ∈ (possibleByCourse sizes order rooms).getD c []) :
    sizes.getD c 0 ≤ v ∧ v ∈ rooms ∧
    ∃ g : Nat → Nat, CAlloc sizes rooms g ∧ g c < rooms.length ∧ rooms.getD (g c) 0 = v ∧
      ∀ c', c' < sizes.length → g c' = g c → c' = c := by
  have F := orderOk_facts hO
  have hFe := (fits_iff_feasible F rooms).mp hF
  have hR : Desc (inst sizes order rooms).R := sortDesc_desc rooms
  rw [mem_possibleByCourse sizes order rooms hc] at hv
  have hx : order.idxOf c < (inst sizes order rooms).num := by
    rw [inst_num F rooms, ← F.len]; exact F.idx_lt hc
  obtain ⟨h1, _⟩ := possible_sound _ hR hFe _ v hx hv
  obtain ⟨h2, f, hA, hfinj, hflt, hfv⟩ := possible_sound_inj _ hR hFe _ v hv
  obtain ⟨σ, hσ, hget⟩ := perm_idx (sortDesc_perm rooms)
  rw [inst_s F rooms hc] at h1
  refine ⟨h1, (mem_sortDesc rooms v).mp h2, fun c => σ (f (order.idxOf c)),
    calloc_of_alloc F hA hσ hget, ?_, ?_, ?_⟩
  · exact idx_lt_of_get hget hflt
  · rw [← hfv]
    simp only [In.r, inst, List.getD_eq_getElem?_getD, hget]
  · intro c' hc' h
    exact F.idx_inj hc' hc (hfinj _ _ (hσ _ _ h))

/-- **C18 end to end, non-emptiness.** Every course that takes place is offered at least one room
    size (namely the room at its own rank). -/
theorem possibleByCourse_nonempty {sizes order rooms : List Nat} (hO : orderOk sizes order = true)
    (hF : fits sizes rooms = true) (c : Nat) (hc : c < sizes.length) (hpos : 0 < sizes.getD c 0) :
    (sortDesc rooms).getD (order.idxOf c) 0 ∈ (possibleByCourse sizes order rooms).getD c [] ∧
    (possibleByCourse sizes order rooms).getD c [] ≠ [] := by
  have F := orderOk_facts hO
  have hFe := (fits_iff_feasible F rooms).mp hF
  have hx : order.idxOf c < (inst sizes order rooms).num := by
    rw [inst_num F rooms, ← F.len]; exact F.idx_lt hc
  have h := possible_nonempty _ hFe _ hx (by rw [inst_s F rooms hc]; exact hpos)
  have h' := (mem_possibleByCourse sizes order rooms hc _).mpr h
  exact ⟨h', List.ne_nil_of_mem h'⟩

/-! ### the executable specification holds: `RM.specSound`, `RM.specNonempty` -/

theorem removeOne_eq_erase (x : Nat) (l : List Nat) : removeOne x l = l.erase x := by
  induction l with
  | nil => rfl
  | cons y ys ih =>
    by_cases h : x = y
    · subst h; simp [removeOne]
    · have h' : ¬ y = x := fun e => h e.symm
      simp [removeOne, h, h', ih]

theorem zipIdx_filter_ne_lt (l : List Nat) (k m : Nat) (h : m < k) :
    ((l.zipIdx k).filter (fun (_, i) => i != m)).map (·.1) = l := by
  induction l generalizing k with
  | nil => rfl
  | cons a l ih =>
    have : (k != m) = true := by simp; omega
    simp only [List.zipIdx_cons, List.filter_cons, this, if_true, List.map_cons]
    rw [ih (k + 1) (by omega)]

theorem zipIdx_filter_ne (l : List Nat) (k c : Nat) :
    ((l.zipIdx k).filter (fun (_, i) => i != k + c)).map (·.1) = l.eraseIdx c := by
  induction l generalizing k c with
  | nil => rfl
  | cons a l ih =>
    cases c with
    | zero =>
      have : (k != k + 0) = false := by simp
      simp only [List.zipIdx_cons, List.filter_cons, this, List.eraseIdx_zero, List.tail_cons]
      exact zipIdx_filter_ne_lt l (k + 1) (k + 0) (by omega)
    | succ c =>
      have : (k != k + (c + 1)) = true := by simp
      simp only [List.zipIdx_cons, List.filter_cons, this, if_true, List.map_cons,
        List.eraseIdx_cons_succ]
      rw [show k + (c + 1) = (k + 1) + c by omega, ih (k + 1) c]

/-- the other courses' sizes, as computed by `RM.usable` -/
theorem others_eq (sizes : List Nat) (c : Nat) :
    (sizes.zipIdx.filter (fun (_, i) => i != c)).map (·.1) = sizes.eraseIdx c := by
  have := zipIdx_filter_ne sizes 0 c
  simpa using this

theorem perm_cons_eraseIdx {l : List Nat} {i a : Nat} (h : l[i]? = some a) :
    l.Perm (a :: l.eraseIdx i) := by
  induction l generalizing i with
  | nil => simp at h
  | cons b t ih =>
    cases i with
    | zero =>
      simp only [List.getElem?_cons_zero, Option.some.injEq] at h
      subst h; simp
    | succ i =>
      simp only [List.getElem?_cons_succ] at h
      simp only [List.eraseIdx_cons_succ]
      exact ((ih h).cons b).trans (List.Perm.swap a b _)

theorem perm_eraseIdx {l₁ l₂ : List Nat} (h : l₁.Perm l₂) {i j a : Nat} (h1 : l₁[i]? = some a)
    (h2 : l₂[j]? = some a) : (l₁.eraseIdx i).Perm (l₂.eraseIdx j) :=
  List.Perm.cons_inv (((perm_cons_eraseIdx h1).symm.trans h).trans (perm_cons_eraseIdx h2))

theorem getD_eraseIdx (l : List Nat) (i j : Nat) :
    (l.eraseIdx i).getD j 0 = if j < i then l.getD j 0 else l.getD (j + 1) 0 := by
  simp only [List.getD_eq_getElem?_getD, List.getElem?_eraseIdx]
  split <;> rfl

/-- removing rank `x` and a room at a rank `j ≥ x` keeps rank-wise feasibility -/
theorem erase_fits_right {S R : List Nat} (hS : GE S) (hF : ∀ i, S.getD i 0 ≤ R.getD i 0) {x j : Nat}
    (hxj : x ≤ j) (i : Nat) : (S.eraseIdx x).getD i 0 ≤ (R.eraseIdx j).getD i 0 := by
  rw [getD_eraseIdx, getD_eraseIdx]
  have a1 := hS.anti i (i + 1) (by omega)
  have f0 := hF i
  have f1 := hF (i + 1)
  split <;> split <;> omega

/-- removing rank `x` and the room at a rank `i0 ≤ x` whose course fits into room `x` keeps rank-wise
    feasibility -/
theorem erase_fits_left {S R : List Nat} (hS : GE S) (hR : GE R) (hF : ∀ i, S.getD i 0 ≤ R.getD i 0)
    {x i0 : Nat} (hx : i0 ≤ x) (hfit : S.getD i0 0 ≤ R.getD x 0) (i : Nat) :
    (S.eraseIdx x).getD i 0 ≤ (R.eraseIdx i0).getD i 0 := by
  rw [getD_eraseIdx, getD_eraseIdx]
  have f0 := hF i
  have f1 := hF (i + 1)
  split <;> split
  · omega
  · -- i0 ≤ i < x
    have a1 := hS.anti i0 i (by omega)
    have a2 := hR.anti (i + 1) x (by omega)
    omega
  · omega
  · omega

/-- every listed room is `RM.usable` -/
theorem possibleByCourse_usable {sizes order rooms : List Nat} (hO : orderOk sizes order = true)
    (hF : fits sizes rooms = true) (c : Nat) (hc : c < sizes.length) (v : Nat)
    (hv : v ∈ (possibleByCourse sizes order rooms).getD c []) : usable sizes rooms c v = true := by
  obtain ⟨h1, h2, _⟩ := possibleByCourse_sound hO hF c hc v hv
  have F := orderOk_facts hO
  have hS : GE (inst sizes order rooms).S := F.ge
  have hR : GE (sortDesc rooms) := sortDesc_GE rooms
  have hFf := (fits_iff F.ge F.perm_sizes hR (sortDesc_perm rooms)).mp hF
  rw [mem_possibleByCourse sizes order rooms hc] at hv
  have hxl : order.idxOf c < order.length := F.idx_lt hc
  -- a room index `j` of size `v` whose removal (together with `c`'s rank) keeps feasibility
  have key : ∃ j, j < (sortDesc rooms).length ∧ (sortDesc rooms).getD j 0 = v ∧
      ∀ i, ((inst sizes order rooms).S.eraseIdx (order.idxOf c)).getD i 0 ≤
        ((sortDesc rooms).eraseIdx j).getD i 0 := by
    rcases possible_mem _ _ v hv with ⟨j, hj, rfl⟩ | ⟨i0, hi, _, rfl⟩
    · obtain ⟨a, b, _⟩ := mem_js hj
      exact ⟨j, b, rfl, erase_fits_right hS hFf a⟩
    · obtain ⟨a, b, d⟩ := mem_js hi
      exact ⟨i0, Nat.lt_of_le_of_lt a b, rfl, erase_fits_left hS hR hFf a d⟩
  obtain ⟨j, hj, hjv, hfit⟩ := key
  have hjv' : (sortDesc rooms)[j]? = some v := by
    rw [List.getElem?_eq_getElem hj]
    simpa [List.getD_eq_getElem?_getD, hj] using hjv
  have p1 : ((inst sizes order rooms).S.eraseIdx (order.idxOf c)).Perm (sizes.eraseIdx c) := by
    refine perm_eraseIdx F.perm_sizes (a := sizes.getD c 0) ?_ ?_
    · simp [List.getElem?_map, List.getElem?_eq_getElem hxl]
    · simp [List.getD_eq_getElem?_getD, hc]
  have p2 : ((sortDesc rooms).eraseIdx j).Perm (rooms.erase v) := by
    have hm : v ∈ sortDesc rooms := (mem_sortDesc rooms v).mpr h2
    have q1 := (perm_cons_eraseIdx hjv').symm.trans (List.perm_cons_erase hm)
    exact (List.Perm.cons_inv q1).trans ((sortDesc_perm rooms).erase v)
  have hfits : fits (sizes.eraseIdx c) (rooms.erase v) = true :=
    (fits_iff (List.Pairwise.eraseIdx _ hS) p1 (List.Pairwise.eraseIdx _ hR) p2).mpr hfit
  simp only [usable, others_eq, removeOne_eq_erase, hfits, Bool.and_true, Bool.and_eq_true,
    decide_eq_true_eq, List.contains_iff_mem]
  exact ⟨h1, h2⟩

/-- **the executable specification the driver evaluates holds** for the model's listing -/
theorem possibleByCourse_specSound {sizes order rooms : List Nat} (hO : orderOk sizes order = true)
    (hF : fits sizes rooms = true) :
    specSound sizes rooms (possibleByCourse sizes order rooms) = true := by
  simp only [specSound, List.all_eq_true, List.mem_range]
  intro c hc v hv
  exact possibleByCourse_usable hO hF c hc v hv

theorem possibleByCourse_specNonempty {sizes order rooms : List Nat} (hO : orderOk sizes order = true)
    (hF : fits sizes rooms = true) :
    specNonempty sizes (possibleByCourse sizes order rooms) = true := by
  simp only [specNonempty, List.all_eq_true, List.mem_range, Bool.or_eq_true, beq_iff_eq,
    Bool.not_eq_true', List.isEmpty_eq_false_iff]
  intro c hc
  by_cases h : sizes.getD c 0 = 0
  · exact Or.inl h
  · exact Or.inr (possibleByCourse_nonempty hO hF c hc (by omega)).2

/-! ### the executable specification is itself sound: `RM.fits` gives an allocation, `RM.usable`
    gives an allocation in which the course gets the room -/

/-- a sorting permutation always exists -/
theorem exists_order (sizes : List Nat) : ∃ order, OrderFacts sizes order := by
  refine ⟨(List.range sizes.length).mergeSort (fun a b => decide (sizes.getD b 0 ≤ sizes.getD a 0)), ?_, ?_, ?_⟩
  · rw [(List.mergeSort_perm _ _).length_eq]; simp
  · exact (List.mergeSort_perm _ _).symm
  · have h := List.pairwise_mergeSort (le := fun a b : Nat => decide (sizes.getD b 0 ≤ sizes.getD a 0))
      (by intro a b c h1 h2; simp only [decide_eq_true_eq] at *; omega)
      (by intro a b; simp only [Bool.or_eq_true, decide_eq_true_eq]; omega) (List.range sizes.length)
    unfold GE
    rw [List.pairwise_map]
    exact h.imp (by intro a b h; simpa using h)

/-- rank-wise fit gives a complete allocation of distinct rooms -/
theorem fits_alloc {sizes rooms : List Nat} (hF : fits sizes rooms = true) :
    ∃ g, CAlloc sizes rooms g := by
  obtain ⟨order, F⟩ := exists_order sizes
  have hFe := (fits_iff_feasible F rooms).mp hF
  obtain ⟨σ, hσ, hget⟩ := perm_idx (sortDesc_perm rooms)
  have hA : Alloc (inst sizes order rooms) id :=
    ⟨fun i hi hs => (hFe i hi hs).1, fun i hi hs => (hFe i hi hs).2, fun _ _ _ _ _ _ h => h⟩
  exact ⟨_, calloc_of_alloc F hA hσ hget⟩

/-- index in `l.eraseIdx t` ↦ index in `l` -/
def up (t i : Nat) : Nat := if i < t then i else i + 1
/-- index `≠ t` in `l` ↦ index in `l.eraseIdx t` -/
def down (t i : Nat) : Nat := if i < t then i else i - 1

theorem getD_eraseIdx_up (l : List Nat) (t i : Nat) : (l.eraseIdx t).getD i 0 = l.getD (up t i) 0 := by
  rw [getD_eraseIdx]; unfold up; split <;> rfl

/-- **`RM.usable` means what it says**: the room size is large enough, present, and there is a
    complete allocation of distinct room indices to the courses that take place in which `c` gets a
    room of that size, not shared with any other course -/
theorem usable_alloc {sizes rooms : List Nat} {c v : Nat} (hc : c < sizes.length)
    (h : usable sizes rooms c v = true) :
    sizes.getD c 0 ≤ v ∧ v ∈ rooms ∧
    ∃ g : Nat → Nat, CAlloc sizes rooms g ∧ g c < rooms.length ∧ rooms.getD (g c) 0 = v ∧
      ∀ c', c' < sizes.length → 0 < sizes.getD c' 0 → g c' = g c → c' = c := by
  simp only [usable, others_eq, removeOne_eq_erase, Bool.and_eq_true, decide_eq_true_eq,
    List.contains_iff_mem] at h
  obtain ⟨⟨h1, h2⟩, h3⟩ := h
  refine ⟨h1, h2, ?_⟩
  have hj : rooms.idxOf v < rooms.length := List.idxOf_lt_length_of_mem h2
  have hjv : rooms.getD (rooms.idxOf v) 0 = v := by
    simp [List.getD_eq_getElem?_getD, hj]
  rw [List.erase_eq_eraseIdx_of_idxOf rfl] at h3
  obtain ⟨g', hg'⟩ := fits_alloc h3
  generalize rooms.idxOf v = j at *
  have hlenS : (sizes.eraseIdx c).length = sizes.length - 1 := List.length_eraseIdx_of_lt hc
  have hlenR : (rooms.eraseIdx j).length = rooms.length - 1 := List.length_eraseIdx_of_lt hj
  have hud : ∀ c', c' ≠ c → up c (down c c') = c' := by
    intro c' hne; unfold up down
    by_cases a : c' < c
    · simp only [a, if_true]
    · have b : ¬ (c' - 1 < c) := by omega
      simp only [a, b, if_false]; omega
  have hdl : ∀ c', c' ≠ c → c' < sizes.length → down c c' < (sizes.eraseIdx c).length := by
    intro c' hne hl; rw [hlenS]; unfold down; split <;> omega
  have hsz : ∀ c', c' ≠ c → (sizes.eraseIdx c).getD (down c c') 0 = sizes.getD c' 0 := by
    intro c' hne; rw [getD_eraseIdx_up, hud c' hne]
  have hupj : ∀ i, up j i ≠ j := by intro i; unfold up; split <;> omega
  have hupinj : ∀ i1 i2, up j i1 = up j i2 → i1 = i2 := by
    intro i1 i2; unfold up; split <;> split <;> omega
  have hdinj : ∀ c1 c2, c1 ≠ c → c2 ≠ c → down c c1 = down c c2 → c1 = c2 := by
    intro c1 c2; unfold down; split <;> split <;> omega
  have hgc : (fun c' => if c' = c then j else up j (g' (down c c'))) c = j := by simp
  refine ⟨fun c' => if c' = c then j else up j (g' (down c c')), ⟨?_, ?_, ?_⟩, ?_, ?_, ?_⟩
  · intro c' hl hpos
    by_cases e : c' = c
    · simp only [e, if_true]; exact hj
    · simp only [e, if_false]
      have := hg'.lt _ (hdl c' e hl) (by rw [hsz c' e]; exact hpos)
      rw [hlenR] at this
      unfold up; split <;> omega
  · intro c' hl hpos
    by_cases e : c' = c
    · simp only [e, if_true]; rw [hjv]; exact h1
    · simp only [e, if_false]
      have := hg'.fits _ (hdl c' e hl) (by rw [hsz c' e]; exact hpos)
      rw [hsz c' e, getD_eraseIdx_up] at this
      exact this
  · intro c1 c2 l1 l2 p1 p2 hg
    by_cases e1 : c1 = c <;> by_cases e2 : c2 = c
    · rw [e1, e2]
    · simp only [e1, e2, if_true, if_false] at hg
      exact absurd hg.symm (hupj _)
    · simp only [e1, e2, if_true, if_false] at hg
      exact absurd hg (hupj _)
    · simp only [e1, e2, if_false] at hg
      exact hdinj c1 c2 e1 e2 (hg'.inj _ _ (hdl c1 e1 l1) (hdl c2 e2 l2) (by rw [hsz c1 e1]; exact p1)
        (by rw [hsz c2 e2]; exact p2) (hupinj _ _ hg))
  · rw [hgc]; exact hj
  · rw [hgc]; exact hjv
  · intro c' _ _ hg
    rw [hgc] at hg
    by_cases e : c' = c
    · exact e
    · simp only [e, if_false] at hg
      exact absurd hg (hupj _)

/-- hence a listing that passes the driver's check `RM.specSound` is sound in the `Prop` sense -/
theorem specSound_sound {sizes rooms : List Nat} {listed : List (List Nat)}
    (h : specSound sizes rooms listed = true) (c : Nat) (hc : c < sizes.length) (v : Nat)
    (hv : v ∈ listed.getD c []) :
    sizes.getD c 0 ≤ v ∧ v ∈ rooms ∧
    ∃ g : Nat → Nat, CAlloc sizes rooms g ∧ g c < rooms.length ∧ rooms.getD (g c) 0 = v ∧
      ∀ c', c' < sizes.length → 0 < sizes.getD c' 0 → g c' = g c → c' = c := by
  simp only [specSound, List.all_eq_true, List.mem_range] at h
  exact usable_alloc hc (h c hc v hv)

/-! ### room kinds: `RM.readKinds`, `RM.kindNames` -/

/-- the expanded room list of a list of kinds -/
def kindRooms (kinds : List Kind) : List Nat :=
  kinds.flatMap (fun k => List.replicate k.quantity k.capacity)

theorem mem_kindRooms (kinds : List Kind) (v : Nat) :
    v ∈ kindRooms kinds ↔ ∃ k ∈ kinds, 0 < k.quantity ∧ k.capacity = v := by
  simp only [kindRooms, List.mem_flatMap, List.mem_replicate]
  constructor
  · rintro ⟨k, hk, hq, rfl⟩; exact ⟨k, hk, by omega, rfl⟩
  · rintro ⟨k, hk, hq, rfl⟩; exact ⟨k, hk, by omega, rfl⟩

theorem readKinds_fst (ks : List Kind) : (readKinds ks).1 = kindRooms (readKinds ks).2 := rfl

theorem readKinds_snd_perm (ks : List Kind) : (readKinds ks).2.Perm ks :=
  (List.reverse_perm _).trans (List.mergeSort_perm _ _)

/-- the kinds are returned by descending capacity -/
theorem readKinds_snd_desc (ks : List Kind) :
    (readKinds ks).2.Pairwise (fun a b => b.capacity ≤ a.capacity) := by
  have h := List.pairwise_mergeSort (le := fun a b : Kind => decide (a.capacity ≤ b.capacity))
    (by intro a b c h1 h2; simp only [decide_eq_true_eq] at *; omega)
    (by intro a b; simp only [Bool.or_eq_true, decide_eq_true_eq]; omega) ks
  simp only [readKinds]
  rw [List.pairwise_reverse]
  exact h.imp (by intro a b h; simpa using h)

/-- the room list read from the rooms file is already descending, so the `sortDesc` inside
    `possibleByCourse` leaves it unchanged -/
theorem readKinds_fst_GE (ks : List Kind) : GE (readKinds ks).1 := by
  rw [readKinds_fst]
  unfold GE kindRooms
  rw [List.pairwise_flatMap]
  refine ⟨?_, ?_⟩
  · intro k _
    rw [List.pairwise_replicate]
    exact Or.inr (Nat.le_refl _)
  · refine (readKinds_snd_desc ks).imp ?_
    intro a b hab x hx y hy
    rw [List.mem_replicate] at hx hy
    omega

theorem sortDesc_readKinds (ks : List Kind) : sortDesc (readKinds ks).1 = (readKinds ks).1 :=
  sortDesc_eq_of (readKinds_fst_GE ks) (List.Perm.refl _)

/-- the per-course lists of kind names before joining with ", " -/
def kindNameLists (sizes order : List Nat) (kinds : List Kind) : List (List String) :=
  (possibleByCourse sizes order (kindRooms kinds)).map (fun l =>
    l.flatMap (fun r => (kinds.filter (fun k => k.capacity == r && decide (0 < k.quantity))).map (·.name)))

theorem kindNames_eq (sizes order : List Nat) (kinds : List Kind) :
    kindNames sizes order kinds = (kindNameLists sizes order kinds).map joinComma := by
  simp [kindNames, kindNameLists, kindRooms, List.map_map, Function.comp_def]

/-- **kind names.** A name is listed for course `c` exactly if it is the name of a kind with at
    least one room whose capacity is one of the possible room sizes listed for `c`. -/
theorem mem_kindNameLists (sizes order : List Nat) (kinds : List Kind) (c : Nat) (name : String) :
    name ∈ (kindNameLists sizes order kinds).getD c [] ↔
      ∃ k ∈ kinds, k.name = name ∧ 0 < k.quantity ∧
        k.capacity ∈ (possibleByCourse sizes order (kindRooms kinds)).getD c [] := by
  simp only [kindNameLists, List.getD_eq_getElem?_getD, List.getElem?_map]
  cases (possibleByCourse sizes order (kindRooms kinds))[c]? with
  | none => simp
  | some l =>
    simp only [Option.map_some, Option.getD_some, List.mem_flatMap, List.mem_map, List.mem_filter,
      Bool.and_eq_true, beq_iff_eq, decide_eq_true_eq]
    constructor
    · rintro ⟨r, hr, k, ⟨hk, rfl, hq⟩, rfl⟩
      exact ⟨k, hk, rfl, hq, hr⟩
    · rintro ⟨k, hk, rfl, hq, hr⟩
      exact ⟨k.capacity, hr, k, ⟨hk, rfl, hq⟩, rfl⟩

/-- every listed possible room size has at least one kind name (the rooms ARE the kinds' rooms) -/
theorem kindNameLists_nonempty {sizes order : List Nat} {kinds : List Kind}
    (hO : orderOk sizes order = true) (hF : fits sizes (kindRooms kinds) = true) (c : Nat)
    (hc : c < sizes.length) (hpos : 0 < sizes.getD c 0) :
    (kindNameLists sizes order kinds).getD c [] ≠ [] := by
  obtain ⟨hv, _⟩ := possibleByCourse_nonempty hO hF c hc hpos
  obtain ⟨_, hm, _⟩ := possibleByCourse_sound hO hF c hc _ hv
  obtain ⟨k, hk, hq, hcap⟩ := (mem_kindRooms kinds _).mp hm
  have : k.name ∈ (kindNameLists sizes order kinds).getD c [] :=
    (mem_kindNameLists sizes order kinds c k.name).mpr ⟨k, hk, rfl, hq, by rw [hcap]; exact hv⟩
  exact List.ne_nil_of_mem this

/-! ### concrete instance: the hypotheses are satisfiable and the listing is non-trivial -/

/-- `mergeSort` is defined by well-founded recursion and does not reduce under `decide`; sorted
    forms are therefore supplied and checked through `sortDesc_eq_of` -/
theorem ex_rooms : sortDesc [4, 6, 3] = [6, 4, 3] :=
  sortDesc_eq_of (by unfold GE; decide) (by decide)

example : orderOk [3, 0, 5, 3] [2, 3, 0, 1] = true := by decide

example : fits [3, 0, 5, 3] [4, 6, 3] = true := by
  rw [fits_iff (S := [5, 3, 3, 0]) (R := [6, 4, 3]) (by unfold GE; decide) (by decide)
    (by unfold GE; decide) (by decide)]
  intro i
  rcases i with _ | _ | _ | _ | _ | i <;> simp

example : ¬ (fits [3, 0, 5, 3] [4, 6, 2] = true) := by
  rw [fits_iff (S := [5, 3, 3, 0]) (R := [6, 4, 2]) (by unfold GE; decide) (by decide)
    (by unfold GE; decide) (by decide)]
  intro h
  have := h 2
  simp at this

example : possibleByCourse [3, 0, 5, 3] [2, 3, 0, 1] [4, 6, 3] = [[4, 3], [], [6], [4, 3]] := by
  simp only [possibleByCourse, ex_rooms]
  decide

#print axioms possibleByCourse_sound
#print axioms possibleByCourse_nonempty
#print axioms possibleByCourse_specSound
#print axioms possibleByCourse_specNonempty
#print axioms fits_iff_feasible
#print axioms usable_alloc
#print axioms specSound_sound
#print axioms orderOk_iff
#print axioms sortDesc_desc
#print axioms mem_kindNameLists
#print axioms kindNameLists_nonempty
#print axioms readKinds_fst_GE

end RMP
