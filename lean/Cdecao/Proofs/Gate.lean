import Mathlib.Data.Finset.Card
import Cdecao.Model.Node
import Cdecao.Spec.Hard
/-! Spike: the C01 gate theorem (`Gate.lean`) re-based on the types of the final-style node model. -/
namespace N2.G
open H2

/-- what the node hands to the assignment construction -/
structure Ctx where
  m : Nat                      -- number of columns
  cancelled : List Nat
  skipY : Nat → Bool
  courseMap : Nat → Nat
  mm : Nat → Nat               -- matching: column ↦ row

/-- the course a participant ends up in after the matching loop: last write wins -/
def matched (X : Ctx) (p : Nat) : Option Nat :=
  ((List.range X.m).reverse.find? (fun cp => !X.skipY cp && X.mm cp == p)).map X.courseMap

/-- the course a participant is written into by the instructor loop: last write wins -/
def instrOf (I : Inst) (X : Ctx) (p : Nat) : Option Nat :=
  (List.range I.C).reverse.find? (fun c => !X.cancelled.contains c && I.instructs p c)

/-- the assignment of `run_bab_node` in closed form -/
def assign (I : Inst) (X : Ctx) (p : Nat) : Option Nat :=
  match instrOf I X p with
  | some c => some c
  | none => matched X p

/-- `is_instructor` as used by check_feasibility, restricted to real participants -/
def isInstr (I : Inst) (X : Ctx) (p : Nat) : Bool :=
  !I.hasChoices p || (List.range I.C).any (fun c => !X.cancelled.contains c && I.instructs p c)

def size (I : Inst) (X : Ctx) (c : Nat) : Nat :=
  (List.range I.P).countP (fun p => !isInstr I X p && assign I X p == some c)

/-- check_feasibility says "feasible" -/
def gateOk (I : Inst) (X : Ctx) : Bool :=
  (List.range I.P).all (fun p => isInstr I X p || I.choseOpt p (assign I X p)) &&
  (List.range I.C).all (fun c => X.cancelled.contains c || decide ((I.course c).numMin ≤ size I X c))

/-- what the rest of the node guarantees (NodeOK, mask construction, HSpec1) -/
structure CtxOK (I : Inst) (X : Ctx) : Prop where
  oneCourse : ∀ p c c', I.instructs p c = true → I.instructs p c' = true → c = c'
  instrRange : ∀ p c, c < I.C → I.instructs p c = true → p < I.P
  fixedLive : ∀ c, c ∈ X.cancelled → (I.course c).fixed = false
  live : ∀ cp, cp < X.m → X.skipY cp = false → X.courseMap cp < I.C ∧ X.courseMap cp ∉ X.cancelled
  cap : ∀ c, c < I.C → ((Finset.range X.m).filter (fun cp => X.skipY cp = false ∧ X.courseMap cp = c)).card ≤ (I.course c).numMax
  inj : ∀ cp1 cp2, cp1 < X.m → cp2 < X.m → X.skipY cp1 = false → X.skipY cp2 = false → X.mm cp1 = X.mm cp2 → cp1 = cp2
  rows : ∀ cp, cp < X.m → X.skipY cp = false → X.mm cp < I.P → isInstr I X (X.mm cp) = false


/-! ### basic facts about the closed forms -/

theorem find_rev_range_some {n : Nat} {q : Nat → Bool} {x : Nat}
    (h : (List.range n).reverse.find? q = some x) : x < n ∧ q x = true := by
  have h1 := List.find?_some h
  have h2 := List.mem_of_find?_eq_some h
  simp at h2
  exact ⟨h2, h1⟩

theorem find_rev_range_none {n : Nat} {q : Nat → Bool}
    (h : (List.range n).reverse.find? q = none) (x : Nat) (hx : x < n) : q x = false := by
  rw [List.find?_eq_none] at h
  have := h x (by simp [hx])
  simpa using this

theorem instrOf_some {I : Inst} {X : Ctx} {p c : Nat} (h : instrOf I X p = some c) :
    c < I.C ∧ c ∉ X.cancelled ∧ I.instructs p c = true := by
  obtain ⟨h1, h2⟩ := find_rev_range_some h
  simp only [Bool.and_eq_true, Bool.not_eq_true', List.contains_eq_mem, decide_eq_false_iff_not] at h2
  exact ⟨h1, h2.1, h2.2⟩

theorem instrOf_none {I : Inst} {X : Ctx} {p : Nat} (h : instrOf I X p = none) (c : Nat) (hc : c < I.C)
    (hl : c ∉ X.cancelled) : I.instructs p c = false := by
  have := find_rev_range_none h c hc
  simp only [Bool.and_eq_false_iff, Bool.not_eq_false', List.contains_eq_mem, decide_eq_true_eq] at this
  rcases this with h | h
  · exact absurd h hl
  · exact h

theorem matched_some {X : Ctx} {p c : Nat} (h : matched X p = some c) :
    ∃ cp, cp < X.m ∧ X.skipY cp = false ∧ X.mm cp = p ∧ X.courseMap cp = c := by
  simp only [matched, Option.map_eq_some_iff] at h
  obtain ⟨cp, hf, hc⟩ := h
  obtain ⟨h1, h2⟩ := find_rev_range_some hf
  simp only [Bool.and_eq_true, Bool.not_eq_true', beq_iff_eq] at h2
  exact ⟨cp, h1, h2.1, h2.2, hc⟩

theorem isInstr_false {I : Inst} {X : Ctx} {p : Nat} (h : isInstr I X p = false) :
    I.hasChoices p = true ∧ ∀ c, c < I.C → c ∉ X.cancelled → I.instructs p c = false := by
  simp only [isInstr, Bool.or_eq_false_iff, Bool.not_eq_false'] at h
  refine ⟨h.1, ?_⟩
  intro c hc hl
  have := h.2
  rw [List.any_eq_false] at this
  have := this c (by simp [hc])
  simp only [Bool.and_eq_true, Bool.not_eq_true', List.contains_eq_mem, decide_eq_false_iff_not, not_and,
    Bool.not_eq_true] at this
  exact this hl

theorem isInstr_true_of {I : Inst} {X : Ctx} {p c : Nat} (hc : c < I.C) (hl : c ∉ X.cancelled)
    (hi : I.instructs p c = true) : isInstr I X p = true := by
  simp only [isInstr, Bool.or_eq_true]
  right
  rw [List.any_eq_true]
  exact ⟨c, by simp [hc], by simp [hl, hi]⟩

theorem assign_cases {I : Inst} {X : Ctx} {p c : Nat} (h : assign I X p = some c) :
    (instrOf I X p = some c) ∨ (instrOf I X p = none ∧ matched X p = some c) := by
  unfold assign at h
  cases hi : instrOf I X p with
  | some c' => simp [hi] at h; left; rw [h]
  | none => simp [hi] at h; right; exact ⟨rfl, h⟩

theorem assign_live {I : Inst} {X : Ctx} (ok : CtxOK I X) {p c : Nat} (h : assign I X p = some c) :
    c < I.C ∧ c ∉ X.cancelled := by
  rcases assign_cases h with h | ⟨_, h⟩
  · obtain ⟨a, b, _⟩ := instrOf_some h; exact ⟨a, b⟩
  · obtain ⟨cp, h1, h2, _, h4⟩ := matched_some h
    have := ok.live cp h1 h2
    rw [h4] at this; exact this

theorem assign_of_instructs {I : Inst} {X : Ctx} (ok : CtxOK I X) {p c : Nat} (hc : c < I.C)
    (hl : c ∉ X.cancelled) (hi : I.instructs p c = true) : assign I X p = some c := by
  unfold assign
  cases h : instrOf I X p with
  | none => have := instrOf_none h c hc hl; simp [hi] at this
  | some c' =>
    obtain ⟨_, _, h3⟩ := instrOf_some h
    simp [ok.oneCourse p c' c h3 hi]

theorem takesPlace_live {I : Inst} {X : Ctx} (ok : CtxOK I X) {c : Nat} (h : takesPlace I (assign I X) c) :
    c ∉ X.cancelled := by
  rcases h with h | ⟨p, _, h⟩
  · intro hm; have := ok.fixedLive c hm; simp [h] at this
  · exact (assign_live ok h).2


/-! ### counting -/

theorem countP_range_eq_card (n : Nat) (q : Nat → Bool) :
    (List.range n).countP q = ((Finset.range n).filter (fun x => q x = true)).card := by
  induction n with
  | zero => simp
  | succ n ih =>
    rw [List.range_succ, List.countP_append, ih, Finset.range_add_one, Finset.filter_insert]
    by_cases h : q n = true
    · simp [h, Finset.card_insert_of_notMem]
    · simp [h]

/-- the column in which a participant was matched (last write wins) -/
def colOf (X : Ctx) (p : Nat) : Nat :=
  ((List.range X.m).reverse.find? (fun cp => !X.skipY cp && X.mm cp == p)).getD 0

theorem colOf_spec {X : Ctx} {p c : Nat} (h : matched X p = some c) :
    colOf X p < X.m ∧ X.skipY (colOf X p) = false ∧ X.mm (colOf X p) = p ∧ X.courseMap (colOf X p) = c := by
  simp only [matched, Option.map_eq_some_iff] at h
  obtain ⟨cp, hf, hc⟩ := h
  have : colOf X p = cp := by simp [colOf, hf]
  obtain ⟨h1, h2⟩ := find_rev_range_some hf
  simp only [Bool.and_eq_true, Bool.not_eq_true', beq_iff_eq] at h2
  rw [this]; exact ⟨h1, h2.1, h2.2, hc⟩

/-- C01, node level: if the feasibility gate passes, the assignment satisfies all hard constraints -/
theorem gate_sound (I : Inst) (X : Ctx) (ok : CtxOK I X) (hg : gateOk I X = true) :
    HardOK I (assign I X) := by
  simp only [gateOk, Bool.and_eq_true, List.all_eq_true, List.mem_range, Bool.or_eq_true,
    List.contains_eq_mem, decide_eq_true_eq] at hg
  obtain ⟨g1, g2⟩ := hg
  -- an attendee (assigned, not instructing that course) sits in a live column of the course
  have att_col : ∀ p c, assign I X p = some c → I.instructs p c = false → matched X p = some c := by
    intro p c ha hni
    rcases assign_cases ha with h | ⟨_, h⟩
    · obtain ⟨_, _, h3⟩ := instrOf_some h; simp [hni] at h3
    · exact h
  refine ⟨?_, ?_, ?_, ?_, ?_, ?_⟩
  · intro p _ c h; exact (assign_live ok h).1
  · intro c hc htp i _ hi
    exact assign_of_instructs ok hc (takesPlace_live ok htp) hi
  · -- minimum
    intro c hc htp
    have hl := takesPlace_live ok htp
    rcases g2 c hc with h | h
    · exact absurd h hl
    · refine le_trans h ?_
      unfold size attendees
      apply List.countP_mono_left
      intro p _ hp
      simp only [Bool.and_eq_true, Bool.not_eq_true', beq_iff_eq] at hp ⊢
      refine ⟨hp.2, ?_⟩
      exact (isInstr_false hp.1).2 c hc hl
  · -- maximum: attendees inject into the live columns of the course
    intro c hc _
    refine le_trans ?_ (ok.cap c hc)
    unfold attendees
    rw [countP_range_eq_card]
    apply Finset.card_le_card_of_injOn (colOf X)
    · intro p hp
      simp only [Finset.coe_filter, Finset.mem_range, Set.mem_ofPred_eq, Bool.and_eq_true, beq_iff_eq,
        Bool.not_eq_true'] at hp
      obtain ⟨_, ha, hni⟩ := hp
      obtain ⟨h1, h2, _, h4⟩ := colOf_spec (att_col p c ha hni)
      simp only [Finset.coe_filter, Finset.mem_range, Set.mem_ofPred_eq]
      exact ⟨h1, h2, h4⟩
    · intro p1 hp1 p2 hp2 heq
      simp only [Finset.coe_filter, Finset.mem_range, Set.mem_ofPred_eq, Bool.and_eq_true, beq_iff_eq,
        Bool.not_eq_true'] at hp1 hp2
      obtain ⟨_, _, h3, _⟩ := colOf_spec (att_col p1 c hp1.2.1 hp1.2.2)
      obtain ⟨_, _, h3', _⟩ := colOf_spec (att_col p2 c hp2.2.1 hp2.2.2)
      rw [← h3, ← h3', heq]
  · -- everybody with choices who is not instructing a course that takes place got a choice
    intro p hp hch hno
    rcases g1 p hp with h | h
    · exfalso
      simp only [isInstr, Bool.or_eq_true, Bool.not_eq_true'] at h
      rcases h with h | h
      · simp [hch] at h
      · rw [List.any_eq_true] at h
        obtain ⟨c, hc, hh⟩ := h
        simp only [List.mem_range] at hc
        simp only [Bool.and_eq_true, Bool.not_eq_true', List.contains_eq_mem, decide_eq_false_iff_not] at hh
        exact hno ⟨c, hc, hh.2, Or.inr ⟨p, hp, assign_of_instructs ok hc hh.1 hh.2⟩⟩
    · simp only [Inst.choseOpt, List.any_eq_true, beq_iff_eq] at h
      obtain ⟨ch, hm, he⟩ := h
      exact ⟨ch, hm, he.symm⟩
  · -- participants without choices are assigned only as instructors
    intro p hp hnc c ha
    rcases assign_cases ha with h | ⟨_, h⟩
    · exact (instrOf_some h).2.2
    · exfalso
      obtain ⟨cp, h1, h2, h3, _⟩ := matched_some h
      have := ok.rows cp h1 h2 (by rw [h3]; exact hp)
      rw [h3] at this
      have := (isInstr_false this).1
      simp [hnc] at this

#print axioms gate_sound
end N2.G
