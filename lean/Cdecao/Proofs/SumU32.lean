import Cdecao.Model.Score
/-! Helper lemmas for the wrapping u32 sum `QM.sumU32`. Core only. -/
namespace QM
open N2 N2.G

theorem foldl_u32_exact (l : List Nat) (acc : Nat) (h : acc + l.sum < 2^32) :
    l.foldl (fun acc x => (acc + x) % 2^32) acc = acc + l.sum := by
  induction l generalizing acc with
  | nil => simp
  | cons x xs ih =>
    simp only [List.foldl_cons, List.sum_cons] at h ⊢
    have hx : (acc + x) % 2^32 = acc + x := Nat.mod_eq_of_lt (by omega)
    rw [hx, ih (acc + x) (by omega)]; omega

theorem sumU32_exact (l : List Nat) (h : l.sum < 2^32) : sumU32 l = l.sum := by
  have := foldl_u32_exact l 0 (by omega)
  simpa [sumU32] using this

theorem sum_le_length_mul (l : List Nat) (b : Nat) (hb : ∀ x ∈ l, x ≤ b) :
    l.sum ≤ l.length * b := by
  induction l with
  | nil => simp
  | cons x xs ih =>
    have h1 : x ≤ b := hb x (by simp)
    have h2 := ih (fun y hy => hb y (by simp [hy]))
    simp only [List.sum_cons, List.length_cons, Nat.add_mul, Nat.one_mul]
    omega

theorem W_sub_INSTRUCTOR_SCORE : W - INSTRUCTOR_SCORE = 0 := by simp [INSTRUCTOR_SCORE]

end QM
