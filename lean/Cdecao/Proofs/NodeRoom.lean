import Cdecao.Proofs.RoomGate
import Cdecao.Proofs.NodeScore
/-! Spike: C06 at node level — a feasible verdict under a room list means the code's rank-by-rank check
    passed, i.e. (by `codeOk_iff`) the descending effective sizes fit the descending rooms. -/
namespace N2
open H2 RG

theorem map_getD_range {α β : Type} (l : List α) (d : α) (f : α → β) :
    (List.range l.length).map (fun i => f (l.getD i d)) = l.map f := by
  apply List.ext_getElem
  · simp
  · intro i h1 h2
    simp only [List.length_map, List.length_range] at h1
    simp [List.getD_eq_getElem?_getD, List.getElem?_eq_getElem h1]

theorem roomStage_none (I : Inst) (R : RoomFns) (nd : Node) (a : Nat → Option Nat) (score : Nat)
    (rooms : List Nat) (hr : I.roomSizes = some rooms) (h : roomStage I R nd a score = .ok none) :
    codeOk (effSizes I R a) rooms = true := by
  unfold roomStage at h
  rw [hr] at h
  dsimp only at h
  split at h
  · contradiction
  · rename_i x hcr
    -- checkRoom answered `true`: the first search found no conflict
    unfold checkRoom at hcr
    dsimp only at hcr
    split at hcr
    · rename_i hfind
      unfold codeOk walked
      rw [List.find?_eq_none] at hfind
      rw [List.all_eq_true]
      rintro ⟨s, r⟩ hsr
      have hl : ((effSizes I R a).mergeSort leKey) = stableByKey (effSizes I R a) := rfl
      rw [hl, ← map_getD_range (stableByKey (effSizes I R a)) (0, 0) (·.2), ← List.map_reverse,
        List.zip_map_left] at hsr
      simp only [List.mem_map, Prod.map_apply, id_eq, Prod.mk.injEq] at hsr
      obtain ⟨⟨i, r'⟩, hm, rfl, rfl⟩ := hsr
      have := hfind (i, r') hm
      simpa using this
    · exfalso
      repeat' split at hcr
      all_goals first | contradiction | (simp at hcr; done)
  · simp at h

/-- C06, node level -/
theorem C06_node (I : Inst) (R : RoomFns) (nd : Node) (al : List (Option Nat)) (sc : Nat) (rooms : List Nat)
    (hr : I.roomSizes = some rooms) (h : runNodeS I R nd = .ok (.feasible al sc)) :
    ∃ a : Nat → Option Nat, al = (List.range I.P).map a ∧
      ∀ s r, (s, r) ∈ (sortedDesc ((effSizes I R a).map (·.2))).zip rooms → s ≤ r := by
  unfold runNodeS at h
  split at h
  · rename_i r hg
    exfalso
    unfold guards at hg
    repeat' split at hg
    all_goals first
      | (simp only [Option.some.injEq] at hg; rw [← hg] at h; simp at h; done)
      | contradiction
  · split at h
    · contradiction
    · rename_i mm hsc hrun
      unfold post at h
      dsimp only at h
      split at h
      · contradiction
      · rename_i r hrs
        obtain ⟨k, s, rfl⟩ := roomStage_some _ _ _ _ _ _ hrs
        simp at h
      · rename_i hrs
        have hok := roomStage_none I R nd _ _ rooms hr hrs
        unfold feasStage at h
        split at h
        · contradiction
        · simp only [Except.ok.injEq, Res.feasible.injEq] at h
          exact ⟨_, h.1.symm, (codeOk_iff _ _).1 hok⟩
        · simp at h

#print axioms C06_node
end N2
