import Mathlib.Algebra.BigOperators.Group.Finset.Basic
import Mathlib.Algebra.Order.BigOperators.Group.Finset
import Mathlib.Data.Finset.Card
import Cdecao.Proofs.HungProof
/-! Spike: assembling partial correctness of the Hungarian model (C07, optimality part) -/
open Finset

namespace H2

structure Prob where
  X : Finset Nat
  Y : Finset Nat
  w : Nat → Nat → Int
  allowed : Nat → Nat → Prop

structure Perfect (P : Prob) (σ : Nat → Nat) : Prop where
  maps : ∀ y ∈ P.Y, σ y ∈ P.X
  inj : Set.InjOn σ P.Y
  allowed : ∀ y ∈ P.Y, P.allowed (σ y) y

def weight (P : Prob) (σ : Nat → Nat) : Int := ∑ y ∈ P.Y, P.w (σ y) y

structure Cert (P : Prob) (σ : Nat → Nat) (lx ly : Nat → Int) : Prop where
  feas : ∀ x ∈ P.X, ∀ y ∈ P.Y, P.allowed x y → P.w x y ≤ lx x + ly y
  tight : ∀ y ∈ P.Y, lx (σ y) + ly y = P.w (σ y) y

theorem sum_rows_of_perfect (P : Prob) (hsq : #P.X = #P.Y) {σ : Nat → Nat} (hσ : Perfect P σ) (f : Nat → Int) :
    ∑ y ∈ P.Y, f (σ y) = ∑ x ∈ P.X, f x := by
  have himg : P.Y.image σ = P.X := by
    apply eq_of_subset_of_card_le
    · intro x hx
      obtain ⟨y, hy, rfl⟩ := mem_image.1 hx
      exact hσ.maps y hy
    · rw [card_image_of_injOn hσ.inj, hsq]
  rw [← himg, sum_image hσ.inj]

theorem cert_sound (P : Prob) (hsq : #P.X = #P.Y) {σ σ' : Nat → Nat} {lx ly : Nat → Int}
    (hσ : Perfect P σ) (hc : Cert P σ lx ly) (hσ' : Perfect P σ') : weight P σ' ≤ weight P σ := by
  have h1 : weight P σ' ≤ ∑ y ∈ P.Y, (lx (σ' y) + ly y) :=
    sum_le_sum fun y hy => hc.feas _ (hσ'.maps y hy) y hy (hσ'.allowed y hy)
  have h2 : weight P σ = ∑ y ∈ P.Y, (lx (σ y) + ly y) :=
    (sum_congr rfl fun y hy => hc.tight y hy).symm
  rw [h2]
  refine le_trans h1 (le_of_eq ?_)
  rw [sum_add_distrib, sum_add_distrib, sum_rows_of_perfect P hsq hσ' lx, sum_rows_of_perfect P hsq hσ lx]

/-- the abstract problem solved by a call of the matching routine -/
def probOf (I : Inp) : Prob :=
  { X := (range I.nx).filter (fun x => I.skipx.get x = false)
    Y := (range I.ny).filter (fun y => I.skipy.get y = false)
    w := I.wt
    allowed := fun x y => allowed I x y = true }

theorem mem_X (I : Inp) (x : Nat) : x ∈ (probOf I).X ↔ InX I x := by simp [probOf, InX]
theorem mem_Y (I : Inp) (y : Nat) : y ∈ (probOf I).Y ↔ InY I y := by simp [probOf, InY]

theorem rowMax_ge (I : Inp) (x y : Nat) (hy : y < I.ny) : I.wt x y ≤ rowMax I x := by
  unfold rowMax
  have := foldl_range_inv (fun acc y => max acc (I.wt x y))
    (fun n acc => ∀ y, y < n → I.wt x y ≤ acc) I.ny 0 (by intro y h; omega)
    (by
      intro i b _ hb y hy
      by_cases e : y = i
      · subst e; exact le_max_right _ _
      · exact le_trans (hb y (by omega)) (le_max_left _ _))
  exact this y hy

theorem score_eq (I : Inp) (mm : Vec Nat) :
    (List.range I.ny).foldl (fun acc y => if I.skipy.get y then acc else acc + I.wt (mm.get y) y) 0
      = weight (probOf I) mm.get := by
  have := foldl_range_inv (fun acc y => if I.skipy.get y then acc else acc + I.wt (mm.get y) y)
    (fun n acc => acc = ∑ y ∈ (range n).filter (fun y => I.skipy.get y = false), I.wt (mm.get y) y) I.ny 0
    (by simp)
    (by
      intro i b _ hb
      rw [Finset.range_add_one, filter_insert]
      by_cases hs : I.skipy.get i = true
      · simp [hs, hb]
      · have hs' : I.skipy.get i = false := by simpa using hs
        simp only [hs', if_true]
        rw [sum_insert (by simp)]
        simp only [hb, Bool.false_eq_true, if_false]
        omega)
  simp only [weight, probOf]
  exact this

/-- C07, partial-correctness half: whenever the model returns, the result is a constrained perfect
    matching of maximal weight and the returned score is its weight. -/
theorem hung_partial (I : Inp) (hsq : #(probOf I).X = #(probOf I).Y) (mm : Vec Nat) (sc : Int)
    (h : run I = some (mm, sc)) :
    Perfect (probOf I) mm.get ∧ sc = weight (probOf I) mm.get ∧
    ∀ σ', Perfect (probOf I) σ' → weight (probOf I) σ' ≤ sc := by
  simp only [run] at h
  -- the initial state
  let st0 : St := { lx := Vec.tab I.nx (rowMax I), ly := Vec.const I.ny 0, m := Vec.const I.ny false, mm := Vec.const I.ny 0 }
  let free := ((List.range I.nx).filter (fun x => !I.skipx.get x)).reverse
  have m0 : ∀ y, st0.m.get y = false := by
    intro y; simp only [st0, Vec.get_const]; split <;> rfl
  have hinit : OutInv I free st0 := by
    refine ⟨⟨by simp [st0], by simp [st0], ?_, ?_, ?_⟩, by simp [st0], by simp [st0], ?_⟩
    · intro x y hx hy _
      simp only [st0, Vec.get_tab, Vec.get_const, hx.1, hy.1, if_true]
      have := rowMax_ge I x y hy.1; omega
    · intro y hy; simp [m0 y] at hy
    · intro y1 _ hy; simp [m0 y1] at hy
    · intro y hy; simp [m0 y] at hy
  have hfreeX : ∀ u, u ∈ free ↔ InX I u := by
    intro u; simp [free, InX]
  have hnd : free.Nodup := by
    simp only [free, List.nodup_reverse]
    exact List.Nodup.filter _ List.nodup_range
  cases ho : outer I free st0 with
  | none => simp [free, st0, ho] at h
  | some st =>
    simp only [free, st0] at ho
    simp only [ho] at h
    cases h
    obtain ⟨hfin, cols, hlen, hcnd, hiff, hcols⟩ :=
      outer_correct I free st0 st hinit (fun u hu => (hfreeX u).1 hu) hnd ho
    -- all non-skipped columns are matched, by counting
    have hcolsY : cols.toFinset ⊆ (probOf I).Y := by
      intro y hy
      rw [List.mem_toFinset] at hy
      rw [mem_Y]
      exact (hfin.inv.mrow y ((hiff y).2 (Or.inr hy))).1
    have hXcard : #(probOf I).X = free.length := by
      rw [← List.toFinset_card_of_nodup hnd]
      congr 1
      ext x; rw [mem_X, List.mem_toFinset, hfreeX]
    have hall : cols.toFinset = (probOf I).Y := by
      apply eq_of_subset_of_card_le hcolsY
      rw [List.toFinset_card_of_nodup hcnd, hlen, ← hXcard, hsq]
    have hm : ∀ y, InY I y → st.m.get y = true := by
      intro y hy
      apply (hiff y).2; right
      rw [← List.mem_toFinset, hall, mem_Y]; exact hy
    have hperf : Perfect (probOf I) st.mm.get := by
      refine ⟨?_, ?_, ?_⟩
      · intro y hy; rw [mem_Y] at hy; rw [mem_X]; exact (hfin.inv.mrow y (hm y hy)).2.1
      · intro y1 h1 y2 h2 heq
        simp only [coe_filter, mem_range, Set.mem_ofPred_eq, probOf] at h1 h2
        exact hfin.inv.minj y1 y2 (hm y1 ⟨h1.1, h1.2⟩) (hm y2 ⟨h2.1, h2.2⟩) heq
      · intro y hy; rw [mem_Y] at hy; exact (hfin.inv.mrow y (hm y hy)).2.2.1
    have hcert : Cert (probOf I) st.mm.get st.lx.get st.ly.get := by
      refine ⟨?_, ?_⟩
      · intro x hx y hy hal
        rw [mem_X] at hx; rw [mem_Y] at hy
        exact hfin.inv.feas x y hx hy hal
      · intro y hy; rw [mem_Y] at hy
        exact (hfin.inv.mrow y (hm y hy)).2.2.2
    refine ⟨hperf, score_eq I st.mm, ?_⟩
    intro σ' hσ'
    rw [score_eq I st.mm]
    exact cert_sound (probOf I) hsq hperf hcert hσ'

#print axioms hung_partial
end H2
