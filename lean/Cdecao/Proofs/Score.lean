import Mathlib.Algebra.BigOperators.Group.Finset.Basic
import Mathlib.Data.Finset.Card
import Cdecao.Proofs.Gate
import Cdecao.Spec.Score
/-! Spike for C08: the score returned with a feasible node equals the score recomputed from the
    assignment by the documented rule. Builds on the closed forms of `Gate.lean`. -/
open Finset
namespace N2.G

/-- what the node computes: matching score over non-skipped columns + instructor bonus -/
def nodeScore (I : Inst) (X : Ctx) (w : Nat → Nat → Nat) : Nat :=
  (∑ cp ∈ (range X.m).filter (fun cp => X.skipY cp = false), w (X.mm cp) cp) +
  ∑ p ∈ (range I.P).filter (fun p => (instrOf I X p).isSome = true ∧ I.hasChoices p = true), W

/-- the documented rule, applied to the reported assignment -/
def scoreOf (I : Inst) (a : Nat → Option Nat) : Nat :=
  ∑ p ∈ range I.P,
    match a p with
    | none => 0
    | some c => if I.instructs p c = true then (if I.hasChoices p = true then W else 0) else weightOf I p c

/-- facts about the adjacency matrix and the matching beyond `CtxOK` (perfect matching, H2) -/
structure ScoreCtx (I : Inst) (X : Ctx) (w : Nat → Nat → Nat) : Prop where
  wreal : ∀ p cp, p < I.P → cp < X.m → w p cp = weightOf I p (X.courseMap cp)
  wdummy : ∀ x cp, I.P ≤ x → w x cp = 0
  /-- every active participant is matched to some non-skipped column -/
  surj : ∀ p, p < I.P → isInstr I X p = false → ∃ cp, cp < X.m ∧ X.skipY cp = false ∧ X.mm cp = p
  /-- a participant never chose a course they instruct … not needed; instructors of live courses are skipped -/
  instrSkipped : ∀ p c, c < I.C → c ∉ X.cancelled → I.instructs p c = true → isInstr I X p = true

theorem score_truthful (I : Inst) (X : Ctx) (w : Nat → Nat → Nat) (ok : CtxOK I X) (sc : ScoreCtx I X w) :
    nodeScore I X w = scoreOf I (assign I X) := by
  unfold nodeScore scoreOf
  -- split the participants into instructing (of a live course) and the rest
  have hsplit : ∀ p ∈ range I.P,
      (match assign I X p with
        | none => 0
        | some c => if I.instructs p c = true then (if I.hasChoices p = true then W else 0) else weightOf I p c)
      = (if (instrOf I X p).isSome = true ∧ I.hasChoices p = true then W else 0) +
        (if isInstr I X p = false then (match matched X p with | some c => weightOf I p c | none => 0) else 0) := by
    intro p hp
    cases hi : instrOf I X p with
    | some c =>
      obtain ⟨hc, hl, hin⟩ := instrOf_some hi
      have hinstr : isInstr I X p = true := isInstr_true_of hc hl hin
      simp [assign, hi, hin, hinstr]
    | none =>
      simp only [assign, hi, Option.isSome_none, Bool.false_eq_true, false_and, if_false, Nat.zero_add]
      by_cases hact : isInstr I X p = false
      · simp only [hact, if_true]
        cases hm : matched X p with
        | none => rfl
        | some c =>
          simp only
          obtain ⟨cp, h1, h2, h3, h4⟩ := matched_some hm
          have hlive := ok.live cp h1 h2
          rw [h4] at hlive
          have := (isInstr_false hact).2 c hlive.1 hlive.2
          simp [this]
      · have hact' : isInstr I X p = true := by simpa using hact
        simp only [hact', Bool.true_eq_false, if_false]
        -- an inactive participant is never matched
        cases hm : matched X p with
        | none => rfl
        | some c =>
          exfalso
          obtain ⟨cp, h1, h2, h3, _⟩ := matched_some hm
          have := ok.rows cp h1 h2 (by rw [h3]; exact mem_range.1 hp)
          rw [h3] at this; simp [hact'] at this
  rw [sum_congr rfl hsplit, sum_add_distrib, Nat.add_comm]
  congr 1
  · -- instructor bonus
    rw [sum_filter]
  · -- matching part: reindex columns by rows
    rw [← sum_filter]
    -- columns with dummy rows contribute nothing
    have hcols : ∑ cp ∈ (range X.m).filter (fun cp => X.skipY cp = false), w (X.mm cp) cp
        = ∑ cp ∈ (range X.m).filter (fun cp => X.skipY cp = false ∧ X.mm cp < I.P), w (X.mm cp) cp := by
      rw [← sum_filter_add_sum_filter_not ((range X.m).filter (fun cp => X.skipY cp = false)) (fun cp => X.mm cp < I.P)]
      rw [filter_filter, filter_filter]
      have : ∑ cp ∈ (range X.m).filter (fun cp => X.skipY cp = false ∧ ¬ X.mm cp < I.P), w (X.mm cp) cp = 0 := by
        apply sum_eq_zero
        intro cp hcp
        simp only [mem_filter, mem_range, not_lt] at hcp
        exact sc.wdummy _ cp hcp.2.2
      rw [this, Nat.add_zero]
    rw [hcols]
    -- bijection column ↦ row
    apply sum_bij (fun cp _ => X.mm cp)
    · intro cp hcp
      simp only [mem_filter, mem_range] at hcp ⊢
      exact ⟨hcp.2.2, ok.rows cp hcp.1 hcp.2.1 hcp.2.2⟩
    · intro c1 h1 c2 h2 heq
      simp only [mem_filter, mem_range] at h1 h2
      exact ok.inj c1 c2 h1.1 h2.1 h1.2.1 h2.2.1 heq
    · intro p hp
      simp only [mem_filter, mem_range] at hp
      obtain ⟨cp, h1, h2, h3⟩ := sc.surj p hp.1 hp.2
      exact ⟨cp, by simp only [mem_filter, mem_range]; exact ⟨h1, h2, by rw [h3]; exact hp.1⟩, h3⟩
    · intro cp hcp
      simp only [mem_filter, mem_range] at hcp
      obtain ⟨h1, h2, h3⟩ := hcp
      rw [sc.wreal _ cp h3 h1]
      -- the participant's matched course is the course of this (unique) column
      have hm : matched X (X.mm cp) = some (X.courseMap cp) := by
        cases hm' : matched X (X.mm cp) with
        | none =>
          exfalso
          simp only [matched, Option.map_eq_none_iff] at hm'
          have := find_rev_range_none hm' cp h1
          simp [h2] at this
        | some c =>
          obtain ⟨cp', g1, g2, g3, g4⟩ := matched_some hm'
          have := ok.inj cp' cp g1 h1 g2 h2 g3
          rw [← g4, this]
      rw [hm]

#print axioms score_truthful
end N2.G
