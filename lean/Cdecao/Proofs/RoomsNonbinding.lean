import Cdecao.Proofs.NodeEng3
import Cdecao.Proofs.SpecExec
/-! # C17 `rooms_nonbinding` — a room list that cannot bind changes nothing

If every room among the `I.C` largest is at least as large as any course can become
(`NonBinding`), then

* `rooms_nonbinding`: at every node the node solver returns literally the same result as on the
  room-free problem `I.noRooms = { I with rooms := none }`;
* `rooms_nonbinding_tree`: the search trees below the root coincide (same nodes, same verdicts,
  same children);
* `rooms_nonbinding_reach`: the parallel engine passes through exactly the same configurations, for
  every thread count and schedule.

Route: everything before `roomStage` reads only `I.cs` / `I.ps` (`noRooms_*`); `roomStage` answers
`.ok none` because the first `find?` of `checkRoom` finds no conflict (`checkRoom_fits`): every
effective size is `0` or `R.eff c cnt` with `cnt` the number of participants assigned to `c`, and
`cnt ≤ numMax + #instructors` (`node_count_le`): the attendees of `c` occupy distinct live columns of
`c` (`G.attendees_le_numMax`, from `CtxOK.cap/inj`), the others are listed in `instructors`. -/
namespace N2
open H2

/-- the same problem without room list -/
def Inst.noRooms (I : Inst) : Inst := { I with rooms := none }

section noRooms
variable (I : Inst) (nd : Node)

theorem noRooms_cs : I.noRooms.cs = I.cs := rfl
theorem noRooms_ps : I.noRooms.ps = I.ps := rfl
theorem noRooms_C : I.noRooms.C = I.C := rfl
theorem noRooms_P : I.noRooms.P = I.P := rfl
theorem noRooms_course : I.noRooms.course = I.course := rfl
theorem noRooms_part : I.noRooms.part = I.part := rfl
theorem noRooms_instructorOnly : I.noRooms.instructorOnly = I.instructorOnly := rfl
theorem noRooms_precomputeOk : I.noRooms.precomputeOk = I.precomputeOk := rfl
theorem noRooms_maxSkipped : I.noRooms.maxSkipped = I.maxSkipped := rfl
theorem noRooms_skipXBase : skipXBase I.noRooms nd = skipXBase I nd := rfl
theorem noRooms_effMax : effMax I.noRooms nd = effMax I nd := rfl
theorem noRooms_numSkipY : numSkipY I.noRooms nd = numSkipY I nd := rfl
theorem noRooms_instrOf : instrOf I.noRooms nd = instrOf I nd := rfl

theorem noRooms_inv : inv I.noRooms = inv I := by
  funext c
  induction c with
  | zero => rfl
  | succ c ih => simp only [inv, ih, noRooms_course]

theorem noRooms_m : I.noRooms.m = I.m := by
  simp only [Inst.m, noRooms_inv, noRooms_C]

theorem noRooms_courseOf : courseOf I.noRooms = courseOf I := by
  funext C
  induction C with
  | zero => rfl
  | succ C ih => funext cp; simp only [courseOf, ih, noRooms_inv]

theorem noRooms_colCourse : I.noRooms.colCourse = I.colCourse := by
  funext cp; simp only [Inst.colCourse, noRooms_courseOf, noRooms_C]

theorem noRooms_colPos : I.noRooms.colPos = I.colPos := by
  funext cp; simp only [Inst.colPos, noRooms_colCourse, noRooms_inv]

theorem noRooms_n : I.noRooms.n = I.n := by
  simp only [Inst.n, noRooms_m, noRooms_maxSkipped, noRooms_P]

theorem noRooms_weight : I.noRooms.weight = I.weight := by
  funext x cp; simp only [Inst.weight, noRooms_P, noRooms_part, noRooms_colCourse]

theorem noRooms_numSkipX : numSkipX I.noRooms nd = numSkipX I nd := by
  simp only [numSkipX, noRooms_n, noRooms_skipXBase]

theorem noRooms_skipY : skipY I.noRooms nd = skipY I nd := by
  funext cp; simp only [skipY, noRooms_effMax, noRooms_colCourse, noRooms_colPos]

theorem noRooms_mandY : mandY I.noRooms nd = mandY I nd := by
  funext cp; simp only [mandY, noRooms_colCourse, noRooms_colPos, noRooms_course]

theorem noRooms_matchedOf (mm : Nat → Nat) : matchedOf I.noRooms nd mm = matchedOf I nd mm := by
  funext p; simp only [matchedOf, noRooms_m, noRooms_skipY, noRooms_colCourse]

theorem noRooms_assign (mm : Nat → Nat) : assign I.noRooms nd mm = assign I nd mm := by
  funext p; simp only [assign, noRooms_instrOf, noRooms_matchedOf]

theorem noRooms_checkFeas : checkFeas I.noRooms nd = checkFeas I nd := rfl

theorem noRooms_nodeInp : nodeInp I.noRooms nd = nodeInp I nd := by
  simp only [nodeInp, noRooms_n, noRooms_m, noRooms_P, noRooms_weight, noRooms_numSkipX, noRooms_numSkipY,
    noRooms_skipXBase, noRooms_mandY, noRooms_skipY]
  rfl

theorem noRooms_guards : guards I.noRooms nd = guards I nd := by
  simp only [guards, noRooms_n, noRooms_m, noRooms_P, noRooms_C, noRooms_numSkipX, noRooms_numSkipY,
    noRooms_skipXBase, noRooms_mandY, noRooms_skipY, noRooms_precomputeOk, noRooms_course, noRooms_part,
    noRooms_effMax]
  rfl

theorem noRooms_feasStage (a : Nat → Option Nat) (s : Nat) :
    feasStage I.noRooms nd a s = feasStage I nd a s := by
  simp only [feasStage, noRooms_checkFeas, noRooms_nodeInp, noRooms_P, noRooms_course]
  rfl

theorem noRooms_roomStage (R : RoomFns) (a : Nat → Option Nat) (s : Nat) :
    roomStage I.noRooms R nd a s = .ok none := rfl

theorem noRooms_bonusOf : bonusOf I.noRooms nd = bonusOf I nd := rfl

theorem post_noRooms (R : RoomFns) (mm : Vec Nat) (sc : Int) :
    post I.noRooms R nd mm sc
      = feasStage I nd (Vec.tab I.P (assign I nd mm.get)).get (sc.toNat + bonusOf I nd) := by
  unfold post
  simp only [noRooms_roomStage, noRooms_feasStage, noRooms_P, noRooms_assign]
  rfl

end noRooms

theorem post_of_roomStage_none (I : Inst) (R : RoomFns) (nd : Node) (mm : Vec Nat) (sc : Int)
    (h : roomStage I R nd (Vec.tab I.P (assign I nd mm.get)).get (sc.toNat + bonusOf I nd) = .ok none) :
    post I R nd mm sc
      = feasStage I nd (Vec.tab I.P (assign I nd mm.get)).get (sc.toNat + bonusOf I nd) := by
  unfold post
  dsimp only
  unfold bonusOf at h
  rw [h]
  rfl

/-! ## a room list in which everything fits -/

theorem checkRoom_fits (I : Inst) (R : RoomFns) (nd : Node) (a : Nat → Option Nat) (rooms : List Nat)
    (h : ∀ x ∈ effSizes I R a, ∀ r ∈ rooms, x.2 ≤ r) : checkRoom I R nd a rooms = .ok (true, []) := by
  unfold checkRoom
  dsimp only
  split
  · rfl
  · rename_i ci r hf
    exfalso
    have hp := List.find?_some hf
    have hm := List.mem_of_find?_eq_some hf
    have hm' := List.of_mem_zip hm
    obtain ⟨h1, h2⟩ := hm'
    simp only [List.mem_reverse, List.mem_range] at h1
    simp only [decide_eq_true_eq] at hp
    have hx : (stableByKey (effSizes I R a)).getD ci (0, 0) ∈ stableByKey (effSizes I R a) := by
      rw [List.getD_eq_getElem?_getD, List.getElem?_eq_getElem h1]
      exact List.getElem_mem _
    have := h _ ((stable_mem _ _).1 hx) r h2
    omega

theorem roomStage_fits (I : Inst) (R : RoomFns) (nd : Node) (a : Nat → Option Nat) (s : Nat)
    (padded : List Nat) (hp : I.roomSizes = some padded)
    (h : ∀ x ∈ effSizes I R a, ∀ r ∈ padded, x.2 ≤ r) : roomStage I R nd a s = .ok none := by
  unfold roomStage
  rw [hp]
  dsimp only
  rw [checkRoom_fits I R nd a padded h]

/-! ## the counting bound: a course never holds more than `numMax + #instructors` people -/

theorem countP_le_add {α : Type} (l : List α) (p q r : α → Bool)
    (h : ∀ x ∈ l, p x = true → q x = true ∨ r x = true) : l.countP p ≤ l.countP q + l.countP r := by
  induction l with
  | nil => simp
  | cons x xs ih =>
    have ih' := ih (fun y hy => h y (List.mem_cons_of_mem _ hy))
    have hx := h x (List.mem_cons_self ..)
    simp only [List.countP_cons]
    have : (if p x = true then 1 else 0) ≤ (if q x = true then 1 else 0) + (if r x = true then 1 else 0) := by
      by_cases hp : p x = true
      · rcases hx hp with hq | hr
        · simp [hp, hq]
        · simp [hp, hr]
      · simp [hp]
    omega

/-- the number of distinct participants in a list is at most its length -/
theorem countP_contains_le (L : List Nat) (n : Nat) :
    (List.range n).countP (fun p => L.contains p) ≤ L.length := by
  rw [G.countP_range_eq_card]
  refine le_trans (Finset.card_le_card ?_) (List.toFinset_card_le L)
  intro p hp
  simp only [Finset.mem_filter, List.contains_iff_mem] at hp
  exact List.mem_toFinset.2 hp.2

/-- attendees (assigned, not instructing the course) inject into the live columns of the course
    (the `max` part of `G.gate_sound`, which does not need the gate) -/
theorem G.attendees_le_numMax (I : Inst) (X : G.Ctx) (ok : G.CtxOK I X) (c : Nat) (hc : c < I.C) :
    G.attendees I (G.assign I X) c ≤ (I.course c).numMax := by
  have att_col : ∀ p c, G.assign I X p = some c → I.instructs p c = false → G.matched X p = some c := by
    intro p c ha hni
    rcases G.assign_cases ha with h | ⟨_, h⟩
    · obtain ⟨_, _, h3⟩ := G.instrOf_some h; simp [hni] at h3
    · exact h
  refine le_trans ?_ (ok.cap c hc)
  unfold G.attendees
  rw [G.countP_range_eq_card]
  apply Finset.card_le_card_of_injOn (G.colOf X)
  · intro p hp
    simp only [Finset.coe_filter, Finset.mem_range, Set.mem_ofPred_eq, Bool.and_eq_true, beq_iff_eq,
      Bool.not_eq_true'] at hp
    obtain ⟨_, ha, hni⟩ := hp
    obtain ⟨h1, h2, _, h4⟩ := G.colOf_spec (att_col p c ha hni)
    simp only [Finset.coe_filter, Finset.mem_range, Set.mem_ofPred_eq]
    exact ⟨h1, h2, h4⟩
  · intro p1 hp1 p2 hp2 heq
    simp only [Finset.coe_filter, Finset.mem_range, Set.mem_ofPred_eq, Bool.and_eq_true, beq_iff_eq,
      Bool.not_eq_true'] at hp1 hp2
    obtain ⟨_, _, h3, _⟩ := G.colOf_spec (att_col p1 c hp1.2.1 hp1.2.2)
    obtain ⟨_, _, h3', _⟩ := G.colOf_spec (att_col p2 c hp2.2.1 hp2.2.2)
    rw [← h3, ← h3', heq]

/-- the counting bound for any context satisfying `CtxOK` -/
theorem G.count_le (I : Inst) (X : G.Ctx) (ok : G.CtxOK I X) (c : Nat) (hc : c < I.C) :
    (List.range I.P).countP (fun p => G.assign I X p == some c)
      ≤ (I.course c).numMax + (I.course c).instructors.length := by
  refine le_trans (countP_le_add _ _ (fun p => G.assign I X p == some c && !I.instructs p c)
    (fun p => (I.course c).instructors.contains p) ?_) (Nat.add_le_add ?_ ?_)
  · intro p _ hp
    cases hi : I.instructs p c with
    | true => right; exact hi
    | false => left; simp [hp]
  · exact G.attendees_le_numMax I X ok c hc
  · exact countP_contains_le _ _

/-- the counting bound at a node: after the matching, the number of participants assigned to a
    course is at most `numMax + #instructors` -/
theorem node_count_le (I : Inst) (nd : Node) (hI : InstOK I) (hn : NodeOK I nd) (mm : Vec Nat)
    (hperf : Perfect (probOf (nodeInp I nd)) mm.get) (c : Nat) (hc : c < I.C) :
    (List.range I.P).countP (fun p => (Vec.tab I.P (assign I nd mm.get)).get p == some c)
      ≤ (I.course c).numMax + (I.course c).instructors.length := by
  have hctx := ctxOK I nd hI hn mm hperf
  have := G.count_le I _ hctx c hc
  refine le_trans (Nat.le_of_eq ?_) this
  apply List.countP_congr
  intro p hp
  rw [Vec.get_tab]
  simp [List.mem_range.1 hp, assign_eq]

/-! ## the node theorem -/

/-- the non-binding hypothesis: every room among the `I.C` largest (`padded = I.roomSizes`) is at
    least as large as any course can become -/
def NonBinding (I : Inst) (R : RoomFns) (padded : List Nat) : Prop :=
  ∀ c, c < I.C → ∀ n, n ≤ (I.course c).numMax + (I.course c).instructors.length →
    ∀ r ∈ padded, R.eff c n ≤ r

theorem effSizes_fit (I : Inst) (R : RoomFns) (a : Nat → Option Nat) (padded : List Nat)
    (hnb : NonBinding I R padded)
    (hcnt : ∀ c, c < I.C → (List.range I.P).countP (fun p => a p == some c)
      ≤ (I.course c).numMax + (I.course c).instructors.length) :
    ∀ x ∈ effSizes I R a, ∀ r ∈ padded, x.2 ≤ r := by
  intro x hx r hr
  simp only [effSizes, List.mem_map, List.mem_range] at hx
  obtain ⟨c, hc, rfl⟩ := hx
  split
  · exact Nat.zero_le _
  · exact hnb c hc _ (hcnt c hc) r hr

/-- **C17 `rooms_nonbinding`, node level**: a room list that cannot bind changes nothing -/
theorem rooms_nonbinding (I : Inst) (R : RoomFns) (nd : Node) (padded : List Nat)
    (hp : I.roomSizes = some padded) (hI : InstOK I) (hn : NodeOK I nd)
    (hnb : NonBinding I R padded) : runNodeS I R nd = runNodeS I.noRooms R nd := by
  unfold runNodeS
  rw [noRooms_guards, noRooms_nodeInp]
  cases hg : guards I nd with
  | some r => rfl
  | none =>
    dsimp only
    obtain ⟨hpre, hu, hfit⟩ := guards_none I nd hg
    cases hrun : H2.run (nodeInp I nd) with
    | none => rfl
    | some res =>
      obtain ⟨mm, sc⟩ := res
      dsimp only
      obtain ⟨hperf, _, _⟩ := hung_partial (nodeInp I nd) (node_square I nd hpre hu hfit) mm sc hrun
      rw [post_noRooms]
      apply post_of_roomStage_none
      apply roomStage_fits I R nd _ _ padded hp
      exact effSizes_fit I R _ padded hnb (node_count_le I nd hI hn mm hperf)

theorem NodeOK2.nodeOK {I : Inst} {nd : Node} (h : NodeOK2 I nd) : NodeOK I nd :=
  fun c hc => (h.canc c hc).2.1

/-- the statement of the task: `InstOK2`, `NodeOK2`, and the rooms spelled out -/
theorem rooms_nonbinding' (I : Inst) (R : RoomFns) (nd : Node) (rooms padded : List Nat)
    (_hr : I.rooms = some rooms) (hp : I.roomSizes = some padded) (hI : InstOK2 I) (hn : NodeOK2 I nd)
    (hnb : ∀ c, c < I.C → ∀ n, n ≤ (I.course c).numMax + (I.course c).instructors.length →
      ∀ r ∈ padded, R.eff c n ≤ r) :
    runNodeS I R nd = runNodeS { I with rooms := none } R nd :=
  rooms_nonbinding I R nd padded hp hI.toInstOK hn.nodeOK hnb

end N2

/-! ## two node solvers that agree on the search tree of one of them drive the engine identically -/
namespace Eng3
variable {ν σ : Type}

/-- `S` and `S'` give the same verdict and the same children at `n` -/
def AgreeAt (S S' : Solver ν σ) (n : ν) : Prop := S.res n = S'.res n ∧ S.kids n = S'.kids n

theorem pushed_congr (S S' : Solver ν σ) (t : ν) (h : AgreeAt S S' t) :
    @pushed ν σ S t = @pushed ν σ S' t := by
  unfold pushed
  rw [h.1, h.2]

/-- below a node of `S`'s tree, the two trees have the same nodes -/
theorem desc_congr (S S' : Solver ν σ) (root : ν)
    (h : ∀ n, @Desc ν σ S n root → AgreeAt S S' n) :
    ∀ f t, @Desc ν σ S t root → (@Desc ν σ S f t ↔ @Desc ν σ S' f t) := by
  intro f t ht
  constructor
  · intro hd
    induction hd with
    | refl => exact @Desc.refl ν σ S' _
    | @step k t hk _ ih =>
      have hk' : k ∈ @pushed ν σ S' t := by rw [← pushed_congr S S' t (h t ht)]; exact hk
      have hkr : @Desc ν σ S k root := @desc_trans ν σ S _ _ _ (@Desc.step ν σ S _ _ _ hk (@Desc.refl ν σ S k)) ht
      exact @Desc.step ν σ S' _ _ _ hk' (ih hkr)
  · intro hd
    induction hd with
    | refl => exact @Desc.refl ν σ S _
    | @step k t hk' _ ih =>
      have hk : k ∈ @pushed ν σ S t := by rw [pushed_congr S S' t (h t ht)]; exact hk'
      have hkr : @Desc ν σ S k root := @desc_trans ν σ S _ _ _ (@Desc.step ν σ S _ _ _ hk (@Desc.refl ν σ S k)) ht
      exact @Desc.step ν σ S _ _ _ hk (ih hkr)

theorem applyRes_congr (S S' : Solver ν σ) (c : Cfg ν σ) (n : ν) (h : AgreeAt S S' n) :
    @applyRes ν σ S c n = @applyRes ν σ S' c n := by
  unfold applyRes
  rw [h.1, h.2]

theorem step?_congr (S S' : Solver ν σ) (c : Cfg ν σ) (ev : Ev)
    (h : ∀ (t : Nat) (n : ν), c.pcs[t]? = some (Pc.want (some n)) → AgreeAt S S' n) :
    @step? ν σ S c ev = @step? ν σ S' c ev := by
  cases ev with
  | acquire t =>
    rcases hl : c.lock with _ | l
    · rcases ht : c.pcs[t]? with _ | pc
      · simp only [step?, hl, ht]
      · cases pc with
        | want r =>
          cases r with
          | none => simp only [step?, hl, ht]
          | some n =>
            have ha := h t n ht
            simp only [step?, hl, ht]
            rw [applyRes_congr S S' c n ha]
            rw [ha.1]
        | _ => simp only [step?, hl, ht]
    · simp only [step?, hl]
  | _ => rfl

/-- the engine has the same reachable configurations under both solvers: every thread count, every
    schedule -/
theorem reach_congr (S S' : Solver ν σ) (root : ν) (h : ∀ n, @Desc ν σ S n root → AgreeAt S S' n)
    (top T : Nat) (c : Cfg ν σ) : @Reach ν σ S root top T c ↔ @Reach ν σ S' root top T c := by
  have h' : ∀ n, @Desc ν σ S' n root → AgreeAt S S' n := fun n hn =>
    h n ((desc_congr S S' root h n root (@Desc.refl ν σ S root)).2 hn)
  constructor
  · intro hr
    induction hr with
    | init => exact @Reach.init ν σ S' _ _ _
    | @step c ev c' hr hs ih =>
      have hinv := @reach_solinv ν σ S _ _ _ _ hr
      refine @Reach.step ν σ S' _ _ _ c ev c' ih ?_
      rw [← step?_congr S S' c ev]
      · exact hs
      · intro t n ht
        exact h n (@SolInv.fly ν σ S _ _ hinv _ (List.mem_of_getElem? ht) n rfl)
  · intro hr
    induction hr with
    | init => exact @Reach.init ν σ S _ _ _
    | @step c ev c' hr hs ih =>
      have hinv := @reach_solinv ν σ S' _ _ _ _ hr
      refine @Reach.step ν σ S _ _ _ c ev c' ih ?_
      rw [step?_congr S S' c ev]
      · exact hs
      · intro t n ht
        exact h' n (@SolInv.fly ν σ S' _ _ hinv _ (List.mem_of_getElem? ht) n rfl)

end Eng3

namespace N2
open H2

/-! ## the whole search -/

theorem rootNode_ok2 (I : Inst) : NodeOK2 I rootNode :=
  ⟨by simp [rootNode], by simp [rootNode], by simp [rootNode]⟩

/-- the two `Solver` instances agree on `res` and `kids` at every node satisfying `NodeOK2` -/
theorem solver_agree (I : Inst) (R : RoomFns) (padded : List Nat) (hp : I.roomSizes = some padded)
    (hI : InstOK I) (hnb : NonBinding I R padded) (nd : Node) (hn : NodeOK2 I nd) :
    Eng3.AgreeAt (solverOf I R) (solverOf I.noRooms R) nd := by
  have := rooms_nonbinding I R nd padded hp hI hn.nodeOK hnb
  unfold Eng3.AgreeAt
  simp only [Eng3.Solver.res, Eng3.Solver.kids]
  rw [this]
  exact ⟨rfl, rfl⟩

/-- … hence at every node of the search tree -/
theorem solver_agree_desc (I : Inst) (R : RoomFns) (padded : List Nat) (hp : I.roomSizes = some padded)
    (hI : InstOK I) (hnb : NonBinding I R padded) (n : Node)
    (hd : @Eng3.Desc Node (List (Option Nat)) (solverOf I R) n rootNode) :
    Eng3.AgreeAt (solverOf I R) (solverOf I.noRooms R) n :=
  solver_agree I R padded hp hI hnb n (desc_ok2 I R n rootNode hd (rootNode_ok2 I))

/-- **C17 `rooms_nonbinding`, search tree**: with a room list that cannot bind, the search tree below
    the root is the search tree of the room-free problem: same nodes, and at every node the same
    verdict (including score and assignment) and the same children -/
theorem rooms_nonbinding_tree (I : Inst) (R : RoomFns) (padded : List Nat)
    (hp : I.roomSizes = some padded) (hI : InstOK I) (hnb : NonBinding I R padded) (f : Node) :
    (@Eng3.Desc Node (List (Option Nat)) (solverOf I R) f rootNode ↔
      @Eng3.Desc Node (List (Option Nat)) (solverOf I.noRooms R) f rootNode) ∧
    (@Eng3.Desc Node (List (Option Nat)) (solverOf I R) f rootNode →
      (solverOf I R).res f = (solverOf I.noRooms R).res f ∧
      (solverOf I R).kids f = (solverOf I.noRooms R).kids f) :=
  ⟨Eng3.desc_congr _ _ rootNode (solver_agree_desc I R padded hp hI hnb) f rootNode
      (@Eng3.Desc.refl Node (List (Option Nat)) (solverOf I R) rootNode),
   solver_agree_desc I R padded hp hI hnb f⟩

/-- **C17 `rooms_nonbinding`, parallel search**: for every thread count and every schedule the engine
    passes through exactly the same configurations (pending list, incumbent, score, thread states)
    as on the room-free problem -/
theorem rooms_nonbinding_reach (I : Inst) (R : RoomFns) (padded : List Nat)
    (hp : I.roomSizes = some padded) (hI : InstOK I) (hnb : NonBinding I R padded) (top T : Nat)
    (c : Eng3.Cfg Node (List (Option Nat))) :
    @Eng3.Reach Node (List (Option Nat)) (solverOf I R) rootNode top T c ↔
      @Eng3.Reach Node (List (Option Nat)) (solverOf I.noRooms R) rootNode top T c :=
  Eng3.reach_congr _ _ rootNode (solver_agree_desc I R padded hp hI hnb) top T c

/-! ## a sufficient condition on the room list itself -/

/-- with at least `I.C` rooms, the padded list consists of given rooms only -/
theorem roomSizes_mem (I : Inst) (rooms padded : List Nat) (hr : I.rooms = some rooms)
    (hp : I.roomSizes = some padded) (hlen : I.C ≤ rooms.length) : ∀ r ∈ padded, r ∈ rooms := by
  simp only [Inst.roomSizes, hr, Option.map_some, Option.some.injEq] at hp
  subst hp
  intro r hr
  have hl : (rooms.foldr insertDesc []).length = rooms.length := (foldr_insertDesc_perm rooms).length_eq
  rw [hl, Nat.sub_eq_zero_of_le hlen, List.replicate_zero, List.append_nil] at hr
  exact (foldr_insertDesc_perm rooms).mem_iff.1 (List.mem_of_mem_take hr)

/-- at least as many rooms as courses, each room large enough for every course at its largest -/
theorem nonBinding_of_all (I : Inst) (R : RoomFns) (rooms padded : List Nat) (hr : I.rooms = some rooms)
    (hp : I.roomSizes = some padded) (hlen : I.C ≤ rooms.length)
    (hall : ∀ c, c < I.C → ∀ n, n ≤ (I.course c).numMax + (I.course c).instructors.length →
      ∀ r ∈ rooms, R.eff c n ≤ r) : NonBinding I R padded :=
  fun c hc n hn r hrp => hall c hc n hn r (roomSizes_mem I rooms padded hr hp hlen r hrp)

/-- non-vacuity: two courses (sizes ≤ 2 + 1 and ≤ 3 + 0), three rooms, the two largest hold 4 and 5 -/
example :
    let I : Inst := { cs := [⟨1, 2, false, [0]⟩, ⟨0, 3, true, []⟩]
                      ps := [⟨[]⟩, ⟨[⟨0, 0⟩, ⟨1, 5⟩]⟩, ⟨[⟨1, 0⟩]⟩]
                      rooms := some [4, 1, 5] }
    let R : RoomFns := ⟨fun _ n => n + 1, fun _ r => r - 1⟩
    I.roomSizes = some [5, 4] ∧ InstOK2 I ∧ NodeOK2 I rootNode ∧ NonBinding I R [5, 4] := by
  intro I R
  refine ⟨by decide, (validb_sound I (by decide)).1, rootNode_ok2 I, ?_⟩
  intro c hc n hn r hr
  have hC : I.C = 2 := rfl
  rw [hC] at hc
  simp only [List.mem_cons, List.not_mem_nil, or_false] at hr
  show n + 1 ≤ r
  have h0 : (I.course 0).numMax + (I.course 0).instructors.length = 3 := rfl
  have h1 : (I.course 1).numMax + (I.course 1).instructors.length = 3 := rfl
  have : n ≤ 3 := by
    rcases Nat.lt_succ_iff_lt_or_eq.1 hc with h | h
    · have : c = 0 := by omega
      subst this; omega
    · subst h; omega
  omega

#print axioms rooms_nonbinding
#print axioms rooms_nonbinding_tree
#print axioms rooms_nonbinding_reach
end N2
