/-! Spike for C12: the registration loop of io/cdedb.rs:192-263 on a typed view of the registrations.
    The running participant index advances only for kept registrations, so every stored instructor
    index points at the registration that instructs that course. Core only. -/
namespace RD

structure Reg where
  id : Nat
  isParticipant : Bool            -- status 2 in the part of the selected track
  assigned : Option Nat           -- index of a kept course, if assigned to one
  instructed : Option Nat         -- index of a kept course, if instructing one
  choices : List (Nat × Nat)      -- (kept course index, penalty = rank in the original list)

structure Part where
  index : Nat
  dbid : Nat
  choices : List (Nat × Nat)

structure St where
  i : Nat
  parts : List Part                      -- in order
  instr : List (Nat × Nat)               -- (course index, participant index) in push order
  invisible : List (Nat × Bool)          -- (course index, as instructor?) for ignored registrations

def ignored (ignoreAssigned : Bool) (r : Reg) : Bool := ignoreAssigned && r.assigned.isSome
def keep (ignoreAssigned : Bool) (r : Reg) : Bool :=
  r.isParticipant && !ignored ignoreAssigned r && !(r.choices.isEmpty && r.instructed.isNone)

def step (ia : Bool) (s : St) (r : Reg) : St :=
  if !r.isParticipant then s
  else if ignored ia r then
    match r.assigned with
    | some c => { s with invisible := s.invisible ++ [(c, decide (r.instructed = some c))] }
    | none => s
  else if r.choices.isEmpty && r.instructed.isNone then s
  else
    let instr := match r.instructed with
      | some c => s.instr ++ [(c, s.i)]
      | none => s.instr
    { s with i := s.i + 1, parts := s.parts ++ [{ index := s.i, dbid := r.id, choices := r.choices }], instr := instr }

def read (ia : Bool) (regs : List Reg) : St := regs.foldl (step ia) { i := 0, parts := [], instr := [], invisible := [] }

/-- the kept registrations, in document order -/
def kept (ia : Bool) (regs : List Reg) : List Reg := regs.filter (keep ia)

theorem step_keep (ia : Bool) (s : St) (r : Reg) (h : keep ia r = true) :
    step ia s r = { s with i := s.i + 1, parts := s.parts ++ [{ index := s.i, dbid := r.id, choices := r.choices }],
                           instr := match r.instructed with | some c => s.instr ++ [(c, s.i)] | none => s.instr } := by
  simp only [keep, Bool.and_eq_true, Bool.not_eq_true'] at h
  obtain ⟨⟨h1, h2⟩, h3⟩ := h
  simp [step, h1, h2, h3]

theorem step_drop (ia : Bool) (s : St) (r : Reg) (h : keep ia r = false) :
    (step ia s r).i = s.i ∧ (step ia s r).parts = s.parts ∧ (step ia s r).instr = s.instr := by
  unfold step
  by_cases h1 : r.isParticipant = true
  · by_cases h2 : ignored ia r = true
    · simp only [h1, h2, Bool.not_true, if_true]
      cases r.assigned <;> simp
    · have h2' : ignored ia r = false := by simpa using h2
      have h3 : (r.choices.isEmpty && r.instructed.isNone) = true := by
        simp only [keep, h1, h2', Bool.true_and, Bool.not_false, Bool.and_eq_false_iff] at h
        simpa using h
      simp [h1, h2', h3]
  · simp [h1]

/-- loop invariant, stated against the list of kept registrations processed so far -/
structure Inv (ia : Bool) (done : List Reg) (s : St) : Prop where
  idx : s.i = (kept ia done).length
  parts : s.parts = (kept ia done).zipIdx.map (fun (r, k) => { index := k, dbid := r.id, choices := r.choices })
  instr : ∀ c k, (c, k) ∈ s.instr ↔ ∃ r, (kept ia done)[k]? = some r ∧ r.instructed = some c

theorem inv_step (ia : Bool) (done : List Reg) (s : St) (r : Reg) (h : Inv ia done s) :
    Inv ia (done ++ [r]) (step ia s r) := by
  by_cases hk : keep ia r = true
  · have hkept : kept ia (done ++ [r]) = kept ia done ++ [r] := by simp [kept, List.filter_append, hk]
    rw [step_keep ia s r hk]
    refine ⟨?_, ?_, ?_⟩
    · simp [hkept, h.idx]
    · simp only [hkept, h.parts, List.zipIdx_append, List.map_append]
      simp [h.idx]
    · intro c k
      simp only [hkept]
      cases hi : r.instructed with
      | none =>
        simp only
        rw [h.instr c k]
        constructor
        · rintro ⟨r', hr', hc⟩
          exact ⟨r', by rw [List.getElem?_append_left (by
            rcases Nat.lt_or_ge k (kept ia done).length with hlt | hge
            · exact hlt
            · simp [List.getElem?_eq_none hge] at hr')]; exact hr', hc⟩
        · rintro ⟨r', hr', hc⟩
          rcases Nat.lt_or_ge k (kept ia done).length with hlt | hge
          · rw [List.getElem?_append_left hlt] at hr'; exact ⟨r', hr', hc⟩
          · rw [List.getElem?_append_right hge] at hr'
            have : k - (kept ia done).length = 0 := by
              rcases Nat.eq_zero_or_pos (k - (kept ia done).length) with h0 | hp
              · exact h0
              · rw [List.getElem?_eq_none (show [r].length ≤ k - (kept ia done).length by
                  simp only [List.length_singleton]; omega)] at hr'
                cases hr'
            simp [this] at hr'; subst hr'; simp [hi] at hc
      | some c0 =>
        simp only [List.mem_append, List.mem_singleton, Prod.mk.injEq]
        rw [h.instr c k]
        constructor
        · rintro (⟨r', hr', hc⟩ | ⟨rfl, rfl⟩)
          · exact ⟨r', by rw [List.getElem?_append_left (by
              rcases Nat.lt_or_ge k (kept ia done).length with hlt | hge
              · exact hlt
              · simp [List.getElem?_eq_none hge] at hr')]; exact hr', hc⟩
          · exact ⟨r, by rw [h.idx]; simp, hi⟩
        · rintro ⟨r', hr', hc⟩
          rcases Nat.lt_or_ge k (kept ia done).length with hlt | hge
          · rw [List.getElem?_append_left hlt] at hr'; exact Or.inl ⟨r', hr', hc⟩
          · rw [List.getElem?_append_right hge] at hr'
            have hk0 : k - (kept ia done).length = 0 := by
              rcases Nat.eq_zero_or_pos (k - (kept ia done).length) with h0 | hp
              · exact h0
              · rw [List.getElem?_eq_none (show [r].length ≤ k - (kept ia done).length by
                  simp only [List.length_singleton]; omega)] at hr'
                cases hr'
            simp [hk0] at hr'; subst hr'
            right
            rw [hi] at hc; cases hc
            exact ⟨rfl, by rw [h.idx]; omega⟩
  · have hk' : keep ia r = false := by simpa using hk
    have hkept : kept ia (done ++ [r]) = kept ia done := by simp [kept, List.filter_append, hk']
    obtain ⟨a, b, c⟩ := step_drop ia s r hk'
    exact ⟨by rw [a, hkept]; exact h.idx, by rw [b, hkept]; exact h.parts, by rw [c, hkept]; exact h.instr⟩

/-- C12 core: participants are exactly the kept registrations in order, indexed by position, and
    `(c, k)` is a stored instructor entry iff the `k`-th participant is the registration instructing `c`. -/
theorem read_spec (ia : Bool) (regs : List Reg) : Inv ia regs (read ia regs) := by
  have : ∀ (l done : List Reg) (s : St), Inv ia done s → Inv ia (done ++ l) (l.foldl (step ia) s) := by
    intro l
    induction l with
    | nil => intro done s h; simpa using h
    | cons r l ih =>
      intro done s h
      have := ih (done ++ [r]) (step ia s r) (inv_step ia done s r h)
      simpa using this
  have h0 : Inv ia [] { i := 0, parts := [], instr := [], invisible := [] } :=
    ⟨by simp [kept], by simp [kept], by intro c k; simp [kept]⟩
  simpa [read] using this regs [] _ h0

#print axioms read_spec
end RD
