import Cdecao.Engine.Account
/-! # Termination of the parallel search on finite trees

`Budget W` (Term.lean / Account.lean) says that the search tree is finite.  Under that hypothesis:

* (1) `wakefree_bound`: from a configuration `c` reached from `init root top T` by a run with at most
  `s` `wake` events, **every** continuation without `wake` events has at most
  `W root + 3 * T + 3 * (T * T + s)` events — whatever the scheduler does.
  `wakefree_bound_local` is the same relative to `c` alone (no reachability needed).
* (2) `wakefree_maximal_finished`: a reachable configuration in which no non-wake event is enabled
  is finished (`AllFinished`); conversely a finished configuration enables no event at all
  (`finished_no_step`).
* (3) `terminates`: from every reachable `c` there is a wake-free continuation that finishes, within
  the bound of (1); and every wake-free continuation can be extended to a finishing one, still
  within the bound (`wakefree_extend`): no choice among the non-wake events avoids termination.
* (4) `continuation_bound`: a continuation with at most `s'` `wake` events has at most
  `W root + 3 * T + 3 * (T * T + (s + s'))` non-wake events.  Hence (`infinite_run_wakes`) an
  infinite run contains infinitely many `wake` events.

  The `wake t` event of the model does **not** say why thread `t` wakes up: it stands for a
  `notify_one` (bab.rs:286) as well as for a spurious wake-up.  So the statements above have the total
  number of `wake` events as a parameter.  To separate the two causes we add a *ghost layer*
  (`NStep`, `NRun`; `step?` is not touched): `notifies c ev` is the number of `notify_one` calls the
  event `ev` performs in `c` (one per pushed child except the first, bab.rs:280-288), a counter `k`
  holds the notifications issued and not yet used, and every `wake` event is tagged `true` (it uses up
  one notification) or `false` (spurious).  This over-approximates the condition variable (a
  notification issued while nobody sleeps is lost in reality and kept here), which is the right
  direction for an upper bound.  Then (`nrun_bound`) the `wake` events tagged `true` are fewer than
  `W root / 5` (the number of generated subproblems, `gen_le_budget`), a run with at most `sp` spurious
  wake-ups has at most `W root + 3 * T + 3 * (T * T + (sp + W root / 5))` non-wake events, and
  (`infinite_run_spurious`) **an infinite run contains infinitely many spurious wake-ups**: a run
  with finitely many spurious wake-ups is finite.  Fairness is not needed for these bounds; it is
  only needed to say that a run does not stop early, which is (2): as long as the search is not
  finished some non-wake event is enabled.
* (5) panics: `AllFinished` allows `dead` workers, so all of the above covers failing solvers.
  `terminates_failure`: if some worker is `dying` or `dead` in `c`, every finishing configuration
  reached from `c` has `outcome = some true` (the join loop of `solve` panics);
  `terminates_done`: if no subproblem below the root panics, the finishing configuration is `AllDone`
  and `outcome = some false`.

Core only (no Mathlib). -/
namespace Eng3
variable {ν σ : Type} [Solver ν σ]

/-! ### event lists -/

/-- no event of the list is a `wake` event -/
def WakeFree (evs : List Ev) : Prop := ∀ ev ∈ evs, ev.isWake = false

theorem Run.append {a b c : Cfg ν σ} {e1 e2 : List Ev} (h1 : Run a e1 b) (h2 : Run b e2 c) :
    Run a (e1 ++ e2) c := by
  induction h1 with
  | nil _ => exact h2
  | cons hs _ ih => exact Run.cons hs (ih h2)

theorem wakeEvents_append (a b : List Ev) : wakeEvents (a ++ b) = wakeEvents a + wakeEvents b := by
  simp [wakeEvents, List.countP_append]

theorem work_append (a b : List Ev) : work (a ++ b) = work a + work b := by
  simp [work, List.countP_append]

theorem wakeEvents_eq_zero_iff (evs : List Ev) : wakeEvents evs = 0 ↔ WakeFree evs := by
  simp [wakeEvents, WakeFree, List.countP_eq_zero]

theorem work_of_wakeFree {evs : List Ev} (h : WakeFree evs) : work evs = evs.length := by
  have h1 := work_add_wakeEvents evs
  have h2 := (wakeEvents_eq_zero_iff evs).2 h
  omega

theorem wakeFree_nil : WakeFree [] := by intro ev h; cases h

theorem wakeFree_cons {ev : Ev} {evs : List Ev} (h1 : ev.isWake = false) (h2 : WakeFree evs) :
    WakeFree (ev :: evs) := by
  intro e he
  rcases List.mem_cons.1 he with rfl | he
  · exact h1
  · exact h2 e he

theorem wakeFree_snoc {ev : Ev} {evs : List Ev} (h2 : WakeFree evs) (h1 : ev.isWake = false) :
    WakeFree (evs ++ [ev]) := by
  intro e he
  rcases List.mem_append.1 he with he | he
  · exact h2 e he
  · rcases List.mem_singleton.1 he with rfl
    exact h1

/-! ### (4, finite form) and (1): explicit bounds -/

/-- **(4)** a continuation with at most `s'` `wake` events of a run from the start with at most `s`
    `wake` events has at most `W root + 3 * T + 3 * (T * T + (s + s'))` non-wake events (counting
    those of the first part as well, and with the potential still left at the end). -/
theorem continuation_bound (W : ν → Nat) (hW : Budget W) {root : ν} {top T s s' : Nat}
    {c c' : Cfg ν σ} {evs0 evs : List Ev} (h0 : Run (init root top T) evs0 c)
    (hs : wakeEvents evs0 ≤ s) (h : Run c evs c') (hs' : wakeEvents evs ≤ s') :
    work evs0 + work evs + Psi W c' ≤ W root + 3 * T + 3 * (T * T + (s + s')) := by
  have h1 := run_bound W hW (h0.append h) (T := T) (by simp [init])
  rw [psi_init, work_append, wakeEvents_append] at h1
  omega

/-- **(1)**, strong form: the non-wake events before `c`, the length of the wake-free continuation
    and the potential left at its end together stay below the bound. -/
theorem wakefree_bound_strong (W : ν → Nat) (hW : Budget W) {root : ν} {top T s : Nat}
    {c c' : Cfg ν σ} {evs0 evs : List Ev} (h0 : Run (init root top T) evs0 c)
    (hs : wakeEvents evs0 ≤ s) (h : Run c evs c') (hwf : WakeFree evs) :
    work evs0 + evs.length + Psi W c' ≤ W root + 3 * T + 3 * (T * T + s) := by
  have h1 := continuation_bound W hW h0 hs h (s' := 0)
    (Nat.le_of_eq ((wakeEvents_eq_zero_iff evs).2 hwf))
  rw [work_of_wakeFree hwf] at h1
  exact h1

/-- **(1)** once spurious wake-ups stop, at most `W root + 3 * T + 3 * (T * T + s)` steps follow,
    whatever the scheduler does. -/
theorem wakefree_bound (W : ν → Nat) (hW : Budget W) {root : ν} {top T s : Nat}
    {c c' : Cfg ν σ} {evs0 evs : List Ev} (h0 : Run (init root top T) evs0 c)
    (hs : wakeEvents evs0 ≤ s) (h : Run c evs c') (hwf : WakeFree evs) :
    evs.length ≤ W root + 3 * T + 3 * (T * T + s) := by
  have := wakefree_bound_strong W hW h0 hs h hwf
  omega

/-- (1) relative to `c` alone (any configuration with `T` threads, reachable or not): a wake-free
    run from `c` has at most `Psi W c + 3 * (T * (T - stopped c))` events — the potential of `c`
    plus 3 per sleeper that a `notify_all` of a not yet stopped thread can wake. -/
theorem wakefree_bound_local (W : ν → Nat) (hW : Budget W) {T : Nat} {c c' : Cfg ν σ}
    {evs : List Ev} (h : Run c evs c') (hT : c.pcs.length = T) (hwf : WakeFree evs) :
    evs.length + Psi W c' ≤ Psi W c + 3 * (T * (T - stopped c)) := by
  have h1 := psi_run W hW h
  have h2 := notify_run h hT
  have h3 : stopped c' ≤ T := by rw [← hT, ← run_len h]; exact stopped_le c'
  have h4 : stopped c ≤ T := by rw [← hT]; exact stopped_le c
  have h5 := Nat.mul_le_mul_left T h3
  rw [(wakeEvents_eq_zero_iff evs).2 hwf] at h2
  rw [work_of_wakeFree hwf] at h1
  rw [Nat.mul_sub]
  omega

/-! ### (2): a wake-free run can only stop in a finished configuration -/

/-- **(2)** if no non-wake event is enabled in a reachable configuration, every worker has stopped -/
theorem wakefree_maximal_finished {root : ν} {top T : Nat} {c : Cfg ν σ} (hT : 0 < T)
    (hr : Reach root top T c) (hmax : ∀ ev, ev.isWake = false → step? c ev = none) :
    AllFinished c := by
  apply Classical.byContradiction
  intro hnf
  obtain ⟨ev, h1, h2⟩ := C04_no_deadlock hT hr hnf
  rw [hmax ev h1] at h2
  cases h2

/-- conversely, a finished configuration is terminal: no event at all is enabled -/
theorem finished_no_step {c : Cfg ν σ} (hf : AllFinished c) (ev : Ev) : step? c ev = none := by
  cases h : step? c ev with
  | none => rfl
  | some c' =>
    obtain ⟨u, old, new, hu, h1, h2, _⟩ := step_shape h
    rcases hf u old hu with e | e
    · exact absurd e h1
    · exact absurd e h2

/-- (2) as an equivalence: in a reachable configuration, "no non-wake event is enabled", "no event
    is enabled" and "every worker has stopped" are the same -/
theorem wakefree_maximal_iff {root : ν} {top T : Nat} {c : Cfg ν σ} (hT : 0 < T)
    (hr : Reach root top T c) :
    (∀ ev, ev.isWake = false → step? c ev = none) ↔ AllFinished c :=
  ⟨wakefree_maximal_finished hT hr, fun hf ev _ => finished_no_step hf ev⟩

/-- the only run from a finished configuration is the empty one -/
theorem run_of_finished {c c' : Cfg ν σ} {evs : List Ev} (hf : AllFinished c) (h : Run c evs c') :
    evs = [] ∧ c' = c := by
  cases h with
  | nil => exact ⟨rfl, rfl⟩
  | cons hs _ => rw [finished_no_step hf] at hs; cases hs

/-! ### (3): termination -/

/-- **(3), second half**: every wake-free continuation of a reachable configuration can be extended
    by non-wake events to a finished configuration, and the whole continuation stays within the
    bound of (1): no scheduler choice among the non-wake events avoids termination. -/
theorem wakefree_extend (W : ν → Nat) (hW : Budget W) {root : ν} {top T s : Nat} {c : Cfg ν σ}
    {evs0 : List Ev} (hT : 0 < T) (h0 : Run (init root top T) evs0 c) (hs : wakeEvents evs0 ≤ s) :
    ∀ (evs : List Ev) (c' : Cfg ν σ), Run c evs c' → WakeFree evs →
      ∃ (evs' : List Ev) (c'' : Cfg ν σ), Run c' evs' c'' ∧ WakeFree evs' ∧ AllFinished c'' ∧
        evs.length + evs'.length ≤ W root + 3 * T + 3 * (T * T + s) := by
  have key : ∀ (n : Nat) (evs : List Ev) (c' : Cfg ν σ), Run c evs c' → WakeFree evs →
      W root + 3 * T + 3 * (T * T + s) - evs.length ≤ n →
      ∃ (evs' : List Ev) (c'' : Cfg ν σ), Run c' evs' c'' ∧ WakeFree evs' ∧ AllFinished c'' ∧
        evs.length + evs'.length ≤ W root + 3 * T + 3 * (T * T + s) := by
    intro n
    induction n with
    | zero =>
      intro evs c' h hwf hn
      have hb := wakefree_bound W hW h0 hs h hwf
      have hr' : Reach root top T c' := reach_iff_run.2 ⟨_, h0.append h⟩
      by_cases hf : AllFinished c'
      · exact ⟨[], c', Run.nil _, wakeFree_nil, hf, by simpa using hb⟩
      · exfalso
        obtain ⟨ev, hw, hsome⟩ := C04_no_deadlock hT hr' hf
        obtain ⟨c1, hc1⟩ := Option.isSome_iff_exists.1 hsome
        have hb1 := wakefree_bound W hW h0 hs (h.snoc hc1) (wakeFree_snoc hwf hw)
        simp only [List.length_append, List.length_singleton] at hb1
        omega
    | succ n ih =>
      intro evs c' h hwf hn
      have hb := wakefree_bound W hW h0 hs h hwf
      have hr' : Reach root top T c' := reach_iff_run.2 ⟨_, h0.append h⟩
      by_cases hf : AllFinished c'
      · exact ⟨[], c', Run.nil _, wakeFree_nil, hf, by simpa using hb⟩
      · obtain ⟨ev, hw, hsome⟩ := C04_no_deadlock hT hr' hf
        obtain ⟨c1, hc1⟩ := Option.isSome_iff_exists.1 hsome
        have h1 := h.snoc hc1
        have hwf1 := wakeFree_snoc hwf hw
        have hb1 := wakefree_bound W hW h0 hs h1 hwf1
        have hlen : (evs ++ [ev]).length = evs.length + 1 := by simp
        obtain ⟨evs', c'', hr'', hwf'', hfin, hle⟩ := ih (evs ++ [ev]) c1 h1 hwf1 (by omega)
        refine ⟨ev :: evs', c'', Run.cons hc1 hr'', wakeFree_cons hw hwf'', hfin, ?_⟩
        simp only [List.length_cons]
        omega
  intro evs c' h hwf
  exact key _ evs c' h hwf (Nat.le_refl _)

/-- **(3) termination**: for every configuration `c` reached from the start by a run with at most `s`
    `wake` events (`T ≥ 1` threads, finite tree), there is a continuation without `wake` events that
    ends with every worker stopped, of length at most `W root + 3 * T + 3 * (T * T + s)`; and every
    continuation without `wake` events can be extended to such a finishing one, the whole of it
    within the same bound. -/
theorem terminates (W : ν → Nat) (hW : Budget W) {root : ν} {top T s : Nat} {c : Cfg ν σ}
    {evs0 : List Ev} (hT : 0 < T) (h0 : Run (init root top T) evs0 c) (hs : wakeEvents evs0 ≤ s) :
    (∃ (evs : List Ev) (c' : Cfg ν σ), Run c evs c' ∧ WakeFree evs ∧ AllFinished c' ∧
        evs.length ≤ W root + 3 * T + 3 * (T * T + s)) ∧
    (∀ (evs : List Ev) (c' : Cfg ν σ), Run c evs c' → WakeFree evs →
      ∃ (evs' : List Ev) (c'' : Cfg ν σ), Run c' evs' c'' ∧ WakeFree evs' ∧ AllFinished c'' ∧
        evs.length + evs'.length ≤ W root + 3 * T + 3 * (T * T + s)) := by
  have h2 := wakefree_extend W hW hT h0 hs
  refine ⟨?_, h2⟩
  obtain ⟨evs', c'', h, hwf, hf, hle⟩ := h2 [] c (Run.nil _) wakeFree_nil
  exact ⟨evs', c'', h, hwf, hf, by simpa using hle⟩

/-- (3) for `Reach`: every reachable configuration of a finite tree has a wake-free continuation
    that finishes -/
theorem terminates_reach (W : ν → Nat) (hW : Budget W) {root : ν} {top T : Nat} {c : Cfg ν σ}
    (hT : 0 < T) (hr : Reach root top T c) :
    ∃ (evs : List Ev) (c' : Cfg ν σ), Run c evs c' ∧ WakeFree evs ∧ AllFinished c' := by
  obtain ⟨evs0, h0⟩ := reach_iff_run.1 hr
  obtain ⟨evs, c', h, hwf, hf, _⟩ := (terminates W hW hT h0 (Nat.le_refl _)).1
  exact ⟨evs, c', h, hwf, hf⟩

/-- what a scheduler sees along a wake-free continuation: at every point either the search has
    finished (and nothing is enabled any more) or a non-wake event is enabled and the bound has not
    been used up -/
theorem wakefree_progress (W : ν → Nat) (hW : Budget W) {root : ν} {top T s : Nat}
    {c c' : Cfg ν σ} {evs0 evs : List Ev} (hT : 0 < T) (h0 : Run (init root top T) evs0 c)
    (hs : wakeEvents evs0 ≤ s) (h : Run c evs c') (hwf : WakeFree evs) :
    (AllFinished c' ∧ ∀ ev, step? c' ev = none) ∨
    (∃ ev c'', ev.isWake = false ∧ step? c' ev = some c'' ∧
      evs.length < W root + 3 * T + 3 * (T * T + s)) := by
  have hr' : Reach root top T c' := reach_iff_run.2 ⟨_, h0.append h⟩
  by_cases hf : AllFinished c'
  · exact Or.inl ⟨hf, finished_no_step hf⟩
  · right
    obtain ⟨ev, hw, hsome⟩ := C04_no_deadlock hT hr' hf
    obtain ⟨c1, hc1⟩ := Option.isSome_iff_exists.1 hsome
    have hb1 := wakefree_bound W hW h0 hs (h.snoc hc1) (wakeFree_snoc hwf hw)
    simp only [List.length_append, List.length_singleton] at hb1
    exact ⟨ev, c1, hw, hc1, by omega⟩

/-! ### (4): infinite runs -/

/-- an infinite run: configurations `f i` and events `e i` with `f i --e i--> f (i+1)` -/
def InfRun (f : Nat → Cfg ν σ) (e : Nat → Ev) : Prop := ∀ i, step? (f i) (e i) = some (f (i + 1))

theorem InfRun.prefix {f : Nat → Cfg ν σ} {e : Nat → Ev} (h : InfRun f e) (n : Nat) :
    Run (f 0) ((List.range n).map e) (f n) := by
  induction n with
  | zero => exact Run.nil _
  | succ n ih =>
    rw [List.range_succ, List.map_append]
    exact ih.snoc (h n)

/-- if `p` fails from index `N` on, every prefix of the sequence has at most `N` hits -/
theorem countP_prefix_le {α : Type} (p : α → Bool) (e : Nat → α) (N : Nat)
    (h : ∀ i, N ≤ i → p (e i) = false) (n : Nat) : ((List.range n).map e).countP p ≤ N := by
  have hlen : ∀ n, ((List.range n).map e).countP p ≤ n := by
    intro n
    have := List.countP_le_length (p := p) (l := (List.range n).map e)
    simpa using this
  induction n with
  | zero => simp
  | succ n ih =>
    rw [List.range_succ, List.map_append, List.countP_append]
    by_cases hn : N ≤ n
    · have h2 : ([n].map e).countP p = 0 := by simp [h n hn]
      omega
    · have h1 := hlen n
      have h2 : ([n].map e).countP p ≤ 1 := by
        have := List.countP_le_length (p := p) (l := [n].map e)
        simpa using this
      omega

/-- **(4) a run can only be infinite if it contains infinitely many `wake` events**: in an infinite
    run from a reachable configuration of a finite tree, after every index there is another `wake`
    event. -/
theorem infinite_run_wakes (W : ν → Nat) (hW : Budget W) {root : ν} {top T : Nat}
    {f : Nat → Cfg ν σ} {e : Nat → Ev} (hr : Reach root top T (f 0)) (h : InfRun f e) :
    ∀ N, ∃ i, N ≤ i ∧ (e i).isWake = true := by
  intro N
  apply Classical.byContradiction
  intro hcon
  have hno : ∀ i, N ≤ i → Ev.isWake (e i) = false := by
    intro i hi
    cases hw : (e i).isWake with
    | false => rfl
    | true => exact absurd ⟨i, hi, hw⟩ hcon
  obtain ⟨evs0, h0⟩ := reach_iff_run.1 hr
  let n := W root + 3 * T + 3 * (T * T + (wakeEvents evs0 + N)) + N + 1
  have hp := h.prefix n
  have hwk : wakeEvents ((List.range n).map e) ≤ N := countP_prefix_le Ev.isWake e N hno n
  have hb := continuation_bound W hW h0 (Nat.le_refl _) hp hwk
  have hsum := work_add_wakeEvents ((List.range n).map e)
  simp only [List.length_map, List.length_range] at hsum
  omega

/-- in particular there is no infinite run without `wake` events -/
theorem no_infinite_wakefree_run (W : ν → Nat) (hW : Budget W) {root : ν} {top T : Nat}
    {f : Nat → Cfg ν σ} {e : Nat → Ev} (hr : Reach root top T (f 0)) (h : InfRun f e) :
    ∃ i, (e i).isWake = true := by
  obtain ⟨i, _, hi⟩ := infinite_run_wakes W hW hr h 0
  exact ⟨i, hi⟩

/-! ### (4): separating `notify_one` from spurious wake-ups (ghost layer) -/

/-- number of `notify_one` calls the event performs (bab.rs:280-288): applying an `Infeasible`
    result pushes the children and calls `notify_one` once per child except the first -/
def notifies (c : Cfg ν σ) : Ev → Nat
  | .acquire t =>
    match c.lock, c.pcs[t]? with
    | none, some (.want (some n)) =>
      match Solver.res n with
      | .infeasible _ => (Solver.kids n).length - 1
      | _ => 0
    | _, _ => 0
  | _ => 0

/-- one step of the system with attributed wake-ups.  The counter holds the notifications issued
    and not yet used.  Tag `false`: an ordinary step of `step?` — if it is a `wake` event it is a
    spurious wake-up; the `notify_one` calls of the step are added to the counter.  Tag `true`:
    a `wake` event caused by a `notify_one`; it uses up one notification. -/
inductive NStep : Cfg ν σ → Nat → Ev × Bool → Cfg ν σ → Nat → Prop where
  | plain {c c' : Cfg ν σ} {ev : Ev} {k : Nat} :
      step? c ev = some c' → NStep c k (ev, false) c' (k + notifies c ev)
  | notified {c c' : Cfg ν σ} {t : Nat} {k : Nat} :
      step? c (.wake t) = some c' → NStep c (k + 1) (.wake t, true) c' k

/-- runs of the system with attributed wake-ups -/
inductive NRun : Cfg ν σ → Nat → List (Ev × Bool) → Cfg ν σ → Nat → Prop where
  | nil (c : Cfg ν σ) (k : Nat) : NRun c k [] c k
  | cons {c c' c'' : Cfg ν σ} {k k' k'' : Nat} {x : Ev × Bool} {l : List (Ev × Bool)} :
      NStep c k x c' k' → NRun c' k' l c'' k'' → NRun c k (x :: l) c'' k''

theorem NRun.snoc {c c' c'' : Cfg ν σ} {k k' k'' : Nat} {x : Ev × Bool} {l : List (Ev × Bool)}
    (h : NRun c k l c' k') (hs : NStep c' k' x c'' k'') : NRun c k (l ++ [x]) c'' k'' := by
  induction h with
  | nil c k => exact NRun.cons hs (NRun.nil _ _)
  | cons h1 _ ih => exact NRun.cons h1 (ih hs)

/-- the events of a tagged run -/
def untag (l : List (Ev × Bool)) : List Ev := l.map (·.1)
/-- the `wake` events attributed to a `notify_one` -/
def notifiedWakes (l : List (Ev × Bool)) : Nat := l.countP (fun x => x.2)
/-- the spurious wake-ups -/
def spurious (l : List (Ev × Bool)) : Nat := l.countP (fun x => x.1.isWake && !x.2)

/-- the `notify_one` calls of a run -/
def notifiesRun (c : Cfg ν σ) : List Ev → Nat
  | [] => 0
  | ev :: evs => notifies c ev + (match step? c ev with | some c' => notifiesRun c' evs | none => 0)

/-- a tagged step is a step; only `wake` events are tagged `true`; bookkeeping of the counter -/
theorem nstep_step {c c' : Cfg ν σ} {k k' : Nat} {x : Ev × Bool} (h : NStep c k x c' k') :
    step? c x.1 = some c' ∧ (x.2 = true → x.1.isWake = true) ∧
      (if x.2 then 1 else 0) + k' = k + notifies c x.1 := by
  cases h with
  | plain hst => exact ⟨hst, by simp, by simp⟩
  | notified hst => exact ⟨hst, by simp [Ev.isWake], by simp [notifies]; omega⟩

/-- every tagged run is a run; every `wake` event is either notified or spurious; the notified
    ones and the notifications left over are the notifications issued -/
theorem nrun_run {c c' : Cfg ν σ} {k k' : Nat} {l : List (Ev × Bool)} (h : NRun c k l c' k') :
    Run c (untag l) c' ∧ wakeEvents (untag l) = spurious l + notifiedWakes l ∧
      notifiedWakes l + k' = k + notifiesRun c (untag l) := by
  induction h with
  | nil c k => exact ⟨Run.nil _, rfl, by simp [notifiedWakes, notifiesRun, untag]⟩
  | @cons c c1 c2 k k1 k2 x l hs _ ih =>
    obtain ⟨ih1, ih2, ih3⟩ := ih
    obtain ⟨hst, htag, hk⟩ := nstep_step hs
    obtain ⟨ev, b⟩ := x
    simp only at hst htag hk
    refine ⟨Run.cons hst ih1, ?_, ?_⟩
    · simp only [untag, wakeEvents, spurious, notifiedWakes, List.map_cons, List.countP_cons,
        List.countP_map] at ih2 ⊢
      cases b with
      | false => cases hw : ev.isWake <;> simp <;> omega
      | true => simp [htag rfl]; omega
    · simp only [untag, notifiedWakes, List.map_cons, List.countP_cons, notifiesRun, hst] at ih3 hk ⊢
      cases b <;> simp at hk ⊢ <;> omega

/-- the `notify_one` calls of a step are fewer than the subproblems it generates -/
theorem notifies_le_gen (c : Cfg ν σ) (g : Ghost ν) (ev : Ev) :
    g.gen.length + notifies c ev ≤ (ghostUpd c g ev).gen.length := by
  cases ev with
  | acquire t =>
    simp only [notifies, ghostUpd]
    cases hl : c.lock with
    | some u => simp
    | none =>
      cases hp : c.pcs[t]? with
      | none => simp
      | some pc =>
        cases pc with
        | want r =>
          cases r with
          | none => simp
          | some n =>
            dsimp only
            cases hres : Solver.res n <;> simp
        | _ => simp
  | top t k =>
    simp only [notifies, ghostUpd]
    split
    · split <;> simp
    · simp
  | after t => simp [notifies, ghostUpd]
  | solve t => simp [notifies, ghostUpd]
  | wake t => simp [notifies, ghostUpd]
  | die t => simp [notifies, ghostUpd]

/-- the list of failed subproblems only grows -/
theorem failed_mono (c : Cfg ν σ) (g : Ghost ν) (ev : Ev) :
    g.failed.length ≤ (ghostUpd c g ev).failed.length := by
  cases ev with
  | acquire t =>
    simp only [ghostUpd]
    split
    · rename_i n _ _
      cases Solver.res n <;> simp
    · simp
  | top t k =>
    simp only [ghostUpd]
    split
    · split <;> simp
    · simp
  | after t => simp [ghostUpd]
  | solve t => simp [ghostUpd]
  | wake t => simp [ghostUpd]
  | die t => simp [ghostUpd]

/-- a run from a reachable state of the product system ends in a reachable state of the product
    system; the generated subproblems grow at least by the number of `notify_one` calls, and the
    failed ones do not shrink -/
theorem run_reachG {root : ν} {top T : Nat} {c c' : Cfg ν σ} {evs : List Ev} (h : Run c evs c') :
    ∀ {st : Stats} {g : Ghost ν}, ReachG root top T (c, st, g) →
      ∃ st' g', ReachG root top T (c', st', g') ∧
        g.gen.length + notifiesRun c evs ≤ g'.gen.length ∧ g.failed.length ≤ g'.failed.length := by
  induction h with
  | nil c => intro st g hg; exact ⟨st, g, hg, by simp [notifiesRun], Nat.le_refl _⟩
  | @cons c c1 c2 ev evs hs _ ih =>
    intro st g hg
    obtain ⟨st', g', hg', h1, h2⟩ := ih (ReachG.step hg hs)
    refine ⟨st', g', hg', ?_, ?_⟩
    · have := notifies_le_gen c g ev
      simp only [notifiesRun, hs]
      omega
    · have := failed_mono c g ev
      omega

/-- **the `notify_one` calls of a run from the start are fewer than the generated subproblems**,
    hence fewer than `W root / 5` -/
theorem notifiesRun_le_budget (W : ν → Nat) (hW : Budget W) {root : ν} {top T : Nat} {c : Cfg ν σ}
    {evs : List Ev} (h : Run (init root top T) evs c) :
    5 * (notifiesRun (init root top T : Cfg ν σ) evs + 1) ≤ W root := by
  obtain ⟨st', g', hg', h1, _⟩ := run_reachG h (ReachG.init (root := root) (top := top) (T := T))
  have h2 := (gen_le_budget W hW hg').1
  simp only [Ghost.init, List.length_singleton] at h1
  have h4 : 5 * g'.gen.length ≤ W root := h2
  omega

/-- **(4) work bound with attributed wake-ups**: in a run of `T` threads from the start with at most
    `sp` spurious wake-ups, the `wake` events caused by `notify_one` are fewer than `W root / 5`,
    there are at most `W root + 3 * T + 3 * (T * T + (sp + W root / 5))` non-wake events, and the
    run has at most that many plus `sp + W root / 5` events in total: a run with finitely many
    spurious wake-ups is finite. -/
theorem nrun_bound (W : ν → Nat) (hW : Budget W) {root : ν} {top T sp k' : Nat} {c : Cfg ν σ}
    {l : List (Ev × Bool)} (h : NRun (init root top T) 0 l c k') (hsp : spurious l ≤ sp) :
    5 * (notifiedWakes l + 1) ≤ W root ∧
    work (untag l) ≤ W root + 3 * T + 3 * (T * T + (sp + W root / 5)) ∧
    l.length ≤ W root + 3 * T + 3 * (T * T + (sp + W root / 5)) + (sp + W root / 5) := by
  obtain ⟨hrun, hwk, hk⟩ := nrun_run h
  have hn := notifiesRun_le_budget W hW hrun
  have h1 : 5 * (notifiedWakes l + 1) ≤ W root := by omega
  have hw : wakeEvents (untag l) ≤ sp + W root / 5 := by omega
  have h2 := run_bound_init W hW hrun hw
  have h3 := work_add_wakeEvents (untag l)
  have h4 : (untag l).length = l.length := by simp [untag]
  exact ⟨h1, h2, by omega⟩

/-- an infinite run with attributed wake-ups -/
def InfNRun (f : Nat → Cfg ν σ) (k : Nat → Nat) (e : Nat → Ev × Bool) : Prop :=
  ∀ i, NStep (f i) (k i) (e i) (f (i + 1)) (k (i + 1))

theorem InfNRun.prefix {f : Nat → Cfg ν σ} {k : Nat → Nat} {e : Nat → Ev × Bool}
    (h : InfNRun f k e) (n : Nat) : NRun (f 0) (k 0) ((List.range n).map e) (f n) (k n) := by
  induction n with
  | zero => exact NRun.nil _ _
  | succ n ih =>
    rw [List.range_succ, List.map_append]
    exact ih.snoc (h n)

/-- **(4) a run with finitely many spurious wake-ups is finite**: an infinite run from the start
    (finite tree, wake-ups attributed to `notify_one` wherever a notification is available) contains
    infinitely many spurious wake-ups. -/
theorem infinite_run_spurious (W : ν → Nat) (hW : Budget W) {root : ν} {top T : Nat}
    {f : Nat → Cfg ν σ} {k : Nat → Nat} {e : Nat → Ev × Bool} (hf : f 0 = init root top T)
    (hk : k 0 = 0) (h : InfNRun f k e) :
    ∀ N, ∃ i, N ≤ i ∧ (e i).1.isWake = true ∧ (e i).2 = false := by
  intro N
  apply Classical.byContradiction
  intro hcon
  have hno : ∀ i, N ≤ i → ((e i).1.isWake && !(e i).2) = false := by
    intro i hi
    cases hw : ((e i).1.isWake && !(e i).2) with
    | false => rfl
    | true =>
      simp only [Bool.and_eq_true, Bool.not_eq_true'] at hw
      exact absurd ⟨i, hi, hw.1, hw.2⟩ hcon
  let n := W root + 3 * T + 3 * (T * T + (N + W root / 5)) + (N + W root / 5) + 1
  have hp := h.prefix n
  rw [hf, hk] at hp
  have hsp : spurious ((List.range n).map e) ≤ N :=
    countP_prefix_le (fun x : Ev × Bool => x.1.isWake && !x.2) e N hno n
  have hb := (nrun_bound W hW hp hsp).2.2
  simp only [List.length_map, List.length_range] at hb
  omega

/-! ### (5): the verdict at the end -/

/-- **(5)** if some worker is `dying` or `dead` in a reachable configuration `c`, then every finished
    configuration reached from `c` has a dead worker and the join loop panics -/
theorem finished_after_failure {root : ν} {top T : Nat} {c c' : Cfg ν σ} {evs : List Ev} {t : Nat}
    (hr : Reach root top T c) (hgone : c.pcs[t]? = some Pc.dying ∨ c.pcs[t]? = some Pc.dead)
    (h : Run c evs c') (hf : AllFinished c') :
    (∃ u : Nat, c'.pcs[u]? = some Pc.dead) ∧ outcome c'.pcs = some true := by
  obtain ⟨st, g, hg⟩ := reach_reachG hr
  obtain ⟨st', g', hg', _, hfl⟩ := run_reachG h hg
  have h1 : 0 < st.panicked := (panicked_pos_iff (reachG_reachS hg)).2 ⟨t, hgone⟩
  have e1 : st.panicked = g.failed.length := (ghost_stats hg).panicked
  have e2 : st'.panicked = g'.failed.length := (ghost_stats hg').panicked
  have h2 : 0 < st'.panicked := by omega
  obtain ⟨u, hu⟩ := (panicked_pos_iff (reachG_reachS hg')).1 h2
  have hdead : c'.pcs[u]? = some Pc.dead := by
    rcases hu with hu | hu
    · rcases hf u _ hu with e | e <;> cases e
    · exact hu
  exact ⟨⟨u, hdead⟩, (outcome_at_finished hf).1.2 ⟨u, hdead⟩⟩

/-- **(5) termination with a failure**: (3) for a configuration in which some worker is `dying` or
    `dead`: every wake-free continuation extends to a finished configuration within the bound, and
    there the join loop of `solve` panics (`outcome = some true`): the search fails, it does not
    hang. -/
theorem terminates_failure (W : ν → Nat) (hW : Budget W) {root : ν} {top T s : Nat} {c : Cfg ν σ}
    {evs0 : List Ev} {t : Nat} (hT : 0 < T) (h0 : Run (init root top T) evs0 c)
    (hs : wakeEvents evs0 ≤ s) (hgone : c.pcs[t]? = some Pc.dying ∨ c.pcs[t]? = some Pc.dead) :
    ∀ (evs : List Ev) (c' : Cfg ν σ), Run c evs c' → WakeFree evs →
      ∃ (evs' : List Ev) (c'' : Cfg ν σ), Run c' evs' c'' ∧ WakeFree evs' ∧ AllFinished c'' ∧
        evs.length + evs'.length ≤ W root + 3 * T + 3 * (T * T + s) ∧
        outcome c''.pcs = some true := by
  intro evs c' h hwf
  obtain ⟨evs', c'', h', hwf', hf, hle⟩ := wakefree_extend W hW hT h0 hs evs c' h hwf
  have hr : Reach root top T c := reach_iff_run.2 ⟨_, h0⟩
  exact ⟨evs', c'', h', hwf', hf, hle, (finished_after_failure hr hgone (h.append h') hf).2⟩

/-- if no subproblem below the root panics, no worker is ever `dying` or `dead` -/
theorem no_panic_no_gone {root : ν} {top T : Nat} {c : Cfg ν σ}
    (hnp : ∀ n, Desc n root → isPanic (Solver.res n) = false) (hr : Reach root top T c) :
    ∀ (t : Nat) (pc : Pc ν), c.pcs[t]? = some pc → isGone pc = false := by
  obtain ⟨st, g, hg⟩ := reach_reachG hr
  intro t pc hpc
  cases hgo : isGone pc with
  | false => rfl
  | true =>
    exfalso
    have hpos : 0 < st.panicked := by
      apply (panicked_pos_iff (reachG_reachS hg)).2
      refine ⟨t, ?_⟩
      cases pc <;> simp [isGone] at hgo
      · exact Or.inl hpc
      · exact Or.inr hpc
    have e1 : st.panicked = g.failed.length := (ghost_stats hg).panicked
    have hne : g.failed ≠ [] := by
      intro e; rw [e] at e1; simp at e1; omega
    obtain ⟨n, hn⟩ := List.exists_mem_of_ne_nil _ hne
    have hp : isPanic (Solver.res n) = true := (reachG_gres hg).failed n hn
    have hgen : n ∈ g.gen := by
      apply (reachG_ainv hg).mem_iff.2
      simp only [List.mem_append]
      exact Or.inl (Or.inl (Or.inr hn))
    have := hnp n (gen_desc hg n hgen)
    rw [hp] at this
    cases this

/-- **termination without failures**: if no subproblem below the root panics, the finished
    configuration of (3) is `AllDone` and `solve` returns normally (`outcome = some false`). -/
theorem terminates_done (W : ν → Nat) (hW : Budget W) {root : ν} {top T s : Nat} {c : Cfg ν σ}
    {evs0 : List Ev} (hT : 0 < T) (h0 : Run (init root top T) evs0 c) (hs : wakeEvents evs0 ≤ s)
    (hnp : ∀ n, Desc n root → isPanic (Solver.res n) = false) :
    ∀ (evs : List Ev) (c' : Cfg ν σ), Run c evs c' → WakeFree evs →
      ∃ (evs' : List Ev) (c'' : Cfg ν σ), Run c' evs' c'' ∧ WakeFree evs' ∧ AllDone c'' ∧
        evs.length + evs'.length ≤ W root + 3 * T + 3 * (T * T + s) ∧
        outcome c''.pcs = some false := by
  intro evs c' h hwf
  obtain ⟨evs', c'', h', hwf', hf, hle⟩ := wakefree_extend W hW hT h0 hs evs c' h hwf
  have hr'' : Reach root top T c'' := reach_iff_run.2 ⟨_, (h0.append h).append h'⟩
  have hd : AllDone c'' := by
    intro t pc hpc
    rcases hf t pc hpc with e | e
    · exact e
    · have := no_panic_no_gone hnp hr'' t pc hpc
      rw [e] at this; cases this
  exact ⟨evs', c'', h', hwf', hd, hle, (outcome_false_iff_allDone c'').2 hd⟩

/-! ### a concrete instance: the three-node tree with two threads -/

section Example5
/-- three-node tree: node 0 is infeasible (bound 7) with children 1 and 2; node 1 is feasible with
    score 7; node 2 has no solution -/
local instance exSolver5 : Solver Nat Unit :=
  ⟨fun n => match n with | 0 => .infeasible 7 | 1 => .feasible () 7 | _ => .noSol,
   fun n => match n with | 0 => [1, 2] | _ => []⟩

/-- its budget: 15 for the root, 5 for every other node -/
def exW5 : Nat → Nat := fun n => if n = 0 then 15 else 5

theorem exBudget5 : Budget (ν := Nat) exW5 := by
  refine ⟨fun n => ?_⟩
  match n with
  | 0 => simp [exW5, pushed, Solver.res, Solver.kids]
  | 1 => simp [exW5, pushed, Solver.res]
  | n + 2 => simp [exW5, pushed, Solver.res]

/-- thread 0 has popped the root and is solving it; thread 1 found the queue empty, went to sleep
    and was woken spuriously -/
def exC5 : Cfg Nat Unit :=
  { pending := [], busy := 1, best := none, bestScore := 0, lock := none,
    pcs := [.solving 0, .want none] }

/-- `exC5` is reached from the start with two threads by a run with one (spurious) `wake` event -/
theorem exRun5 : Run (init 0 10 2) [.acquire 0, .top 0 0, .acquire 1, .top 1 0, .wake 1] exC5 := by
  iterate 5 refine Run.cons rfl ?_
  exact Run.nil _

/-- **(3) instantiated** (`T = 2`, `s = 1`, `W root = 15`): from `exC5` some run without `wake`
    events finishes within `15 + 3 * 2 + 3 * (2 * 2 + 1) = 36` steps, and every run without `wake`
    events extends to a finishing one within 36 steps -/
example :
    (∃ (evs : List Ev) (c' : Cfg Nat Unit), Run exC5 evs c' ∧ WakeFree evs ∧ AllFinished c' ∧
        evs.length ≤ 36) ∧
    (∀ (evs : List Ev) (c' : Cfg Nat Unit), Run exC5 evs c' → WakeFree evs →
      ∃ (evs' : List Ev) (c'' : Cfg Nat Unit), Run c' evs' c'' ∧ WakeFree evs' ∧ AllFinished c'' ∧
        evs.length + evs'.length ≤ 36) :=
  terminates exW5 exBudget5 (s := 1) (by decide) exRun5 (by decide)

/-- one such finishing run, explicitly (15 events, none of them a wake-up): both workers end `done`
    with the optimum 7 -/
example : ∃ c' : Cfg Nat Unit, Run exC5
    [.solve 0, .acquire 0, .after 0, .top 0 0, .acquire 1, .top 1 0, .solve 0, .solve 1, .acquire 0,
     .after 0, .top 0 0, .acquire 1, .after 1, .acquire 0, .top 0 0] c' ∧
    AllDone c' ∧ c'.bestScore = 7 ∧ outcome c'.pcs = some false := by
  refine ⟨{ pending := [], busy := 0, best := some (), bestScore := 7, lock := none,
            pcs := [.done, .done] }, ?_, ?_, rfl, rfl⟩
  · iterate 15 refine Run.cons rfl ?_
    exact Run.nil _
  · intro t pc h
    match t with
    | 0 => simp at h; exact h.symm
    | 1 => simp at h; exact h.symm
    | t + 2 => simp at h

/-- the tree has no failing subproblem, so (`terminates_done`) every wake-free run from `exC5`
    extends to one in which both workers return normally -/
example : ∀ (evs : List Ev) (c' : Cfg Nat Unit), Run exC5 evs c' → WakeFree evs →
    ∃ (evs' : List Ev) (c'' : Cfg Nat Unit), Run c' evs' c'' ∧ WakeFree evs' ∧ AllDone c'' ∧
      evs.length + evs'.length ≤ 36 ∧ outcome c''.pcs = some false :=
  terminates_done exW5 exBudget5 (s := 1) (by decide) exRun5 (by decide)
    (by
      intro n _
      match n with
      | 0 => rfl
      | 1 => rfl
      | n + 2 => rfl)

/-- the run to `exC5` with its wake-up attributed: the `wake 1` is spurious (no `notify_one` has
    been issued yet), so `spurious = 1`, and `nrun_bound` applies with `sp = 1` -/
example : NRun (init 0 10 2) 0
    [(.acquire 0, false), (.top 0 0, false), (.acquire 1, false), (.top 1 0, false), (.wake 1, false)]
    exC5 0 := by
  iterate 5 refine NRun.cons (NStep.plain rfl) ?_
  exact NRun.nil _ _
end Example5

section Example6
/-- three-node tree with a failing subproblem: node 0 is infeasible (bound 7) with children 1 and 2;
    the solver panics on node 1; node 2 is feasible with score 5 -/
local instance exSolver6 : Solver Nat Unit :=
  ⟨fun n => match n with | 0 => .infeasible 7 | 1 => .panic | _ => .feasible () 5,
   fun n => match n with | 0 => [1, 2] | _ => []⟩

theorem exBudget6 : Budget (ν := Nat) exW5 := by
  refine ⟨fun n => ?_⟩
  match n with
  | 0 => simp [exW5, pushed, Solver.res, Solver.kids]
  | 1 => simp [exW5, pushed, Solver.res]
  | n + 2 => simp [exW5, pushed, Solver.res]

/-- thread 0 has solved the root, popped node 1, its solver panicked and the panic has been
    registered (`dying`); node 2 is still in the queue; thread 1 has not done anything yet -/
def exC6 : Cfg Nat Unit :=
  { pending := [(2, 7)], busy := 0, best := none, bestScore := 0, lock := none,
    pcs := [.dying, .want none] }

theorem exRun6 : Run (init 0 10 2)
    [.acquire 0, .top 0 0, .solve 0, .acquire 0, .after 0, .top 0 0, .solve 0, .acquire 0] exC6 := by
  iterate 8 refine Run.cons rfl ?_
  exact Run.nil _

/-- **(5) instantiated** (`T = 2`, `s = 0`): from `exC6` every run without `wake` events extends to
    a finished configuration within `15 + 3 * 2 + 3 * (2 * 2 + 0) = 33` steps, and there `solve`
    panics -/
example : ∀ (evs : List Ev) (c' : Cfg Nat Unit), Run exC6 evs c' → WakeFree evs →
    ∃ (evs' : List Ev) (c'' : Cfg Nat Unit), Run c' evs' c'' ∧ WakeFree evs' ∧ AllFinished c'' ∧
      evs.length + evs'.length ≤ 33 ∧ outcome c''.pcs = some true :=
  terminates_failure exW5 exBudget6 (s := 0) (t := 0) (by decide) exRun6 (by decide) (Or.inl rfl)

/-- one such run, explicitly: thread 0 dies, thread 1 solves the remaining node 2 and returns; the
    join loop meets the dead worker first -/
example : ∃ c' : Cfg Nat Unit, Run exC6
    [.die 0, .acquire 1, .top 1 0, .solve 1, .acquire 1, .after 1] c' ∧
    AllFinished c' ∧ c'.pcs = [.dead, .done] ∧ outcome c'.pcs = some true := by
  refine ⟨{ pending := [], busy := 0, best := some (), bestScore := 5, lock := none,
            pcs := [.dead, .done] }, ?_, ?_, rfl, rfl⟩
  · iterate 6 refine Run.cons rfl ?_
    exact Run.nil _
  · intro t pc h
    match t with
    | 0 => simp at h; exact Or.inr h.symm
    | 1 => simp at h; exact Or.inl h.symm
    | t + 2 => simp at h
end Example6

section Example7
/-- one-node tree -/
local instance exSolver7 : Solver Unit Unit := ⟨fun _ => .noSol, fun _ => []⟩

/-- thread 0 is solving the root (and is never scheduled again); thread 1 wants the lock -/
def exA7 : Cfg Unit Unit :=
  { pending := [], busy := 1, best := none, bestScore := 0, lock := none,
    pcs := [.solving (), .want none] }
/-- thread 1 holds the lock -/
def exB7 : Cfg Unit Unit := { exA7 with lock := some 1, pcs := [.solving (), .holding] }
/-- thread 1 sleeps -/
def exC7 : Cfg Unit Unit := { exA7 with pcs := [.solving (), .waiting] }

/-- thread 1 takes the lock, finds the queue empty, goes to sleep, is woken spuriously, … -/
def exF7 (i : Nat) : Cfg Unit Unit := match i % 3 with | 0 => exA7 | 1 => exB7 | _ => exC7
def exE7 (i : Nat) : Ev := match i % 3 with | 0 => .acquire 1 | 1 => .top 1 0 | _ => .wake 1

theorem exReach7 : Reach () 0 2 (exF7 0) :=
  reach_iff_run.2 ⟨[.acquire 0, .top 0 0], Run.cons rfl (Run.cons rfl (Run.nil _))⟩

/-- the hypotheses of `infinite_run_wakes` are satisfiable, and "finitely many `wake` events"
    cannot be dropped from the termination theorems: with a spurious wake-up every third step (and
    an unfair scheduler that never lets thread 0 finish its subproblem) the run is infinite -/
theorem exInf7 : InfRun exF7 exE7 := by
  intro i
  have h : i % 3 = 0 ∨ i % 3 = 1 ∨ i % 3 = 2 := by omega
  rcases h with h | h | h
  · have h' : (i + 1) % 3 = 1 := by omega
    simp only [exF7, exE7, h, h']; rfl
  · have h' : (i + 1) % 3 = 2 := by omega
    simp only [exF7, exE7, h, h']; rfl
  · have h' : (i + 1) % 3 = 0 := by omega
    simp only [exF7, exE7, h, h']; rfl

example : ∀ N, ∃ i, N ≤ i ∧ (exE7 i).isWake = true :=
  infinite_run_wakes (fun _ => 5) ⟨fun _ => by simp [pushed, Solver.res]⟩ exReach7 exInf7
end Example7

#print axioms continuation_bound
#print axioms wakefree_bound
#print axioms wakefree_bound_local
#print axioms wakefree_maximal_finished
#print axioms wakefree_maximal_iff
#print axioms wakefree_extend
#print axioms terminates
#print axioms terminates_reach
#print axioms wakefree_progress
#print axioms infinite_run_wakes
#print axioms nrun_bound
#print axioms infinite_run_spurious
#print axioms finished_after_failure
#print axioms terminates_failure
#print axioms terminates_done

end Eng3
