import Cdecao.Engine.Core
/-! Spike: the hypothesis-free part of the engine invariant — pending and in-flight nodes are nodes of
    the tree and the incumbent is a feasible node of the tree — for every thread count and schedule,
    with no assumption on the solver (`Bounded` not needed). This is what C01/C06/C08 use. -/
namespace Eng3
variable {ν σ : Type} [Solver ν σ]

def pcNode : Pc ν → Option ν
  | .solving n => some n
  | .want (some n) => some n
  | _ => none

structure SolInv (root : ν) (c : Cfg ν σ) : Prop where
  pend : ∀ n ps, (n, ps) ∈ c.pending → Desc n root
  fly : ∀ pc ∈ c.pcs, ∀ n, pcNode pc = some n → Desc n root
  inc : c.best = none ∨ (∃ f sol, Desc f root ∧ Solver.res f = .feasible sol c.bestScore ∧ c.best = some sol)

theorem solinv_init (root : ν) (top T : Nat) : SolInv root (init root top T : Cfg ν σ) := by
  refine ⟨?_, ?_, Or.inl rfl⟩
  · intro n ps h
    simp [init] at h
    rw [h.1]; exact Desc.refl _
  · intro pc hpc n hn
    simp [init, List.mem_replicate] at hpc
    rw [hpc.2] at hn; simp [pcNode] at hn

theorem fly_set {root : ν} {pcs : List (Pc ν)} (h : ∀ pc ∈ pcs, ∀ n, pcNode pc = some n → Desc n root)
    (t : Nat) (pc' : Pc ν) (hpc' : ∀ n, pcNode pc' = some n → Desc n root) :
    ∀ pc ∈ pcs.set t pc', ∀ n, pcNode pc = some n → Desc n root := by
  intro pc hpc n hn
  rcases List.mem_or_eq_of_mem_set hpc with hm | rfl
  · exact h pc hm n hn
  · exact hpc' n hn

theorem fly_wakeAll {root : ν} {pcs : List (Pc ν)} (h : ∀ pc ∈ pcs, ∀ n, pcNode pc = some n → Desc n root) :
    ∀ pc ∈ wakeAll pcs, ∀ n, pcNode pc = some n → Desc n root := by
  intro pc hpc n hn
  simp only [wakeAll, List.mem_map] at hpc
  obtain ⟨pc0, hm, rfl⟩ := hpc
  cases pc0 <;> first | exact h _ hm n hn | (simp [pcNode] at hn)

theorem none_node (pc : Pc ν) (h : pcNode pc = none) (root : ν) : ∀ n, pcNode pc = some n → Desc n root := by
  intro n hn; rw [h] at hn; contradiction

theorem solinv_applyRes {root : ν} {c : Cfg ν σ} (n : ν) (h : SolInv root c) (hn : Desc n root) :
    SolInv root (applyRes c n) := by
  unfold applyRes
  dsimp only
  cases hr : Solver.res n with
  | noSol => exact ⟨h.pend, h.fly, h.inc⟩
  | panic => exact ⟨h.pend, h.fly, h.inc⟩
  | feasible sol sc =>
    dsimp only
    split
    · exact ⟨h.pend, h.fly, Or.inr ⟨n, sol, hn, hr, rfl⟩⟩
    · exact ⟨h.pend, h.fly, h.inc⟩
  | infeasible sc =>
    refine ⟨?_, h.fly, h.inc⟩
    intro k ps hk
    simp only [List.mem_append, List.mem_map, Prod.mk.injEq] at hk
    rcases hk with ⟨k', hk', rfl, _⟩ | hk
    · have hkn : Desc k' n := Desc.step (k := k') (t := n) (by simp [pushed, hr, hk']) (Desc.refl k')
      exact desc_trans hkn hn
    · exact h.pend k ps hk

theorem mem_of_getElem? {α : Type} {l : List α} {i : Nat} {a : α} (h : l[i]? = some a) : a ∈ l :=
  List.mem_of_getElem? h

theorem solinv_step {root : ν} {c c' : Cfg ν σ} {ev : Ev} (h : SolInv root c) (hs : step? c ev = some c') :
    SolInv root c' := by
  cases ev with
  | acquire t =>
    simp only [step?] at hs
    split at hs
    · simp only [Option.some.injEq] at hs; subst hs
      exact ⟨h.pend, fly_set h.fly t _ (none_node _ rfl root), h.inc⟩
    · rename_i n _ ht
      have hn : Desc n root := h.fly _ (mem_of_getElem? ht) n rfl
      split at hs
      · simp only [Option.some.injEq] at hs; subst hs
        exact ⟨h.pend, fly_set h.fly t _ (none_node _ rfl root), h.inc⟩
      · simp only [Option.some.injEq] at hs; subst hs
        have h' := solinv_applyRes n h hn
        have hp : (applyRes c n).pcs = c.pcs := by
          unfold applyRes; cases Solver.res n <;> simp <;> split <;> simp
        exact ⟨h'.pend, fly_set h'.fly t _ (none_node _ rfl root), h'.inc⟩
    · contradiction
  | top t k =>
    simp only [step?] at hs
    split at hs
    · split at hs
      · rename_i n ps hk
        have hn : Desc n root := h.pend n ps (mem_of_getElem? hk)
        have hpend : ∀ m ps', (m, ps') ∈ c.pending.eraseIdx k → Desc m root :=
          fun m ps' hm => h.pend m ps' (List.mem_of_mem_eraseIdx hm)
        split at hs
        · simp only [Option.some.injEq] at hs; subst hs
          exact ⟨hpend, fly_set h.fly t _ (by intro m hm; simp [pcNode] at hm; rw [← hm]; exact hn), h.inc⟩
        · simp only [Option.some.injEq] at hs; subst hs
          exact ⟨hpend, fly_set h.fly t _ (none_node _ rfl root), h.inc⟩
      · split at hs
        · split at hs
          · simp only [Option.some.injEq] at hs; subst hs
            exact ⟨h.pend, fly_set h.fly t _ (none_node _ rfl root), h.inc⟩
          · simp only [Option.some.injEq] at hs; subst hs
            exact ⟨h.pend, fly_set h.fly t _ (none_node _ rfl root), h.inc⟩
        · contradiction
    · contradiction
  | after t =>
    simp only [step?] at hs
    split at hs
    · split at hs
      · simp only [Option.some.injEq] at hs; subst hs
        exact ⟨h.pend, fly_set (fly_wakeAll h.fly) t _ (none_node _ rfl root), h.inc⟩
      · simp only [Option.some.injEq] at hs; subst hs
        exact ⟨h.pend, fly_set h.fly t _ (none_node _ rfl root), h.inc⟩
    · contradiction
  | solve t =>
    simp only [step?] at hs
    split at hs
    · rename_i n ht
      have hn : Desc n root := h.fly _ (mem_of_getElem? ht) n rfl
      simp only [Option.some.injEq] at hs; subst hs
      exact ⟨h.pend, fly_set h.fly t _ (by intro m hm; simp [pcNode] at hm; rw [← hm]; exact hn), h.inc⟩
    · contradiction
  | wake t =>
    simp only [step?] at hs
    split at hs
    · simp only [Option.some.injEq] at hs; subst hs
      exact ⟨h.pend, fly_set h.fly t _ (none_node _ rfl root), h.inc⟩
    · contradiction
  | die t =>
    simp only [step?] at hs
    split at hs
    · simp only [Option.some.injEq] at hs; subst hs
      exact ⟨h.pend, fly_set (fly_wakeAll h.fly) t _ (none_node _ rfl root), h.inc⟩
    · contradiction

theorem reach_solinv {root : ν} {top T : Nat} {c : Cfg ν σ} (hr : Reach root top T c) : SolInv root c := by
  induction hr with
  | init => exact solinv_init root top T
  | step _ hs ih => exact solinv_step ih hs

#print axioms reach_solinv
end Eng3
