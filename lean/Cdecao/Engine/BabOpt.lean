import Cdecao.Engine.Core
/-! Spike: from node-level specifications to optimality of the whole search (composition used by
    C02_partial, and `Bounded` for C03): an abstract solution space `S` with a score, a set `Sol n`
    of solutions consistent with each subproblem, and three facts about the node solver. -/
namespace Eng3
variable {ν σ : Type} [Solver ν σ]

structure NodeSpec (S : Type) (score : S → Nat) (Sol : ν → S → Prop) (sem : σ → S) (μ : ν → Nat) : Prop where
  /-- a feasible verdict returns a best element of the subproblem's solution set, with its score -/
  feas : ∀ (n : ν) sol sc, Solver.res n = .feasible sol sc →
      Sol n (sem sol) ∧ score (sem sol) = sc ∧ ∀ s, Sol n s → score s ≤ sc
  /-- "no solution" is only answered when the solution set is empty -/
  none : ∀ (n : ν), Solver.res n = .noSol → ∀ s, ¬ Sol n s
  /-- an infeasible verdict carries an upper bound, the branches cover the solution set, branching only
      restricts, and it makes progress -/
  bound : ∀ (n : ν) sc, Solver.res n = .infeasible sc → ∀ s, Sol n s → score s ≤ sc
  cover : ∀ (n : ν) sc, Solver.res n = .infeasible sc → ∀ s, Sol n s → ∃ k ∈ Solver.kids n, Sol k s
  mono : ∀ (n : ν) sc, Solver.res n = .infeasible sc → ∀ k ∈ Solver.kids n, ∀ s, Sol k s → Sol n s
  prog : ∀ (n : ν) sc, Solver.res n = .infeasible sc → ∀ k ∈ Solver.kids n, μ k < μ n
  nopanic : ∀ (n : ν), Solver.res n ≠ .panic

variable {S : Type} {score : S → Nat} {Sol : ν → S → Prop} {sem : σ → S} {μ : ν → Nat}

theorem sol_mono_desc (h : NodeSpec S score Sol sem μ) {f n : ν} (hd : Desc f n) : ∀ s, Sol f s → Sol n s := by
  induction hd with
  | refl => intro s hs; exact hs
  | @step k t hk _ ih =>
    intro s hs
    cases hr : Solver.res t with
    | infeasible sc =>
      have hk' : k ∈ Solver.kids t := by simpa [pushed, hr] using hk
      exact h.mono t sc hr k hk' s (ih s hs)
    | noSol => simp [pushed, hr] at hk
    | feasible sol sc => simp [pushed, hr] at hk
    | panic => simp [pushed, hr] at hk

/-- the node scores bound everything below: the hypothesis of the engine theorems -/
theorem bounded_of_spec (h : NodeSpec S score Sol sem μ) (root : ν) : Bounded root := by
  intro n _ s hs k hk f sc hdf ⟨sol, hf⟩
  obtain ⟨h1, h2, _⟩ := h.feas f sol sc hf
  have := sol_mono_desc h hdf _ h1
  have := h.mono n s hs k hk _ this
  have := h.bound n s hs _ this
  omega

/-- every solution of a subproblem is dominated by a feasible node below it -/
theorem exists_feasible_above (h : NodeSpec S score Sol sem μ) : ∀ (m : Nat) (n : ν), μ n ≤ m → ∀ s, Sol n s →
    ∃ f sol sc, Desc f n ∧ Solver.res f = .feasible sol sc ∧ score s ≤ sc := by
  intro m
  induction m with
  | zero =>
    intro n hn s hs
    cases hr : Solver.res n with
    | feasible sol sc => exact ⟨n, sol, sc, Desc.refl _, hr, (h.feas n sol sc hr).2.2 s hs⟩
    | noSol => exact absurd hs (h.none n hr s)
    | panic => exact absurd hr (h.nopanic n)
    | infeasible sc =>
      obtain ⟨k, hk, _⟩ := h.cover n sc hr s hs
      have := h.prog n sc hr k hk; omega
  | succ m ih =>
    intro n hn s hs
    cases hr : Solver.res n with
    | feasible sol sc => exact ⟨n, sol, sc, Desc.refl _, hr, (h.feas n sol sc hr).2.2 s hs⟩
    | noSol => exact absurd hs (h.none n hr s)
    | panic => exact absurd hr (h.nopanic n)
    | infeasible sc =>
      obtain ⟨k, hk, hks⟩ := h.cover n sc hr s hs
      have hμ := h.prog n sc hr k hk
      obtain ⟨f, sol, sc', hd, hf, hle⟩ := ih k (by omega) s hks
      exact ⟨f, sol, sc', Desc.step (by simp [pushed, hr, hk]) hd, hf, hle⟩

/-- C02 (composition): for every thread count and schedule, the finished search reports a solution of
    maximal score of the root's solution set, or nothing iff that set is empty. -/
theorem bab_optimal (h : NodeSpec S score Sol sem μ) {root : ν} {top T : Nat} {c : Cfg ν σ} (hT : 0 < T)
    (htop : ∀ s, Sol root s → score s ≤ top) (hr : Reach root top T c) (hd : AllDone c) :
    (c.best = none → ∀ s, ¬ Sol root s) ∧
    (∀ sol, c.best = some sol → Sol root (sem sol) ∧ score (sem sol) = c.bestScore ∧
      ∀ s, Sol root s → score s ≤ c.bestScore) := by
  have hb := bounded_of_spec h root
  have htop' : ∀ f sc, Desc f root → IsFeas f sc → sc ≤ top := by
    intro f sc hdf ⟨sol, hf⟩
    obtain ⟨h1, h2, _⟩ := h.feas f sol sc hf
    have := htop _ (sol_mono_desc h hdf _ h1)
    omega
  obtain ⟨a, b⟩ := C09_final hT hb htop' hr hd
  have dom : ∀ s, Sol root s → c.best ≠ none ∧ score s ≤ c.bestScore := by
    intro s hs
    obtain ⟨f, sol, sc, hdf, hf, hle⟩ := exists_feasible_above h (μ root) root (Nat.le_refl _) s hs
    obtain ⟨h1, h2⟩ := a f sc hdf ⟨sol, hf⟩
    exact ⟨h1, by omega⟩
  refine ⟨?_, ?_⟩
  · intro hn s hs; exact (dom s hs).1 hn
  · intro sol hsol
    rcases b with hn | ⟨f, sol', hdf, hf, hbest⟩
    · rw [hn] at hsol; cases hsol
    · rw [hbest] at hsol; cases hsol
      obtain ⟨h1, h2, _⟩ := h.feas f sol _ hf
      exact ⟨sol_mono_desc h hdf _ h1, h2, fun s hs => (dom s hs).2⟩

#print axioms bab_optimal
end Eng3
