import Cdecao.Engine.Core
/-! Spike: from node-level specifications to optimality of the whole search (composition used by
    C02_partial, and `Bounded` for C03): an abstract solution space `S` with a score, a set `Sol n`
    of solutions consistent with each subproblem, and three facts about the node solver.

    The specification is relative to a tree invariant `Ok : ν → Prop` (the facts about the node solver
    are only needed — and for caobab only true — for nodes the search can actually produce); the
    unrelativised `NodeSpec` is the special case `Ok := fun _ => True`. -/
namespace Eng3
variable {ν σ : Type} [Solver ν σ]

/-- the part of the node specification that yields `Bounded` (no exhaustiveness, no progress) -/
structure BoundSpec (S : Type) (score : S → Nat) (Sol : ν → S → Prop) (sem : σ → S) (Ok : ν → Prop) : Prop where
  /-- the invariant is inherited by the children the engine pushes -/
  okKids : ∀ (n : ν) sc, Ok n → Solver.res n = .infeasible sc → ∀ k ∈ Solver.kids n, Ok k
  /-- a feasible verdict returns an element of the subproblem's solution set, with its score -/
  feasIn : ∀ (n : ν) sol sc, Ok n → Solver.res n = .feasible sol sc → Sol n (sem sol) ∧ score (sem sol) = sc
  /-- an infeasible verdict carries an upper bound -/
  bound : ∀ (n : ν) sc, Ok n → Solver.res n = .infeasible sc → ∀ s, Sol n s → score s ≤ sc
  /-- branching only restricts -/
  mono : ∀ (n : ν) sc, Ok n → Solver.res n = .infeasible sc → ∀ k ∈ Solver.kids n, ∀ s, Sol k s → Sol n s

/-- the full node specification, relative to the tree invariant `Ok` -/
structure NodeSpecOn (S : Type) (score : S → Nat) (Sol : ν → S → Prop) (sem : σ → S) (μ : ν → Nat)
    (Ok : ν → Prop) : Prop extends BoundSpec S score Sol sem Ok where
  /-- a feasible verdict returns a best element of the subproblem's solution set -/
  feasOpt : ∀ (n : ν) sol sc, Ok n → Solver.res n = .feasible sol sc → ∀ s, Sol n s → score s ≤ sc
  /-- "no solution" is only answered when the solution set is empty -/
  none : ∀ (n : ν), Ok n → Solver.res n = .noSol → ∀ s, ¬ Sol n s
  /-- the branches cover the solution set -/
  cover : ∀ (n : ν) sc, Ok n → Solver.res n = .infeasible sc → ∀ s, Sol n s → ∃ k ∈ Solver.kids n, Sol k s
  /-- branching makes progress -/
  prog : ∀ (n : ν) sc, Ok n → Solver.res n = .infeasible sc → ∀ k ∈ Solver.kids n, μ k < μ n
  nopanic : ∀ (n : ν), Ok n → Solver.res n ≠ .panic

variable {S : Type} {score : S → Nat} {Sol : ν → S → Prop} {sem : σ → S} {μ : ν → Nat} {Ok : ν → Prop}

/-- a pushed child is a child of an infeasible node -/
theorem pushed_cases {k t : ν} (hk : k ∈ pushed t) : ∃ sc, Solver.res t = .infeasible sc ∧ k ∈ Solver.kids t := by
  cases hr : Solver.res t with
  | infeasible sc => exact ⟨sc, rfl, by simpa [pushed, hr] using hk⟩
  | noSol => simp [pushed, hr] at hk
  | feasible sol sc => simp [pushed, hr] at hk
  | panic => simp [pushed, hr] at hk

/-- the invariant holds on the whole tree below an `Ok` node -/
theorem ok_desc (h : BoundSpec S score Sol sem Ok) {f n : ν} (hd : Desc f n) : Ok n → Ok f := by
  induction hd with
  | refl => exact id
  | @step k t hk _ ih =>
    intro ht
    obtain ⟨sc, hr, hk'⟩ := pushed_cases hk
    exact ih (h.okKids t sc ht hr k hk')

theorem sol_mono_desc_on (h : BoundSpec S score Sol sem Ok) {f n : ν} (hd : Desc f n) :
    Ok n → ∀ s, Sol f s → Sol n s := by
  induction hd with
  | refl => intro _ s hs; exact hs
  | @step k t hk _ ih =>
    intro ht s hs
    obtain ⟨sc, hr, hk'⟩ := pushed_cases hk
    exact h.mono t sc ht hr k hk' s (ih (h.okKids t sc ht hr k hk') s hs)

/-- the node scores bound everything below: the hypothesis of the engine theorems -/
theorem bounded_of_bspec (h : BoundSpec S score Sol sem Ok) (root : ν) (hroot : Ok root) : Bounded root := by
  intro n hdn s hs k hk f sc hdf ⟨sol, hf⟩
  have hn : Ok n := ok_desc h hdn hroot
  have hk' : Ok k := h.okKids n s hn hs k hk
  have hf' : Ok f := ok_desc h hdf hk'
  obtain ⟨h1, h2⟩ := h.feasIn f sol sc hf' hf
  have := sol_mono_desc_on h hdf hk' _ h1
  have := h.mono n s hn hs k hk _ this
  have := h.bound n s hn hs _ this
  omega

/-- every solution of a subproblem is dominated by a feasible node below it -/
theorem exists_feasible_above_on (h : NodeSpecOn S score Sol sem μ Ok) : ∀ (m : Nat) (n : ν), μ n ≤ m → Ok n →
    ∀ s, Sol n s → ∃ f sol sc, Desc f n ∧ Solver.res f = .feasible sol sc ∧ score s ≤ sc := by
  intro m
  induction m with
  | zero =>
    intro n hn hok s hs
    cases hr : Solver.res n with
    | feasible sol sc => exact ⟨n, sol, sc, Desc.refl _, hr, h.feasOpt n sol sc hok hr s hs⟩
    | noSol => exact absurd hs (h.none n hok hr s)
    | panic => exact absurd hr (h.nopanic n hok)
    | infeasible sc =>
      obtain ⟨k, hk, _⟩ := h.cover n sc hok hr s hs
      have := h.prog n sc hok hr k hk; omega
  | succ m ih =>
    intro n hn hok s hs
    cases hr : Solver.res n with
    | feasible sol sc => exact ⟨n, sol, sc, Desc.refl _, hr, h.feasOpt n sol sc hok hr s hs⟩
    | noSol => exact absurd hs (h.none n hok hr s)
    | panic => exact absurd hr (h.nopanic n hok)
    | infeasible sc =>
      obtain ⟨k, hk, hks⟩ := h.cover n sc hok hr s hs
      have hμ := h.prog n sc hok hr k hk
      obtain ⟨f, sol, sc', hd, hf, hle⟩ := ih k (by omega) (h.okKids n sc hok hr k hk) s hks
      exact ⟨f, sol, sc', Desc.step (by simp [pushed, hr, hk]) hd, hf, hle⟩

/-- C02 (composition), relative to a tree invariant: for every thread count and schedule, the finished
    search reports a solution of maximal score of the root's solution set, or nothing iff that set is empty. -/
theorem bab_optimal_on (h : NodeSpecOn S score Sol sem μ Ok) {root : ν} (hroot : Ok root) {top T : Nat}
    {c : Cfg ν σ} (hT : 0 < T)
    (htop : ∀ s, Sol root s → score s ≤ top) (hr : Reach root top T c) (hd : AllDone c) :
    (c.best = none → ∀ s, ¬ Sol root s) ∧
    (∀ sol, c.best = some sol → Sol root (sem sol) ∧ score (sem sol) = c.bestScore ∧
      ∀ s, Sol root s → score s ≤ c.bestScore) := by
  have hb := bounded_of_bspec h.toBoundSpec root hroot
  have htop' : ∀ f sc, Desc f root → IsFeas f sc → sc ≤ top := by
    intro f sc hdf ⟨sol, hf⟩
    obtain ⟨h1, h2⟩ := h.feasIn f sol sc (ok_desc h.toBoundSpec hdf hroot) hf
    have := htop _ (sol_mono_desc_on h.toBoundSpec hdf hroot _ h1)
    omega
  obtain ⟨a, b⟩ := C09_final hT hb htop' hr hd
  have dom : ∀ s, Sol root s → c.best ≠ none ∧ score s ≤ c.bestScore := by
    intro s hs
    obtain ⟨f, sol, sc, hdf, hf, hle⟩ := exists_feasible_above_on h (μ root) root (Nat.le_refl _) hroot s hs
    obtain ⟨h1, h2⟩ := a f sc hdf ⟨sol, hf⟩
    exact ⟨h1, by omega⟩
  refine ⟨?_, ?_⟩
  · intro hn s hs; exact (dom s hs).1 hn
  · intro sol hsol
    rcases b with hn | ⟨f, sol', hdf, hf, hbest⟩
    · rw [hn] at hsol; cases hsol
    · rw [hbest] at hsol; cases hsol
      obtain ⟨h1, h2⟩ := h.feasIn f sol _ (ok_desc h.toBoundSpec hdf hroot) hf
      exact ⟨sol_mono_desc_on h.toBoundSpec hdf hroot _ h1, h2, fun s hs => (dom s hs).2⟩

/-! ### the unrelativised specification (`Ok := fun _ => True`) -/

structure NodeSpec (S : Type) (score : S → Nat) (Sol : ν → S → Prop) (sem : σ → S) (μ : ν → Nat) : Prop where
  /-- a feasible verdict returns a best element of the subproblem's solution set, with its score -/
  feas : ∀ (n : ν) sol sc, Solver.res n = .feasible sol sc →
      Sol n (sem sol) ∧ score (sem sol) = sc ∧ ∀ s, Sol n s → score s ≤ sc
  /-- "no solution" is only answered when the solution set is empty -/
  none : ∀ (n : ν), Solver.res n = .noSol → ∀ s, ¬ Sol n s
  /-- an infeasible verdict carries an upper bound, the branches cover the solution set, branching only
      restricts, and it makes progress -/
  bound : ∀ (n : ν) sc, Solver.res n = .infeasible sc → ∀ s, Sol n s → score s ≤ sc
  cover : ∀ (n : ν) sc, Solver.res n = .infeasible sc → ∀ s, Sol n s → ∃ k ∈ Solver.kids n, Sol k s
  mono : ∀ (n : ν) sc, Solver.res n = .infeasible sc → ∀ k ∈ Solver.kids n, ∀ s, Sol k s → Sol n s
  prog : ∀ (n : ν) sc, Solver.res n = .infeasible sc → ∀ k ∈ Solver.kids n, μ k < μ n
  nopanic : ∀ (n : ν), Solver.res n ≠ .panic

theorem NodeSpec.on (h : NodeSpec S score Sol sem μ) : NodeSpecOn S score Sol sem μ (fun _ => True) where
  okKids := fun _ _ _ _ _ _ => trivial
  feasIn := fun n sol sc _ hr => ⟨(h.feas n sol sc hr).1, (h.feas n sol sc hr).2.1⟩
  bound := fun n sc _ => h.bound n sc
  mono := fun n sc _ => h.mono n sc
  feasOpt := fun n sol sc _ hr => (h.feas n sol sc hr).2.2
  none := fun n _ => h.none n
  cover := fun n sc _ => h.cover n sc
  prog := fun n sc _ => h.prog n sc
  nopanic := fun n _ => h.nopanic n

theorem sol_mono_desc (h : NodeSpec S score Sol sem μ) {f n : ν} (hd : Desc f n) : ∀ s, Sol f s → Sol n s :=
  sol_mono_desc_on h.on.toBoundSpec hd trivial

/-- the node scores bound everything below: the hypothesis of the engine theorems -/
theorem bounded_of_spec (h : NodeSpec S score Sol sem μ) (root : ν) : Bounded root :=
  bounded_of_bspec h.on.toBoundSpec root trivial

/-- every solution of a subproblem is dominated by a feasible node below it -/
theorem exists_feasible_above (h : NodeSpec S score Sol sem μ) : ∀ (m : Nat) (n : ν), μ n ≤ m → ∀ s, Sol n s →
    ∃ f sol sc, Desc f n ∧ Solver.res f = .feasible sol sc ∧ score s ≤ sc :=
  fun m n hn => exists_feasible_above_on h.on m n hn trivial

/-- C02 (composition): for every thread count and schedule, the finished search reports a solution of
    maximal score of the root's solution set, or nothing iff that set is empty. -/
theorem bab_optimal (h : NodeSpec S score Sol sem μ) {root : ν} {top T : Nat} {c : Cfg ν σ} (hT : 0 < T)
    (htop : ∀ s, Sol root s → score s ≤ top) (hr : Reach root top T c) (hd : AllDone c) :
    (c.best = none → ∀ s, ¬ Sol root s) ∧
    (∀ sol, c.best = some sol → Sol root (sem sol) ∧ score (sem sol) = c.bestScore ∧
      ∀ s, Sol root s → score s ≤ c.bestScore) :=
  bab_optimal_on h.on (root := root) trivial hT htop hr hd

#print axioms bab_optimal_on
#print axioms bab_optimal
end Eng3
