import Cdecao.Engine.Core
import Cdecao.Engine.Term
import Cdecao.Engine.Final
/-! # Accounting for the engine: every subproblem exactly once, and a work bound for whole runs

Part (A). A *ghost history* `Ghost ν` is computed alongside the transition system (`step?` is not
touched; `ghostUpd` mirrors `step?` / `statsUpd`):

* `gen`     — the root, then every child in the order in which it is pushed onto the queue,
* `solved`  — nodes whose (non-panic) result has been applied under the lock,
* `bounded` — nodes popped and discarded because the stored parent score does not beat the incumbent,
* `failed`  — nodes whose solver panicked.

`AInv` (the accounting invariant) says, as multisets (`List.Perm`),
`gen ~ solved ++ bounded ++ failed ++ (nodes in flight) ++ (nodes in the queue)`.
It is inductive (`ainv_step`) and holds in every reachable state of the product system `ReachG`
(configuration, statistics, ghost).  Corollaries: `account_at_done`, `account_at_finished`,
`ghost_stats` (the counters of `Stats` are the lengths of the ghost lists), `gen_desc`.

Part (B). `Run c evs c'` (an explicit event list), `psi_run` (the potential lemma summed over a run),
`notify_run` (the wake-ups caused by `notify_all` are at most `T * T` in total), `run_bound` and
`run_bound_init`.

Core only (no Mathlib). -/
namespace Eng3
variable {ν σ : Type} [Solver ν σ]

/-! ## (A) ghost history -/

/-- the ghost history -/
structure Ghost (ν : Type) where
  /-- the root, then every child in the order it is pushed -/
  gen : List ν
  /-- nodes whose result has been applied (`acquire t` with `pcs[t] = want (some n)`, no panic),
      in the order of application -/
  solved : List ν := []
  /-- nodes popped by `top t k` and discarded by bounding, in that order -/
  bounded : List ν := []
  /-- nodes whose solver panicked, in the order in which the panics are registered -/
  failed : List ν := []

/-- the history at the start: the root has been generated, nothing else has happened -/
def Ghost.init (root : ν) : Ghost ν := { gen := [root] }

/-- the ghost update; same case structure as `step?` and `statsUpd` -/
def ghostUpd (c : Cfg ν σ) (g : Ghost ν) : Ev → Ghost ν
  | .acquire t =>
    match c.lock, c.pcs[t]? with
    | none, some (.want (some n)) =>
      match Solver.res n with
      | .panic => { g with failed := g.failed ++ [n] }
      | .noSol => { g with solved := g.solved ++ [n] }
      | .feasible _ _ => { g with solved := g.solved ++ [n] }
      | .infeasible _ => { g with solved := g.solved ++ [n], gen := g.gen ++ Solver.kids n }
    | _, _ => g
  | .top t k =>
    match c.pcs[t]?, c.pending[k]? with
    | some .holding, some (n, ps) =>
      if c.best = none ∨ ps > c.bestScore then g else { g with bounded := g.bounded ++ [n] }
    | _, _ => g
  | _ => g

/-- the node a worker has in flight, if any -/
def flyOf : Pc ν → List ν
  | .solving n => [n]
  | .want (some n) => [n]
  | _ => []

/-- the nodes in flight (popped, result not yet applied), in thread order -/
def flying (pcs : List (Pc ν)) : List ν := pcs.flatMap flyOf

/-- the nodes in the queue -/
def pendNodes (l : List (ν × Nat)) : List ν := l.map (·.1)

/-- the accounting invariant -/
def AInv (c : Cfg ν σ) (g : Ghost ν) : Prop :=
  List.Perm g.gen (g.solved ++ g.bounded ++ g.failed ++ flying c.pcs ++ pendNodes c.pending)

/-! ### list lemmas -/

theorem flying_nil : flying ([] : List (Pc ν)) = [] := rfl

theorem flying_cons (pc : Pc ν) (pcs : List (Pc ν)) : flying (pc :: pcs) = flyOf pc ++ flying pcs := by
  simp [flying]

/-- effect of one pc change on the in-flight multiset -/
theorem flying_set (pcs : List (Pc ν)) (t : Nat) (old new : Pc ν) (h : pcs[t]? = some old) :
    List.Perm (flyOf old ++ flying (pcs.set t new)) (flyOf new ++ flying pcs) := by
  induction pcs generalizing t with
  | nil => simp at h
  | cons x xs ih =>
    cases t with
    | zero =>
      simp at h; subst h
      simp only [List.set_cons_zero, flying_cons]
      rw [← List.append_assoc, ← List.append_assoc]
      exact List.Perm.append_right _ List.perm_append_comm
    | succ t =>
      simp at h
      have := ih t h
      simp only [List.set_cons_succ, flying_cons]
      -- old ++ (x ++ F') ~ x ++ (old ++ F') ~ x ++ (new ++ F) ~ new ++ (x ++ F)
      refine (List.perm_append_comm_assoc _ _ _).trans ?_
      refine (List.Perm.append_left _ this).trans ?_
      exact List.perm_append_comm_assoc _ _ _

theorem flying_set_same (pcs : List (Pc ν)) (t : Nat) (old new : Pc ν) (h : pcs[t]? = some old)
    (he : flyOf old = flyOf new) : List.Perm (flying (pcs.set t new)) (flying pcs) := by
  have := flying_set pcs t old new h
  rw [he] at this
  exact (List.perm_append_left_iff _).1 this

theorem flying_wakeAll (pcs : List (Pc ν)) : flying (wakeAll pcs) = flying pcs := by
  induction pcs with
  | nil => rfl
  | cons x xs ih =>
    have hx : wakeAll (x :: xs) = (match x with | .waiting => Pc.want none | pc => pc) :: wakeAll xs := rfl
    rw [hx, flying_cons, flying_cons, ih]
    cases x <;> rfl

theorem pendNodes_erase (l : List (ν × Nat)) (k : Nat) (n : ν) (ps : Nat) (h : l[k]? = some (n, ps)) :
    List.Perm (pendNodes l) (n :: pendNodes (l.eraseIdx k)) := by
  induction l generalizing k with
  | nil => simp at h
  | cons x xs ih =>
    cases k with
    | zero => simp at h; subst h; simp [pendNodes]
    | succ k =>
      simp at h
      have := ih k h
      simp only [pendNodes, List.eraseIdx_cons_succ, List.map_cons] at this ⊢
      exact (List.Perm.cons _ this).trans (List.Perm.swap _ _ _)

theorem pendNodes_kids (kids : List ν) (sc : Nat) (l : List (ν × Nat)) :
    pendNodes (kids.map (fun k => (k, sc)) ++ l) = kids ++ pendNodes l := by
  simp [pendNodes, List.map_append, Function.comp_def]

/-- pull an element to the front through a prefix -/
theorem perm_ins {α : Type} {a : α} {X X' : List α} (L : List α) (h : List.Perm X (a :: X')) :
    List.Perm (L ++ X) (a :: (L ++ X')) :=
  (List.Perm.append_left L h).trans List.perm_middle

/-! ### the five moves of the accounting, as facts about lists -/

section moves
variable {α : Type} {G S B F Y P Y' P' : List α} {n : α}

/-- nothing moves (the in-flight list is permuted at most) -/
theorem acct_neutral (h : List.Perm G (S ++ (B ++ (F ++ (Y ++ P))))) (hY : List.Perm Y' Y) :
    List.Perm G (S ++ (B ++ (F ++ (Y' ++ P)))) :=
  h.trans ((((hY.symm.append_right P).append_left F).append_left B).append_left S)

/-- queue → in flight -/
theorem acct_pop (h : List.Perm G (S ++ (B ++ (F ++ (Y ++ P))))) (hP : List.Perm P (n :: P'))
    (hY : List.Perm Y' (n :: Y)) : List.Perm G (S ++ (B ++ (F ++ (Y' ++ P')))) := by
  have h1 : List.Perm (Y ++ P) (Y' ++ P') :=
    (perm_ins Y hP).trans (hY.append_right P').symm
  exact h.trans (((h1.append_left F).append_left B).append_left S)

/-- queue → bounded -/
theorem acct_bound (h : List.Perm G (S ++ (B ++ (F ++ (Y ++ P))))) (hP : List.Perm P (n :: P')) :
    List.Perm G (S ++ ((B ++ [n]) ++ (F ++ (Y ++ P')))) := by
  have h1 : List.Perm (B ++ (F ++ (Y ++ P))) (B ++ n :: (F ++ (Y ++ P'))) :=
    (perm_ins F (perm_ins Y hP)).append_left B
  have h2 : B ++ n :: (F ++ (Y ++ P')) = (B ++ [n]) ++ (F ++ (Y ++ P')) := by simp
  rw [h2] at h1
  exact h.trans (h1.append_left S)

/-- in flight → failed -/
theorem acct_fail (h : List.Perm G (S ++ (B ++ (F ++ (Y ++ P))))) (hY : List.Perm Y (n :: Y')) :
    List.Perm G (S ++ (B ++ ((F ++ [n]) ++ (Y' ++ P)))) := by
  have h1 : List.Perm (F ++ (Y ++ P)) (F ++ n :: (Y' ++ P)) :=
    (hY.append_right P).append_left F
  have h2 : F ++ n :: (Y' ++ P) = (F ++ [n]) ++ (Y' ++ P) := by simp
  rw [h2] at h1
  exact h.trans ((h1.append_left B).append_left S)

/-- in flight → solved, the children `ks` are generated and enqueued -/
theorem acct_solve (ks : List α) (h : List.Perm G (S ++ (B ++ (F ++ (Y ++ P)))))
    (hY : List.Perm Y (n :: Y')) :
    List.Perm (G ++ ks) ((S ++ [n]) ++ (B ++ (F ++ (Y' ++ (ks ++ P))))) := by
  have h1 : List.Perm (S ++ (B ++ (F ++ (Y ++ P)))) (S ++ n :: (B ++ (F ++ (Y' ++ P)))) :=
    (perm_ins B (perm_ins F (hY.append_right P))).append_left S
  have h2 : S ++ n :: (B ++ (F ++ (Y' ++ P))) = (S ++ [n]) ++ (B ++ (F ++ (Y' ++ P))) := by simp
  rw [h2] at h1
  have h3 : List.Perm (G ++ ks) ((S ++ [n]) ++ (B ++ (F ++ (Y' ++ P))) ++ ks) :=
    (h.trans h1).append_right ks
  have h4 : (S ++ [n]) ++ (B ++ (F ++ (Y' ++ P))) ++ ks = (S ++ [n]) ++ (B ++ (F ++ (Y' ++ (P ++ ks)))) := by
    simp only [List.append_assoc]
  rw [h4] at h3
  exact h3.trans
    (((((List.perm_append_comm (l₁ := P) (l₂ := ks)).append_left Y').append_left F).append_left B).append_left _)

end moves

/-! ### the invariant is inductive -/

omit [Solver ν σ] in
theorem ainv_iff (c : Cfg ν σ) (g : Ghost ν) :
    AInv c g ↔ List.Perm g.gen
      (g.solved ++ (g.bounded ++ (g.failed ++ (flying c.pcs ++ pendNodes c.pending)))) := by
  simp only [AInv, List.append_assoc]

omit [Solver ν σ] in
theorem ainv_init (root : ν) (top T : Nat) : AInv (init root top T : Cfg ν σ) (Ghost.init root) := by
  have hf : ∀ T : Nat, flying (List.replicate T (Pc.want none : Pc ν)) = [] := by
    intro T
    induction T with
    | zero => rfl
    | succ T ih => rw [List.replicate_succ, flying_cons, ih]; rfl
  simp [AInv, init, Ghost.init, hf, pendNodes]

theorem ainv_step {c c' : Cfg ν σ} {g : Ghost ν} {ev : Ev} (h : AInv c g)
    (hs : step? c ev = some c') : AInv c' (ghostUpd c g ev) := by
  rw [ainv_iff] at h ⊢
  cases ev with
  | wake t =>
    simp only [step?] at hs
    split at hs
    · rename_i hp
      cases hs
      exact acct_neutral h (flying_set_same c.pcs t _ _ hp rfl)
    · cases hs
  | solve t =>
    simp only [step?] at hs
    split at hs
    · rename_i n hp
      cases hs
      exact acct_neutral h (flying_set_same c.pcs t _ _ hp rfl)
    · cases hs
  | die t =>
    simp only [step?] at hs
    split at hs
    · rename_i hp
      cases hs
      have h1 : (wakeAll c.pcs)[t]? = some Pc.dying := wakeAll_getElem?_of hp (by simp)
      have := flying_set_same (wakeAll c.pcs) t _ Pc.dead h1 rfl
      rw [flying_wakeAll] at this
      exact acct_neutral h this
    · cases hs
  | after t =>
    simp only [step?] at hs
    split at hs
    · rename_i hp
      split at hs
      · cases hs
        have h1 : (wakeAll c.pcs)[t]? = some Pc.afterPop := wakeAll_getElem?_of hp (by simp)
        have := flying_set_same (wakeAll c.pcs) t _ Pc.done h1 rfl
        rw [flying_wakeAll] at this
        exact acct_neutral h this
      · cases hs
        exact acct_neutral h (flying_set_same c.pcs t _ _ hp rfl)
    · cases hs
  | top t k =>
    simp only [step?] at hs
    split at hs
    · rename_i hp
      split at hs
      · rename_i n ps hk
        have hP := pendNodes_erase c.pending k n ps hk
        split at hs
        · rename_i hgt
          cases hs
          have hY : List.Perm (flying (c.pcs.set t (Pc.solving n))) (n :: flying c.pcs) := by
            simpa [flyOf] using flying_set c.pcs t _ (Pc.solving n) hp
          simp only [ghostUpd, hp, hk]
          simp only [hgt, if_true]
          exact acct_pop h hP hY
        · rename_i hgt
          cases hs
          simp only [ghostUpd, hp, hk]
          simp only [hgt, if_false]
          exact acct_neutral (acct_bound h hP) (flying_set_same c.pcs t _ _ hp rfl)
      · rename_i hk
        have hk' : c.pending[k]? = none := hk
        split at hs
        · split at hs
          · cases hs
            simp only [ghostUpd, hp, hk']
            exact acct_neutral h (flying_set_same c.pcs t _ _ hp rfl)
          · cases hs
            simp only [ghostUpd, hp, hk']
            exact acct_neutral h (flying_set_same c.pcs t _ _ hp rfl)
        · cases hs
    · cases hs
  | acquire t =>
    simp only [step?] at hs
    split at hs
    · rename_i hl' hp
      cases hs
      simp only [ghostUpd, hl', hp]
      exact acct_neutral h (flying_set_same c.pcs t _ _ hp rfl)
    · rename_i n hl' hp
      by_cases hpn : isPanic (Solver.res n) = true
      · simp only [hpn, if_true] at hs
        cases hs
        cases hres : Solver.res n <;> simp [hres, isPanic] at hpn
        have hY : List.Perm (flying c.pcs) (n :: flying (c.pcs.set t Pc.dying)) := by
          simpa [flyOf] using (flying_set c.pcs t _ Pc.dying hp).symm
        simp only [ghostUpd, hl', hp, hres, setPc]
        exact acct_fail h hY
      · have hpn' : isPanic (Solver.res n) = false := by simpa using hpn
        simp only [hpn', Bool.false_eq_true, if_false] at hs
        cases hs
        have hY : List.Perm (flying c.pcs) (n :: flying (c.pcs.set t Pc.afterPop)) := by
          simpa [flyOf] using (flying_set c.pcs t _ Pc.afterPop hp).symm
        cases hres : Solver.res n with
        | panic => simp [hres, isPanic] at hpn'
        | noSol =>
          simp only [ghostUpd, hl', hp, hres, setPc, applyRes]
          simpa using acct_solve [] h hY
        | feasible sol sc =>
          have hpe : (applyRes c n).pending = c.pending := by
            simp only [applyRes, hres]; split <;> rfl
          simp only [ghostUpd, hl', hp, hres, setPc, applyRes_pcs, hpe]
          simpa using acct_solve [] h hY
        | infeasible sc =>
          simp only [ghostUpd, hl', hp, hres, setPc, applyRes, pendNodes_kids]
          exact acct_solve (Solver.kids n) h hY
    · cases hs

/-! ### the product system (configuration, statistics, ghost) -/

/-- reachability in the product of the transition system with the statistics layer and the ghost
    history: start with the initial configuration, the default counters and `Ghost.init root`;
    every step of `step?` updates the counters with `statsUpd` and the history with `ghostUpd`. -/
inductive ReachG (root : ν) (top T : Nat) : Cfg ν σ × Stats × Ghost ν → Prop where
  | init : ReachG root top T (init root top T, {}, Ghost.init root)
  | step {c c' : Cfg ν σ} {st : Stats} {g : Ghost ν} {ev : Ev} :
      ReachG root top T (c, st, g) → step? c ev = some c' →
      ReachG root top T (c', statsUpd c st ev, ghostUpd c g ev)

/-- forgetting the ghost gives the product with the statistics of Final.lean -/
theorem reachG_reachS {root : ν} {top T : Nat} {p : Cfg ν σ × Stats × Ghost ν}
    (h : ReachG root top T p) : ReachS root top T (p.1, p.2.1) := by
  induction h with
  | init => exact ReachS.init
  | step _ hs ih => exact ReachS.step ih (stepS_of_step _ hs)

theorem reachG_reach {root : ν} {top T : Nat} {p : Cfg ν σ × Stats × Ghost ν}
    (h : ReachG root top T p) : Reach root top T p.1 :=
  reachS_reach (reachG_reachS h)

/-- the ghost layer never blocks a step: every reachable pair (configuration, statistics) carries
    a ghost history -/
theorem reachS_reachG {root : ν} {top T : Nat} {p : Cfg ν σ × Stats} (h : ReachS root top T p) :
    ∃ g, ReachG root top T (p.1, p.2, g) := by
  induction h with
  | init => exact ⟨_, ReachG.init⟩
  | step _ hs ih =>
    obtain ⟨g, hg⟩ := ih
    obtain ⟨h1, h2⟩ := stepS_eq_some hs
    rw [h2]
    exact ⟨_, ReachG.step hg h1⟩

theorem reach_reachG {root : ν} {top T : Nat} {c : Cfg ν σ} (h : Reach root top T c) :
    ∃ st g, ReachG root top T (c, st, g) := by
  obtain ⟨st, hst⟩ := reach_reachS h
  obtain ⟨g, hg⟩ := reachS_reachG hst
  exact ⟨st, g, hg⟩

/-- **the accounting invariant holds in every reachable state** -/
theorem reachG_ainv {root : ν} {top T : Nat} {p : Cfg ν σ × Stats × Ghost ν}
    (h : ReachG root top T p) : AInv p.1 p.2.2 := by
  induction h with
  | init => exact ainv_init root top T
  | step _ hs ih => exact ainv_step ih hs

/-! ### the counters of `Stats` are the lengths of the ghost lists -/

structure GLen (st : Stats) (g : Ghost ν) : Prop where
  executed : st.executed = g.solved.length
  bound : st.bound = g.bounded.length
  gen : st.gen = g.gen.length
  panicked : st.panicked = g.failed.length

omit [Solver ν σ] in
theorem glen_init (root : ν) : GLen ({} : Stats) (Ghost.init root) := ⟨rfl, rfl, rfl, rfl⟩

/-- `statsUpd` and `ghostUpd` move in lockstep (for every event, enabled or not) -/
theorem glen_upd (c : Cfg ν σ) {st : Stats} {g : Ghost ν} (ev : Ev) (h : GLen st g) :
    GLen (statsUpd c st ev) (ghostUpd c g ev) := by
  obtain ⟨h1, h2, h3, h4⟩ := h
  cases ev with
  | acquire t =>
    simp only [statsUpd, ghostUpd]
    split
    · rename_i n hl hp
      simp only [hl, hp]
      cases hres : Solver.res n <;> refine ⟨?_, ?_, ?_, ?_⟩ <;> simp [h1, h2, h3, h4]
    · rename_i hno
      split
      · rename_i n hl hp
        exact absurd hp (hno n hl)
      · exact ⟨h1, h2, h3, h4⟩
  | top t k =>
    simp only [statsUpd, ghostUpd]
    split
    · rename_i n ps hp hk
      simp only [hp, hk]
      split
      · exact ⟨h1, h2, h3, h4⟩
      · refine ⟨?_, ?_, ?_, ?_⟩ <;> simp [h1, h2, h3, h4]
    · rename_i hno
      split
      · rename_i n ps hp hk
        exact absurd hk (hno n ps hp)
      · exact ⟨h1, h2, h3, h4⟩
  | after t => exact ⟨h1, h2, h3, h4⟩
  | solve t => exact ⟨h1, h2, h3, h4⟩
  | wake t => exact ⟨h1, h2, h3, h4⟩
  | die t => exact ⟨h1, h2, h3, h4⟩

/-- in every reachable state `executed`, `bound`, `gen`, `panicked` are the lengths of `solved`,
    `bounded`, `gen`, `failed` -/
theorem ghost_stats {root : ν} {top T : Nat} {p : Cfg ν σ × Stats × Ghost ν}
    (h : ReachG root top T p) : GLen p.2.1 p.2.2 := by
  induction h with
  | init => exact glen_init root
  | step _ _ ih => exact glen_upd _ _ ih

/-! ### what the ghost lists contain -/

/-- `solved` holds nodes with a verdict, `failed` nodes whose solver panics -/
structure GRes (g : Ghost ν) : Prop where
  solved : ∀ n ∈ g.solved, isPanic (Solver.res n) = false
  failed : ∀ n ∈ g.failed, isPanic (Solver.res n) = true

theorem gres_init (root : ν) : GRes (Ghost.init root) :=
  ⟨by intro n h; simp [Ghost.init] at h, by intro n h; simp [Ghost.init] at h⟩

theorem gres_upd (c : Cfg ν σ) {g : Ghost ν} (ev : Ev) (h : GRes g) : GRes (ghostUpd c g ev) := by
  obtain ⟨h1, h2⟩ := h
  cases ev with
  | acquire t =>
    simp only [ghostUpd]
    split
    · rename_i n _ _
      cases hres : Solver.res n <;> refine ⟨?_, ?_⟩ <;> simp only [List.mem_append, List.mem_singleton] <;>
        intro m hm
      all_goals first
        | exact h1 m hm
        | exact h2 m hm
        | (rcases hm with hm | rfl
           · first | exact h1 m hm | exact h2 m hm
           · simp [hres, isPanic])
    · exact ⟨h1, h2⟩
  | top t k =>
    simp only [ghostUpd]
    split
    · split
      · exact ⟨h1, h2⟩
      · exact ⟨h1, h2⟩
    · exact ⟨h1, h2⟩
  | after t => exact ⟨h1, h2⟩
  | solve t => exact ⟨h1, h2⟩
  | wake t => exact ⟨h1, h2⟩
  | die t => exact ⟨h1, h2⟩

theorem reachG_gres {root : ν} {top T : Nat} {p : Cfg ν σ × Stats × Ghost ν}
    (h : ReachG root top T p) : GRes p.2.2 := by
  induction h with
  | init => exact gres_init root
  | step _ _ ih => exact gres_upd _ _ ih

/-- every node in flight has been generated -/
theorem flying_mem {pcs : List (Pc ν)} {t : Nat} {pc : Pc ν} {n : ν} (h : pcs[t]? = some pc)
    (hn : n ∈ flyOf pc) : n ∈ flying pcs := by
  simp only [flying, List.mem_flatMap]
  exact ⟨pc, List.mem_of_getElem? h, hn⟩

/-- everything generated is a descendant of the root -/
theorem gen_desc_step {root : ν} {c c' : Cfg ν σ} {g : Ghost ν} {ev : Ev} (ha : AInv c g)
    (h : ∀ n ∈ g.gen, Desc n root) (hs : step? c ev = some c') :
    ∀ n ∈ (ghostUpd c g ev).gen, Desc n root := by
  cases ev with
  | acquire t =>
    simp only [ghostUpd]
    split
    · rename_i n _ hp
      have hn : Desc n root := by
        apply h
        apply ha.mem_iff.2
        simp only [List.mem_append]
        exact Or.inl (Or.inr (flying_mem hp (by simp [flyOf])))
      cases hres : Solver.res n with
      | infeasible sc =>
        intro m hm
        simp only [List.mem_append] at hm
        rcases hm with hm | hm
        · exact h m hm
        · exact desc_trans (Desc.step (by simp [pushed, hres, hm]) (Desc.refl _)) hn
      | _ => exact h
    · exact h
  | top t k =>
    simp only [ghostUpd]
    split
    · split <;> exact h
    · exact h
  | after t => exact h
  | solve t => exact h
  | wake t => exact h
  | die t => exact h

theorem gen_desc {root : ν} {top T : Nat} {p : Cfg ν σ × Stats × Ghost ν}
    (h : ReachG root top T p) : ∀ n ∈ p.2.2.gen, Desc n root := by
  induction h with
  | init => intro n hn; simp [Ghost.init] at hn; subst hn; exact Desc.refl _
  | step hr hs ih => exact gen_desc_step (reachG_ainv hr) ih hs

/-! ### corollaries at the end of a run -/

theorem flying_eq_nil {pcs : List (Pc ν)} (h : ∀ pc ∈ pcs, flyOf pc = []) : flying pcs = [] := by
  induction pcs with
  | nil => rfl
  | cons x xs ih =>
    rw [flying_cons, h x (by simp), ih (fun pc hpc => h pc (by simp [hpc]))]
    rfl

/-- when every worker has stopped (normally or by a panic) nothing is in flight: the generated
    subproblems are those solved, those bounded, those whose solver panicked (one per dead worker)
    and those left in the queue -/
theorem account_at_finished {root : ν} {top T : Nat} {c : Cfg ν σ} {st : Stats} {g : Ghost ν}
    (hr : ReachG root top T (c, st, g)) (hd : AllFinished c) :
    List.Perm g.gen (g.solved ++ g.bounded ++ g.failed ++ pendNodes c.pending) ∧
    g.failed.length = c.pcs.countP (fun pc => match pc with | .dead => true | _ => false) := by
  have ha : AInv c g := reachG_ainv hr
  have hf : flying c.pcs = [] := by
    apply flying_eq_nil
    intro pc hm
    obtain ⟨i, hi⟩ := List.mem_iff_getElem?.1 hm
    rcases hd i pc hi with rfl | rfl <;> rfl
  unfold AInv at ha
  rw [hf, List.append_nil] at ha
  refine ⟨ha, ?_⟩
  have h1 : st.panicked = g.failed.length := (ghost_stats hr).panicked
  have h2 : st.panicked = c.pcs.countP isGone := reachS_pinv (reachG_reachS hr)
  rw [← h1, h2]
  apply List.countP_congr
  intro a ha
  obtain ⟨i, hi⟩ := List.mem_iff_getElem?.1 ha
  rcases hd i a hi with rfl | rfl <;> simp [isGone]

/-- **every generated subproblem is either solved exactly once or discarded by bounding exactly
    once**: when all workers have returned normally (`T ≥ 1`), the generated subproblems are, as a
    multiset, exactly the solved ones together with the bounded ones — none twice, none lost, none
    both solved and bounded; nobody panicked; and the counters are the lengths of the lists. -/
theorem account_at_done {root : ν} {top T : Nat} {c : Cfg ν σ} {st : Stats} {g : Ghost ν}
    (hT : 0 < T) (hr : ReachG root top T (c, st, g)) (hd : AllDone c) :
    List.Perm g.gen (g.solved ++ g.bounded) ∧ g.failed = [] ∧
    st.gen = g.gen.length ∧ st.executed = g.solved.length ∧ st.bound = g.bounded.length := by
  have hfin : AllFinished c := fun t pc h => Or.inl (hd t pc h)
  obtain ⟨hperm, hfl⟩ := account_at_finished hr hfin
  have hreach : Reach root top T c := reachG_reach hr
  have hl := reach_linv hT hreach
  have hlen := reach_len hreach
  have h0 : c.pcs[0]? = some Pc.done := by
    have : 0 < c.pcs.length := by omega
    have hx : c.pcs[0]? = some c.pcs[0] := List.getElem?_eq_getElem this
    rw [hx, hd 0 _ hx]
  have hpe := (hl.fin2 0 h0).1
  have hz : g.failed = [] := by
    apply List.eq_nil_of_length_eq_zero
    rw [hfl, List.countP_eq_zero]
    intro a ha
    obtain ⟨i, hi⟩ := List.mem_iff_getElem?.1 ha
    rw [hd i a hi]; simp
  rw [hpe, hz] at hperm
  have hg := ghost_stats hr
  exact ⟨by simpa [pendNodes] using hperm, hz, hg.gen, hg.executed, hg.bound⟩

/-- "none twice", spelled out: if the generated subproblems are pairwise distinct then so are the
    entries of the five lists taken together — in particular no node is solved twice, bounded
    twice, or both -/
theorem account_nodup {root : ν} {top T : Nat} {c : Cfg ν σ} {st : Stats} {g : Ghost ν}
    (hr : ReachG root top T (c, st, g)) (hn : g.gen.Nodup) :
    (g.solved ++ g.bounded ++ g.failed ++ flying c.pcs ++ pendNodes c.pending).Nodup :=
  (reachG_ainv hr).nodup_iff.1 hn

/-- the same with multiplicities: each node occurs among the solved and bounded ones exactly as
    often as it was generated -/
theorem account_count [BEq ν] {root : ν} {top T : Nat} {c : Cfg ν σ} {st : Stats} {g : Ghost ν}
    (hT : 0 < T) (hr : ReachG root top T (c, st, g)) (hd : AllDone c) (n : ν) :
    g.gen.count n = g.solved.count n + g.bounded.count n := by
  rw [(account_at_done hT hr hd).1.count_eq n, List.count_append]

/-! ### a concrete run with one bounded subproblem -/

section Example3
/-- three-node tree: node 0 is infeasible (bound 7) with children 1 and 2; node 1 is feasible with
    score 7; node 2 has no solution (it is never solved: it is bounded) -/
local instance exSolver3 : Solver Nat Unit :=
  ⟨fun n => match n with | 0 => .infeasible 7 | 1 => .feasible () 7 | _ => .noSol,
   fun n => match n with | 0 => [1, 2] | _ => []⟩

/-- the hypotheses of `account_at_done` are satisfiable, with a non-trivial ghost: one worker pops
    the root, applies it (children 1, 2 generated), pops and solves 1 (new incumbent, score 7), pops 2
    and discards it by bounding (7 is not better than 7), finishes -/
example : ∃ (c : Cfg Nat Unit) (st : Stats) (g : Ghost Nat), ReachG 0 10 1 (c, st, g) ∧ AllDone c ∧
    g.gen = [0, 1, 2] ∧ g.solved = [0, 1] ∧ g.bounded = [2] ∧ g.failed = [] ∧
    st.gen = 3 ∧ st.executed = 2 ∧ st.bound = 1 := by
  have r0 : ReachG 0 10 1 ((init 0 10 1 : Cfg Nat Unit), {}, Ghost.init 0) := ReachG.init
  have r1 := ReachG.step (ev := .acquire 0) r0 rfl
  have r2 := ReachG.step (ev := .top 0 0) r1 rfl
  have r3 := ReachG.step (ev := .solve 0) r2 rfl
  have r4 := ReachG.step (ev := .acquire 0) r3 rfl
  have r5 := ReachG.step (ev := .after 0) r4 rfl
  have r6 := ReachG.step (ev := .top 0 0) r5 rfl
  have r7 := ReachG.step (ev := .solve 0) r6 rfl
  have r8 := ReachG.step (ev := .acquire 0) r7 rfl
  have r9 := ReachG.step (ev := .after 0) r8 rfl
  have r10 := ReachG.step (ev := .top 0 0) r9 rfl
  have r11 := ReachG.step (ev := .after 0) r10 rfl
  refine ⟨{ pending := [], busy := 0, best := some (), bestScore := 7, lock := none, pcs := [.done] },
    { executed := 2, noSol := 0, infeasible := 1, feasible := 1, newBest := 1, bound := 1, gen := 3,
      panicked := 0 },
    { gen := [0, 1, 2], solved := [0, 1], bounded := [2], failed := [] },
    r11, ?_, rfl, rfl, rfl, rfl, rfl, rfl, rfl⟩
  intro t pc h
  cases t with
  | zero => simp at h; exact h.symm
  | succ t => simp at h
end Example3

section Example3b
/-- one-node tree whose solver panics -/
local instance exSolver3b : Solver Unit Unit := ⟨fun _ => .panic, fun _ => []⟩

/-- the hypotheses of `account_at_finished` are satisfiable with a dead worker: the root is popped,
    its solver panics, the worker dies; the root ends up in `failed` -/
example : ∃ (c : Cfg Unit Unit) (st : Stats) (g : Ghost Unit), ReachG () 0 1 (c, st, g) ∧
    AllFinished c ∧ g.gen = [()] ∧ g.solved = [] ∧ g.bounded = [] ∧ g.failed = [()] ∧
    st.panicked = 1 := by
  have r0 : ReachG () 0 1 ((init () 0 1 : Cfg Unit Unit), {}, Ghost.init ()) := ReachG.init
  have r1 := ReachG.step (ev := .acquire 0) r0 rfl
  have r2 := ReachG.step (ev := .top 0 0) r1 rfl
  have r3 := ReachG.step (ev := .solve 0) r2 rfl
  have r4 := ReachG.step (ev := .acquire 0) r3 rfl
  have r5 := ReachG.step (ev := .die 0) r4 rfl
  refine ⟨{ pending := [], busy := 0, best := none, bestScore := 0, lock := none, pcs := [.dead] },
    { panicked := 1 }, { gen := [()], failed := [()] }, r5, ?_, rfl, rfl, rfl, rfl, rfl⟩
  intro t pc h
  cases t with
  | zero => simp at h; exact Or.inr h.symm
  | succ t => simp at h
end Example3b

#print axioms reachG_ainv
#print axioms ghost_stats
#print axioms gen_desc
#print axioms reachG_gres
#print axioms account_at_finished
#print axioms account_at_done
#print axioms account_nodup
#print axioms account_count

/-! ## (B) a work bound for whole runs

### what `Budget W` means

`Budget W` (Term.lean) asks for `5 + Σ_{k ∈ pushed n} W k ≤ W n` at **every** `n : ν`.  So `W`
drops by at least 5 along every parent → child edge (`budget_child`): the child relation is
well-founded (`budget_wf`), there is no infinite branch, and since every node has finitely many
children (a list) the tree below every node is finite.  Quantitatively (`budget_subtree`): the tree
below `n`, unfolded to any depth `d` (`subtree d n`, a list with one entry per path from `n`, which
contains every descendant of `n` for `d` large enough — `desc_subtree`), has at most `W n / 5`
entries.  Conversely any size function `1 + Σ_{k ∈ pushed n} size k ≤ size n` gives the budget
`5 * size` (`budget_of_size`); for a concrete finite tree `size` is defined by recursion.
In particular, in every run from `init root …` at most `W root / 5` subproblems are ever generated
(`gen_le_budget`): `Budget W` is the hypothesis "the search tree (below every node, hence below the
root) is finite, with at most `W root / 5` nodes below the root".  Note that `Budget` quantifies over
all of `ν`, not only over the descendants of the root. -/

theorem le_sum_of_mem_nat {l : List Nat} {a : Nat} (h : a ∈ l) : a ≤ l.sum := by
  induction l with
  | nil => simp at h
  | cons x xs ih =>
    simp only [List.mem_cons] at h
    simp only [List.sum_cons]
    rcases h with rfl | h
    · omega
    · have := ih h; omega

theorem budget_child {W : ν → Nat} (hW : Budget W) {n k : ν} (hk : k ∈ pushed n) : W k + 5 ≤ W n := by
  have h1 := hW.node n
  have h2 : W k ≤ ((pushed n).map W).sum := le_sum_of_mem_nat (List.mem_map_of_mem hk)
  omega

theorem budget_desc {W : ν → Nat} (hW : Budget W) {m n : ν} (h : Desc m n) : W m ≤ W n := by
  induction h with
  | refl => exact Nat.le_refl _
  | step hk _ ih => have := budget_child hW hk; omega

/-- with a budget the child relation is well-founded: no infinite branch -/
theorem budget_wf {W : ν → Nat} (hW : Budget W) : WellFounded (fun k n : ν => k ∈ pushed n) := by
  apply Subrelation.wf (r := InvImage (· < ·) W) _ (InvImage.wf W Nat.lt_wfRel.wf)
  intro k n hk
  have := budget_child hW hk
  show W k < W n
  omega

/-- the tree below `n`, unfolded to depth `d` (one entry per path from `n` of length at most `d`) -/
def subtree : Nat → ν → List ν
  | 0, n => [n]
  | d + 1, n => n :: (pushed n).flatMap (subtree d)

theorem sum_map_le_of_le {α : Type} (f W : α → Nat) (l : List α) (h : ∀ a ∈ l, 5 * f a ≤ W a) :
    5 * (l.map f).sum ≤ (l.map W).sum := by
  induction l with
  | nil => simp
  | cons x xs ih =>
    have h1 := h x (by simp)
    have h2 := ih (fun a ha => h a (by simp [ha]))
    simp only [List.map_cons, List.sum_cons]
    omega

/-- the unfolded tree below `n` never has more than `W n / 5` entries, whatever the depth -/
theorem budget_subtree {W : ν → Nat} (hW : Budget W) (d : Nat) (n : ν) :
    5 * (subtree d n).length ≤ W n := by
  induction d generalizing n with
  | zero => have := W_ge W hW n; simpa [subtree] using this
  | succ d ih =>
    have h1 := hW.node n
    have h2 := sum_map_le_of_le (fun k => (subtree d k).length) W (pushed n) (fun k _ => ih k)
    simp only [subtree, List.length_cons, List.length_flatMap]
    omega

theorem subtree_self (d : Nat) (n : ν) : n ∈ subtree d n := by
  cases d <;> simp [subtree]

/-- every descendant shows up in the unfolding -/
theorem desc_subtree {m n : ν} (h : Desc m n) : ∃ d, m ∈ subtree d n := by
  induction h with
  | refl => exact ⟨0, subtree_self 0 _⟩
  | step hk _ ih =>
    obtain ⟨d, hd⟩ := ih
    refine ⟨d + 1, ?_⟩
    simp only [subtree, List.mem_cons, List.mem_flatMap]
    exact Or.inr ⟨_, hk, hd⟩

/-- a finite tree has a budget: any size function gives one -/
theorem budget_of_size (size : ν → Nat) (h : ∀ n : ν, 1 + ((pushed n).map size).sum ≤ size n) :
    Budget (fun n => 5 * size n) := by
  refine ⟨fun n => ?_⟩
  have h1 := h n
  have h2 : ((pushed n).map (fun n => 5 * size n)).sum = 5 * ((pushed n).map size).sum := by
    induction pushed n with
    | nil => rfl
    | cons x xs ih => simp only [List.map_cons, List.sum_cons, ih]; omega
  rw [h2]; omega

/-! ### the budget bounds the number of generated subproblems -/

/-- total budget of a list of nodes -/
def wsum (W : ν → Nat) (l : List ν) : Nat := (l.map W).sum

theorem wsum_perm (W : ν → Nat) {l l' : List ν} (h : List.Perm l l') : wsum W l = wsum W l' :=
  (h.map W).sum_nat

theorem wsum_cons (W : ν → Nat) (a : ν) (l : List ν) : wsum W (a :: l) = W a + wsum W l := by
  simp [wsum]

theorem wsum_append (W : ν → Nat) (l l' : List ν) : wsum W (l ++ l') = wsum W l + wsum W l' := by
  simp [wsum]

theorem wsum_ge {W : ν → Nat} (hW : Budget W) (l : List ν) : 5 * l.length ≤ wsum W l := by
  induction l with
  | nil => simp [wsum]
  | cons x xs ih => have := W_ge W hW x; rw [wsum_cons, List.length_cons]; omega

/-- the budget not yet spent: 5 for every subproblem dealt with, the full budget for those in
    flight or in the queue -/
def spent (W : ν → Nat) (c : Cfg ν σ) (g : Ghost ν) : Nat :=
  5 * (g.solved.length + g.bounded.length + g.failed.length) +
    wsum W (flying c.pcs) + wsum W (pendNodes c.pending)

/-- `spent` never increases -/
theorem spent_step (W : ν → Nat) (hW : Budget W) {c c' : Cfg ν σ} {g : Ghost ν} {ev : Ev}
    (hs : step? c ev = some c') : spent W c' (ghostUpd c g ev) ≤ spent W c g := by
  have neutral : ∀ {pcs' : List (Pc ν)}, List.Perm (flying pcs') (flying c.pcs) →
      5 * (g.solved.length + g.bounded.length + g.failed.length) +
        wsum W (flying pcs') + wsum W (pendNodes c.pending) ≤ spent W c g := by
    intro pcs' hp
    rw [wsum_perm W hp]; exact Nat.le_refl _
  cases ev with
  | wake t =>
    simp only [step?] at hs
    split at hs
    · rename_i hp
      cases hs
      exact neutral (flying_set_same c.pcs t _ _ hp rfl)
    · cases hs
  | solve t =>
    simp only [step?] at hs
    split at hs
    · rename_i n hp
      cases hs
      exact neutral (flying_set_same c.pcs t _ _ hp rfl)
    · cases hs
  | die t =>
    simp only [step?] at hs
    split at hs
    · rename_i hp
      cases hs
      have h1 : (wakeAll c.pcs)[t]? = some Pc.dying := wakeAll_getElem?_of hp (by simp)
      have := flying_set_same (wakeAll c.pcs) t _ Pc.dead h1 rfl
      rw [flying_wakeAll] at this
      exact neutral this
    · cases hs
  | after t =>
    simp only [step?] at hs
    split at hs
    · rename_i hp
      split at hs
      · cases hs
        have h1 : (wakeAll c.pcs)[t]? = some Pc.afterPop := wakeAll_getElem?_of hp (by simp)
        have := flying_set_same (wakeAll c.pcs) t _ Pc.done h1 rfl
        rw [flying_wakeAll] at this
        exact neutral this
      · cases hs
        exact neutral (flying_set_same c.pcs t _ _ hp rfl)
    · cases hs
  | top t k =>
    simp only [step?] at hs
    split at hs
    · rename_i hp
      split at hs
      · rename_i n ps hk
        have hP := wsum_perm W (pendNodes_erase c.pending k n ps hk)
        rw [wsum_cons] at hP
        have hwn := W_ge W hW n
        split at hs
        · rename_i hgt
          cases hs
          have hY : List.Perm (flying (c.pcs.set t (Pc.solving n))) (n :: flying c.pcs) := by
            simpa [flyOf] using flying_set c.pcs t _ (Pc.solving n) hp
          have hY' := wsum_perm W hY
          rw [wsum_cons] at hY'
          simp only [ghostUpd, hp, hk]
          simp only [hgt, if_true]
          simp only [spent, setPc, hY']
          omega
        · rename_i hgt
          cases hs
          have hY' := wsum_perm W (flying_set_same c.pcs t _ Pc.afterPop hp rfl)
          simp only [ghostUpd, hp, hk]
          simp only [hgt, if_false]
          simp only [spent, setPc, hY', List.length_append, List.length_singleton]
          omega
      · rename_i hk
        have hk' : c.pending[k]? = none := hk
        split at hs
        · split at hs
          · cases hs
            simp only [ghostUpd, hp, hk']
            exact neutral (flying_set_same c.pcs t _ _ hp rfl)
          · cases hs
            simp only [ghostUpd, hp, hk']
            exact neutral (flying_set_same c.pcs t _ _ hp rfl)
        · cases hs
    · cases hs
  | acquire t =>
    simp only [step?] at hs
    split at hs
    · rename_i hl' hp
      cases hs
      simp only [ghostUpd, hl', hp]
      exact neutral (flying_set_same c.pcs t _ _ hp rfl)
    · rename_i n hl' hp
      have hwn := hW.node n
      by_cases hpn : isPanic (Solver.res n) = true
      · simp only [hpn, if_true] at hs
        cases hs
        cases hres : Solver.res n <;> simp [hres, isPanic] at hpn
        have hY : List.Perm (flying c.pcs) (n :: flying (c.pcs.set t Pc.dying)) := by
          simpa [flyOf] using (flying_set c.pcs t _ Pc.dying hp).symm
        have hY' := wsum_perm W hY
        rw [wsum_cons] at hY'
        simp only [ghostUpd, hl', hp, hres, setPc, spent, hY', List.length_append,
          List.length_singleton]
        omega
      · have hpn' : isPanic (Solver.res n) = false := by simpa using hpn
        simp only [hpn', Bool.false_eq_true, if_false] at hs
        cases hs
        have hY : List.Perm (flying c.pcs) (n :: flying (c.pcs.set t Pc.afterPop)) := by
          simpa [flyOf] using (flying_set c.pcs t _ Pc.afterPop hp).symm
        have hY' := wsum_perm W hY
        rw [wsum_cons] at hY'
        cases hres : Solver.res n with
        | panic => simp [hres, isPanic] at hpn'
        | noSol =>
          simp only [ghostUpd, hl', hp, hres, setPc, applyRes, spent, hY', List.length_append,
            List.length_singleton]
          omega
        | feasible sol sc =>
          have hpe : (applyRes c n).pending = c.pending := by
            simp only [applyRes, hres]; split <;> rfl
          simp only [ghostUpd, hl', hp, hres, setPc, applyRes_pcs, hpe, spent, hY',
            List.length_append, List.length_singleton]
          omega
        | infeasible sc =>
          have hk : wsum W (Solver.kids n) = ((pushed n).map W).sum := by simp [wsum, pushed, hres]
          simp only [ghostUpd, hl', hp, hres, setPc, applyRes, pendNodes_kids, spent, hY',
            List.length_append, List.length_singleton, wsum_append, hk]
          omega
    · cases hs

/-- **the budget bounds the number of generated subproblems**: in every reachable state
    `5 * (number of subproblems generated so far) ≤ W root` -/
theorem gen_le_budget (W : ν → Nat) (hW : Budget W) {root : ν} {top T : Nat}
    {p : Cfg ν σ × Stats × Ghost ν} (h : ReachG root top T p) :
    5 * p.2.2.gen.length ≤ W root ∧ 5 * p.2.1.gen ≤ W root := by
  have hsp : spent W p.1 p.2.2 ≤ W root := by
    induction h with
    | init =>
      have hf : ∀ T : Nat, flying (List.replicate T (Pc.want none : Pc ν)) = [] := by
        intro T
        induction T with
        | zero => rfl
        | succ T ih => rw [List.replicate_succ, flying_cons, ih]; rfl
      simp [spent, init, Ghost.init, hf, pendNodes, wsum]
    | step _ hs ih => exact Nat.le_trans (spent_step W hW hs) ih
  have hlen := (reachG_ainv h).length_eq
  have h1 := wsum_ge hW (flying p.1.pcs)
  have h2 := wsum_ge hW (pendNodes p.1.pending)
  have h3 := (ghost_stats h).gen
  simp only [List.length_append] at hlen
  unfold spent at hsp
  constructor <;> omega

/-! ### runs with an explicit event list -/

/-- `Run c evs c'`: the events `evs`, in this order, drive `c` to `c'` -/
inductive Run : Cfg ν σ → List Ev → Cfg ν σ → Prop where
  | nil (c : Cfg ν σ) : Run c [] c
  | cons {c c' c'' : Cfg ν σ} {ev : Ev} {evs : List Ev} :
      step? c ev = some c' → Run c' evs c'' → Run c (ev :: evs) c''

theorem Run.snoc {c c' c'' : Cfg ν σ} {evs : List Ev} {ev : Ev} (h : Run c evs c')
    (hs : step? c' ev = some c'') : Run c (evs ++ [ev]) c'' := by
  induction h with
  | nil c => exact Run.cons hs (Run.nil _)
  | cons h1 _ ih => exact Run.cons h1 (ih hs)

/-- `Run` is `Steps` (Final.lean) with the events made explicit -/
theorem steps_iff_run {c c' : Cfg ν σ} : Steps c c' ↔ ∃ evs, Run c evs c' := by
  constructor
  · intro h
    induction h with
    | refl => exact ⟨[], Run.nil _⟩
    | step _ hs ih =>
      obtain ⟨evs, hr⟩ := ih
      exact ⟨_, hr.snoc hs⟩
  · rintro ⟨evs, h⟩
    induction h with
    | nil c => exact Steps.refl _
    | cons h1 _ ih =>
      -- prepend one step to a `Steps` chain
      have pre : ∀ {a b d : Cfg ν σ} {ev : Ev}, step? a ev = some b → Steps b d → Steps a d := by
        intro a b d ev hab hbd
        induction hbd with
        | refl => exact Steps.step (Steps.refl _) hab
        | step _ hs ih => exact Steps.step ih hs
      exact pre h1 ih

theorem reach_iff_run {root : ν} {top T : Nat} {c : Cfg ν σ} :
    Reach root top T c ↔ ∃ evs, Run (init root top T) evs c := by
  rw [reach_iff_steps, steps_iff_run]

theorem run_len {c c' : Cfg ν σ} {evs : List Ev} (h : Run c evs c') : c'.pcs.length = c.pcs.length := by
  induction h with
  | nil => rfl
  | cons hs _ ih => rw [ih, step_len hs]

/-- number of events of the run that are not wake-ups: the steps taken by the program itself -/
def work (evs : List Ev) : Nat := evs.countP (fun e => !e.isWake)
/-- number of `wake` events of the run (`notify_one` or spurious wake-ups) -/
def wakeEvents (evs : List Ev) : Nat := evs.countP Ev.isWake

theorem work_add_wakeEvents (evs : List Ev) : work evs + wakeEvents evs = evs.length := by
  induction evs with
  | nil => rfl
  | cons e es ih =>
    simp only [work, wakeEvents, List.countP_cons, List.length_cons] at ih ⊢
    cases e.isWake <;> simp <;> omega

/-- the sum of `wakes` over the run from `c` along `evs` -/
def wakesRun (c : Cfg ν σ) : List Ev → Nat
  | [] => 0
  | ev :: evs => wakes c ev + (match step? c ev with | some c' => wakesRun c' evs | none => 0)

/-- the one-step potential lemma `psi_step` summed over a run -/
theorem psi_run (W : ν → Nat) (hW : Budget W) {c c' : Cfg ν σ} {evs : List Ev} (h : Run c evs c') :
    work evs + Psi W c' ≤ Psi W c + 3 * wakesRun c evs := by
  induction h with
  | nil c => simp [work, wakesRun]
  | @cons c c1 c2 ev evs hs _ ih =>
    have h1 := psi_step W hW hs
    simp only [work, List.countP_cons, wakesRun, hs] at ih ⊢
    cases hw : ev.isWake <;> simp [hw] at h1 ⊢ <;> omega

/-! ### the wake-ups the code causes itself -/

/-- the worker has stopped, normally or by a panic -/
def isStopped : Pc ν → Bool
  | .done => true
  | .dead => true
  | _ => false

def stopped (c : Cfg ν σ) : Nat := c.pcs.countP isStopped

theorem countP_stopped_wakeAll (pcs : List (Pc ν)) :
    (wakeAll pcs).countP isStopped = pcs.countP isStopped := by
  simp only [wakeAll, List.countP_map]
  congr 1
  funext pc
  cases pc <;> simp [isStopped]

omit [Solver ν σ] in
theorem stopped_le (c : Cfg ν σ) : stopped c ≤ c.pcs.length := List.countP_le_length

/-- stopped workers stay stopped, so their number never decreases -/
theorem stopped_mono {c c' : Cfg ν σ} {ev : Ev} (hs : step? c ev = some c') : stopped c ≤ stopped c' := by
  obtain ⟨u, old, new, hu, h1, h2, hsh⟩ := step_shape hs
  have ho : isStopped old = false := by cases old <;> simp_all [isStopped]
  unfold stopped
  rcases hsh with e | e
  · have := countP_set_of_getElem? isStopped c.pcs u old new hu
    rw [e]; simp only [ho] at this; simp at this; omega
  · have hu' : ∃ old', (wakeAll c.pcs)[u]? = some old' ∧ isStopped old' = false := by
      by_cases hw : old = Pc.waiting
      · subst hw
        exact ⟨Pc.want none, by rw [wakeAll_getElem?, hu]; rfl, rfl⟩
      · exact ⟨old, wakeAll_getElem?_of hu hw, ho⟩
    obtain ⟨old', hu', ho'⟩ := hu'
    have := countP_set_of_getElem? isStopped (wakeAll c.pcs) u old' new hu'
    rw [e]; simp only [ho', countP_stopped_wakeAll] at this; simp at this; omega

/-- **every event that wakes sleepers by `notify_all` stops its own thread for good**: an `after` or
    `die` event with `wakes > 0` turns its thread into `done` / `dead`, and it wakes fewer than
    `T` sleepers; a `wake` event wakes one.  As an inequality between potentials: -/
theorem notify_step {c c' : Cfg ν σ} {ev : Ev} (hs : step? c ev = some c') :
    wakes c ev + c.pcs.length * stopped c ≤
      (if ev.isWake then 1 else 0) + c.pcs.length * stopped c' := by
  have hmono := Nat.mul_le_mul_left c.pcs.length (stopped_mono hs)
  cases ev with
  | wake t => simp only [wakes, Ev.isWake, if_true]; omega
  | acquire t => simp only [wakes]; omega
  | top t k => simp only [wakes]; omega
  | solve t => simp only [wakes]; omega
  | after t =>
    simp only [step?] at hs
    split at hs
    · rename_i hp
      split at hs
      · rename_i hfin
        cases hs
        have h1 : (wakeAll c.pcs)[t]? = some Pc.afterPop := wakeAll_getElem?_of hp (by simp)
        have hc := countP_set_of_getElem? isStopped (wakeAll c.pcs) t _ Pc.done h1
        rw [countP_stopped_wakeAll] at hc
        simp [isStopped] at hc
        have hw := countWaiting_lt c.pcs t _ hp rfl
        simp only [wakes, hp, hfin, stopped, hc, Ev.isWake, Nat.mul_add]
        simp; omega
      · rename_i hnf
        simp only [wakes, hp, hnf, if_false]; omega
    · cases hs
  | die t =>
    simp only [step?] at hs
    split at hs
    · rename_i hp
      cases hs
      have h1 : (wakeAll c.pcs)[t]? = some Pc.dying := wakeAll_getElem?_of hp (by simp)
      have hc := countP_set_of_getElem? isStopped (wakeAll c.pcs) t _ Pc.dead h1
      rw [countP_stopped_wakeAll] at hc
      simp [isStopped] at hc
      have hw := countWaiting_lt c.pcs t _ hp rfl
      simp only [wakes, hp, stopped, hc, Ev.isWake, Nat.mul_add]
      simp; omega
    · cases hs

/-- summed over a run with `T` threads: the sleepers woken are at most one per `wake` event plus
    `T` per thread that stops during the run -/
theorem notify_run {T : Nat} {c c' : Cfg ν σ} {evs : List Ev} (h : Run c evs c')
    (hT : c.pcs.length = T) :
    wakesRun c evs + T * stopped c ≤ wakeEvents evs + T * stopped c' := by
  induction h with
  | nil c => simp [wakesRun, wakeEvents]
  | @cons c c1 c2 ev evs hs _ ih =>
    have h1 := notify_step hs
    have h2 := ih (by rw [step_len hs, hT])
    rw [hT] at h1
    simp only [wakeEvents, List.countP_cons, wakesRun, hs] at h2 ⊢
    cases hw : ev.isWake <;> simp [hw] at h1 ⊢ <;> omega

/-- in a run with `T` threads the wake-ups are at most `T * T` (caused by `notify_all`: at most `T`
    threads stop, each wakes fewer than `T` sleepers) plus the number of `wake` events -/
theorem wakesRun_le {T : Nat} {c c' : Cfg ν σ} {evs : List Ev} (h : Run c evs c')
    (hT : c.pcs.length = T) : wakesRun c evs ≤ T * T + wakeEvents evs := by
  have h1 := notify_run h hT
  have h2 : stopped c' ≤ T := by rw [← hT, ← run_len h]; exact stopped_le c'
  have h3 := Nat.mul_le_mul_left T h2
  omega

/-- **work bound for a run**: the number of non-wake events of a run of `T` threads from `c` is at
    most the potential of `c` plus 3 per sleeper woken, and those are at most `T * T` plus the
    number of `wake` events. -/
theorem run_bound (W : ν → Nat) (hW : Budget W) {T : Nat} {c c' : Cfg ν σ} {evs : List Ev}
    (h : Run c evs c') (hT : c.pcs.length = T) :
    work evs + Psi W c' ≤ Psi W c + 3 * (T * T + wakeEvents evs) := by
  have h1 := psi_run W hW h
  have h2 := wakesRun_le h hT
  omega

theorem sumPcs_replicate (L : Nat) (W : ν → Nat) (T : Nat) :
    sumPcs L W (List.replicate T (Pc.want none)) = 3 * T := by
  induction T with
  | zero => rfl
  | succ T ih =>
    simp only [sumPcs, List.replicate_succ, List.map_cons, List.sum_cons] at ih ⊢
    rw [ih]; simp [phiPc]; omega

omit [Solver ν σ] in
/-- the potential at the start: the budget of the root plus 3 per thread -/
theorem psi_init (W : ν → Nat) (root : ν) (top T : Nat) :
    Psi W (init root top T : Cfg ν σ) = W root + 3 * T := by
  simp [Psi, init, sumPend, sumPcs_replicate]

/-- **work bound from the start**: a run of `T` threads from the initial configuration with budget
    `W` and at most `s` `wake` events (`notify_one` or spurious) has at most
    `W root + 3 * T + 3 * (T * T + s)` non-wake events. -/
theorem run_bound_init (W : ν → Nat) (hW : Budget W) {root : ν} {top T s : Nat} {c : Cfg ν σ}
    {evs : List Ev} (h : Run (init root top T) evs c) (hs : wakeEvents evs ≤ s) :
    work evs ≤ W root + 3 * T + 3 * (T * T + s) := by
  have h1 := run_bound W hW h (T := T) (by simp [init])
  rw [psi_init] at h1
  omega

/-- the same for the whole length of the run -/
theorem run_length_init (W : ν → Nat) (hW : Budget W) {root : ν} {top T s : Nat} {c : Cfg ν σ}
    {evs : List Ev} (h : Run (init root top T) evs c) (hs : wakeEvents evs ≤ s) :
    evs.length ≤ W root + 3 * T + 3 * (T * T + s) + s := by
  have h1 := run_bound_init W hW h hs
  have h2 := work_add_wakeEvents evs
  omega

section Example4
/-- the three-node tree of the example above -/
local instance exSolver4 : Solver Nat Unit :=
  ⟨fun n => match n with | 0 => .infeasible 7 | 1 => .feasible () 7 | _ => .noSol,
   fun n => match n with | 0 => [1, 2] | _ => []⟩

/-- it has a budget: 15 for the root, 5 for every other node -/
example : Budget (ν := Nat) (fun n => if n = 0 then 15 else 5) := by
  refine ⟨fun n => ?_⟩
  match n with
  | 0 => simp [pushed, Solver.res, Solver.kids]
  | 1 => simp [pushed, Solver.res]
  | n + 2 => simp [pushed, Solver.res]

/-- the hypotheses of `run_bound_init` are satisfiable: the run of the example above, as an event
    list (11 events, none of them a wake-up; the bound is 15 + 3 + 3 = 21) -/
example : ∃ c : Cfg Nat Unit, Run (init 0 10 1)
    [.acquire 0, .top 0 0, .solve 0, .acquire 0, .after 0, .top 0 0, .solve 0, .acquire 0, .after 0,
     .top 0 0, .after 0] c ∧ AllDone c := by
  refine ⟨{ pending := [], busy := 0, best := some (), bestScore := 7, lock := none, pcs := [.done] },
    ?_, ?_⟩
  · iterate 11 refine Run.cons rfl ?_
    exact Run.nil _
  · intro t pc h
    cases t with
    | zero => simp at h; exact h.symm
    | succ t => simp at h
end Example4

#print axioms budget_subtree
#print axioms gen_le_budget
#print axioms budget_wf
#print axioms psi_run
#print axioms notify_step
#print axioms notify_run
#print axioms run_bound
#print axioms run_bound_init
#print axioms run_length_init

end Eng3
