import Cdecao.Engine.Core
/-! Spike: termination potential for the engine transition system (C04 `bounded_work`). -/
namespace Eng3
variable {ν σ : Type} [Solver ν σ]

/-- a budget function on subproblems: every node pays 5 for itself plus the budgets of its pushed
    children. Exists whenever the tree below the root is finite (for a concrete finite tree it is
    defined by recursion); for caobab it follows from the depth measure. -/
structure Budget (W : ν → Nat) : Prop where
  node : ∀ n : ν, 5 + ((pushed n).map W).sum ≤ W n

def phiPc (L : Nat) (W : ν → Nat) : Pc ν → Nat
  | .want none => 3
  | .want (some n) => W n
  | .holding => 2
  | .afterPop => 3
  | .solving n => W n + 1
  | .waiting => 0
  | .done => 0
  | .dying => 1
  | .dead => 0

def sumPcs (L : Nat) (W : ν → Nat) (pcs : List (Pc ν)) : Nat := (pcs.map (phiPc L W)).sum
def sumPend (W : ν → Nat) (l : List (ν × Nat)) : Nat := (l.map (fun p => W p.1)).sum

/-- potential without the wake-up budget -/
def Psi (W : ν → Nat) (c : Cfg ν σ) : Nat := sumPend W c.pending + sumPcs c.pcs.length W c.pcs

theorem sum_set_phi (L : Nat) (W : ν → Nat) (pcs : List (Pc ν)) (t : Nat) (old new : Pc ν) (h : pcs[t]? = some old) :
    sumPcs L W (pcs.set t new) + phiPc L W old = sumPcs L W pcs + phiPc L W new := by
  induction pcs generalizing t with
  | nil => simp at h
  | cons x xs ih =>
    cases t with
    | zero =>
      simp at h; subst h
      simp [sumPcs]; omega
    | succ t =>
      simp at h
      have := ih t h
      simp only [sumPcs, List.set_cons_succ, List.map_cons, List.sum_cons] at this ⊢
      omega

def isWaiting : Pc ν → Bool
  | .waiting => true
  | _ => false

theorem sum_wakeAll (L : Nat) (W : ν → Nat) (pcs : List (Pc ν)) :
    sumPcs L W (wakeAll pcs) = sumPcs L W pcs + 3 * pcs.countP isWaiting := by
  induction pcs with
  | nil => simp [sumPcs, wakeAll]
  | cons x xs ih =>
    have hx : wakeAll (x :: xs) = (match x with | .waiting => Pc.want none | pc => pc) :: wakeAll xs := rfl
    rw [hx]
    simp only [sumPcs, List.map_cons, List.sum_cons, List.countP_cons] at ih ⊢
    cases x <;> simp [phiPc, isWaiting] <;> omega

theorem countWaiting_lt (pcs : List (Pc ν)) (t : Nat) (pc : Pc ν) (h : pcs[t]? = some pc) (hw : isWaiting pc = false) :
    pcs.countP isWaiting + 1 ≤ pcs.length := by
  induction pcs generalizing t with
  | nil => simp at h
  | cons x xs ih =>
    cases t with
    | zero =>
      simp at h; subst h
      simp only [List.countP_cons, hw, List.length_cons]
      have := List.countP_le_length (p := isWaiting) (l := xs)
      simp; omega
    | succ t =>
      simp at h
      have := ih t h
      simp only [List.countP_cons, List.length_cons]
      split <;> omega

theorem sumPend_erase (W : ν → Nat) (l : List (ν × Nat)) (k : Nat) (n : ν) (ps : Nat) (h : l[k]? = some (n, ps)) :
    sumPend W (l.eraseIdx k) + W n = sumPend W l := by
  induction l generalizing k with
  | nil => simp at h
  | cons x xs ih =>
    cases k with
    | zero => simp at h; subst h; simp [sumPend]; omega
    | succ k =>
      simp at h
      have := ih k h
      simp only [sumPend, List.eraseIdx_cons_succ, List.map_cons, List.sum_cons] at this ⊢
      omega

theorem sumPend_kids (W : ν → Nat) (kids : List ν) (sc : Nat) (l : List (ν × Nat)) :
    sumPend W (kids.map (fun k => (k, sc)) ++ l) = (kids.map W).sum + sumPend W l := by
  simp [sumPend, List.map_append, List.sum_append, Function.comp_def]


/-- number of sleeping threads an event wakes (a `wake` event: one; a `notify_all`: all sleepers) -/
def wakes (c : Cfg ν σ) : Ev → Nat
  | .wake _ => 1
  | .after t =>
    match c.pcs[t]? with
    | some .afterPop => if c.pending = [] ∧ c.busy = 0 then c.pcs.countP isWaiting else 0
    | _ => 0
  | .die t =>
    match c.pcs[t]? with
    | some .dying => c.pcs.countP isWaiting
    | _ => 0
  | _ => 0

theorem W_ge (W : ν → Nat) (hW : Budget W) (n : ν) : 5 ≤ W n := by
  have := hW.node n; omega

/-- C04 `bounded_work`, one step: every event other than a wake-up lowers the potential by at least 1,
    up to 3 per thread it wakes. Hence: (#events) ≤ Psi(init) + 3·(#threads woken) + (#wake events). -/
theorem psi_step (W : ν → Nat) (hW : Budget W) {c c' : Cfg ν σ} {ev : Ev} (hs : step? c ev = some c') :
    Psi W c' + (if ev.isWake then 0 else 1) ≤ Psi W c + 3 * wakes c ev := by
  have hlen := step_len hs
  unfold Psi
  rw [hlen]
  cases ev with
  | wake t =>
    simp only [step?] at hs
    split at hs
    · rename_i hp
      cases hs
      have := sum_set_phi c.pcs.length W c.pcs t _ (Pc.want none) hp
      simp only [phiPc] at this
      simp only [setPc, wakes, Ev.isWake]
      simp; omega
    · cases hs
  | solve t =>
    simp only [step?] at hs
    split at hs
    · rename_i n hp
      cases hs
      have := sum_set_phi c.pcs.length W c.pcs t _ (Pc.want (some n)) hp
      simp only [phiPc] at this
      simp only [setPc, wakes, Ev.isWake]
      simp; omega
    · cases hs
  | die t =>
    simp only [step?] at hs
    split at hs
    · rename_i hp
      cases hs
      have h1 : (wakeAll c.pcs)[t]? = some Pc.dying := by rw [wakeAll_getElem?, hp]; rfl
      have := sum_set_phi c.pcs.length W (wakeAll c.pcs) t _ Pc.dead h1
      have hw := sum_wakeAll c.pcs.length W c.pcs
      simp only [phiPc] at this
      simp only [wakes, hp, Ev.isWake]
      simp; omega
    · cases hs
  | after t =>
    simp only [step?] at hs
    split at hs
    · rename_i hp
      split at hs
      · rename_i hfin
        cases hs
        have h1 : (wakeAll c.pcs)[t]? = some Pc.afterPop := by rw [wakeAll_getElem?, hp]; rfl
        have := sum_set_phi c.pcs.length W (wakeAll c.pcs) t _ Pc.done h1
        have hw := sum_wakeAll c.pcs.length W c.pcs
        simp only [phiPc] at this
        simp only [wakes, hp, hfin, Ev.isWake]
        simp; omega
      · rename_i hnf
        cases hs
        have := sum_set_phi c.pcs.length W c.pcs t _ Pc.holding hp
        simp only [phiPc] at this
        simp only [setPc, wakes, Ev.isWake]
        simp; omega
    · cases hs
  | top t k =>
    simp only [step?] at hs
    split at hs
    · rename_i hp
      split at hs
      · rename_i n ps hk
        have he := sumPend_erase W c.pending k n ps hk
        have hwn := W_ge W hW n
        split at hs
        · cases hs
          have := sum_set_phi c.pcs.length W c.pcs t _ (Pc.solving n) hp
          simp only [phiPc] at this
          simp only [setPc, wakes, Ev.isWake]
          simp; omega
        · cases hs
          have := sum_set_phi c.pcs.length W c.pcs t _ Pc.afterPop hp
          simp only [phiPc] at this
          simp only [setPc, wakes, Ev.isWake]
          simp; omega
      · split at hs
        · split at hs
          · cases hs
            have := sum_set_phi c.pcs.length W c.pcs t _ Pc.waiting hp
            simp only [phiPc] at this
            simp only [setPc, wakes, Ev.isWake]
            simp; omega
          · cases hs
            have := sum_set_phi c.pcs.length W c.pcs t _ Pc.done hp
            simp only [phiPc] at this
            simp only [setPc, wakes, Ev.isWake]
            simp; omega
        · cases hs
    · cases hs
  | acquire t =>
    simp only [step?] at hs
    split at hs
    · rename_i hl hp
      cases hs
      have := sum_set_phi c.pcs.length W c.pcs t _ Pc.holding hp
      simp only [phiPc] at this
      simp only [setPc, wakes, Ev.isWake]
      simp; omega
    · rename_i n hl hp
      have hwn := hW.node n
      by_cases hpn : isPanic (Solver.res n) = true
      · simp only [hpn, if_true] at hs
        cases hs
        have := sum_set_phi c.pcs.length W c.pcs t _ Pc.dying hp
        simp only [phiPc] at this
        simp only [setPc, wakes, Ev.isWake]
        simp; omega
      · have hpn' : isPanic (Solver.res n) = false := by simpa using hpn
        simp only [hpn', Bool.false_eq_true, if_false] at hs
        cases hs
        have hpcs : (applyRes c n).pcs = c.pcs := by
          unfold applyRes; cases Solver.res n <;> simp <;> split <;> simp
        have := sum_set_phi c.pcs.length W c.pcs t _ Pc.afterPop hp
        simp only [phiPc] at this
        have hpend : sumPend W (applyRes c n).pending = ((pushed n).map W).sum + sumPend W c.pending := by
          unfold applyRes pushed
          cases hres : Solver.res n with
          | panic => simp [hres, isPanic] at hpn'
          | noSol => simp
          | feasible sol sc => simp only; split <;> simp
          | infeasible sc => simp only; rw [sumPend_kids]
        simp only [setPc, wakes, Ev.isWake, hpcs, hpend]
        simp; omega
    · cases hs

#print axioms psi_step
end Eng3
