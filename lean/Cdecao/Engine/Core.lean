/-! Prototype: micro-step transition system for bab.rs worker loop (no panic, no stats) -/
namespace Eng3

inductive Res (σ : Type) where
  | noSol
  | infeasible (score : Nat)
  | feasible (sol : σ) (score : Nat)
  | panic                                  -- the node solver panicked (C19)

def isPanic {σ : Type} : Res σ → Bool
  | .panic => true
  | _ => false

/-- what the engine needs to know about a subproblem: the verdict of the node solver on it and the
    children it returns (bab.rs `NodeResult`). Any terminating or non-terminating solver fits. -/
class Solver (ν : Type) (σ : outParam Type) where
  res : ν → Res σ
  kids : ν → List ν

variable {ν σ : Type} [Solver ν σ]

/-- the children the engine pushes when it processes the node -/
def pushed (t : ν) : List ν :=
  match Solver.res t with
  | .infeasible _ => Solver.kids t
  | _ => []

inductive Pc (ν : Type) where
  | want (r : Option (ν))   -- blocked in lock(); `some n`: has the result of n in hand
  | holding                       -- holds the lock, at loop top
  | afterPop                      -- holds the lock, at the "are we finished?" check
  | solving (n : ν)          -- outside the lock, running node_solver
  | waiting                       -- blocked in condvar.wait
  | done
  | dying                         -- solver panicked; busy already decremented, about to notify_all
  | dead                          -- thread ended by the panic

structure Cfg (ν σ : Type) where
  pending : List (ν × Nat)
  busy : Nat
  best : Option σ
  bestScore : Nat
  lock : Option Nat
  pcs : List (Pc ν)

inductive Ev where
  | acquire (t : Nat)
  | top (t : Nat) (k : Nat)
  | after (t : Nat)
  | solve (t : Nat)
  | wake (t : Nat)
  | die (t : Nat)

def setPc (c : Cfg ν σ) (t : Nat) (pc : Pc ν) : Cfg ν σ := { c with pcs := c.pcs.set t pc }

def wakeAll (pcs : List (Pc ν)) : List (Pc ν) :=
  pcs.map fun pc => match pc with | .waiting => .want none | pc => pc

/-- apply a node result under the lock (bab.rs:228-270) -/
def applyRes (c : Cfg ν σ) (n : ν) : Cfg ν σ :=
  let c := { c with busy := c.busy - 1 }
  match Solver.res n with
  | .noSol => c
  | .feasible sol sc =>
    if c.best = none ∨ sc > c.bestScore then { c with best := some sol, bestScore := sc } else c
  | .infeasible sc => { c with pending := (Solver.kids n).map (fun k => (k, sc)) ++ c.pending }
  | .panic => c

def step? (c : Cfg ν σ) : Ev → Option (Cfg ν σ)
  | .acquire t =>
    match c.lock, c.pcs[t]? with
    | none, some (.want none) => some { (setPc c t .holding) with lock := some t }
    | none, some (.want (some n)) =>
      if isPanic (Solver.res n) then
        -- bab.rs (after the C19 fix): lock, busy_threads -= 1, unlock — the notify_all follows
        some (setPc { c with busy := c.busy - 1 } t .dying)
      else some { (setPc (applyRes c n) t .afterPop) with lock := some t }
    | _, _ => none
  | .top t k =>
    match c.pcs[t]? with
    | some .holding =>
      match c.pending[k]? with
      | some (n, ps) =>
        let c := { c with pending := c.pending.eraseIdx k }
        if c.best = none ∨ ps > c.bestScore then
          some { (setPc c t (.solving n)) with busy := c.busy + 1, lock := none }
        else some (setPc c t .afterPop)
      | none =>
        if c.pending = [] then
          if c.busy > 0 then some { (setPc c t .waiting) with lock := none }
          else some { (setPc c t .done) with lock := none }
        else none
    | _ => none
  | .after t =>
    match c.pcs[t]? with
    | some .afterPop =>
      if c.pending = [] ∧ c.busy = 0 then
        some { c with pcs := (wakeAll c.pcs).set t .done, lock := none }
      else some (setPc c t .holding)
    | _ => none
  | .solve t =>
    match c.pcs[t]? with
    | some (.solving n) => some (setPc c t (.want (some n)))
    | _ => none
  | .wake t =>
    match c.pcs[t]? with
    | some .waiting => some (setPc c t (.want none))
    | _ => none
  | .die t =>
    match c.pcs[t]? with
    | some .dying => some { c with pcs := (wakeAll c.pcs).set t .dead }
    | _ => none

def init (root : ν) (top : Nat) (T : Nat) : Cfg ν σ :=
  { pending := [(root, top)], busy := 0, best := none, bestScore := 0, lock := none,
    pcs := List.replicate T (.want none) }

inductive Reach (root : ν) (top T : Nat) : Cfg ν σ → Prop where
  | init : Reach root top T (init root top T)
  | step : Reach root top T c → step? c ev = some c' → Reach root top T c'

/-! ### descendant relation and specification -/
inductive Desc : ν → ν → Prop where
  | refl (t : ν) : Desc t t
  | step {f k t : ν} : k ∈ pushed t → Desc f k → Desc f t

def IsFeas (f : ν) (sc : Nat) : Prop := ∃ sol, Solver.res f = .feasible sol sc

/-- bound property: the score of an inner node bounds all feasible scores below it -/
def Bounded (root : ν) : Prop :=
  ∀ n, Desc n root → ∀ s, Solver.res n = .infeasible s → ∀ k ∈ Solver.kids n, ∀ f sc, Desc f k → IsFeas f sc → sc ≤ s

/-- nodes currently "in flight" (popped, result not yet applied) -/
def inFlight (c : Cfg ν σ) (n : ν) : Prop :=
  ∃ t : Nat, c.pcs[t]? = some (Pc.solving n) ∨ c.pcs[t]? = some (Pc.want (some n))

structure Inv (root : ν) (top : Nat) (c : Cfg ν σ) : Prop where
  /-- pending entries are in the tree and their stored score bounds everything feasible below -/
  pend : ∀ n ps, (n, ps) ∈ c.pending → Desc n root ∧ ∀ f sc, Desc f n → IsFeas f sc → sc ≤ ps
  fly : ∀ n, inFlight c n → Desc n root
  /-- every feasible node better than the incumbent is still ahead of us -/
  cover : ∀ f sc, Desc f root → IsFeas f sc → (c.best = none ∨ sc > c.bestScore) →
      (∃ n ps, (n, ps) ∈ c.pending ∧ Desc f n) ∨ (∃ n, inFlight c n ∧ Desc f n)
  /-- the incumbent is a real solution of the tree -/
  inc : c.best = none ∨
        (∃ f sol, Desc f root ∧ Solver.res f = .feasible sol c.bestScore ∧ c.best = some sol)


theorem desc_trans {a b c : ν} (h1 : Desc a b) (h2 : Desc b c) : Desc a c := by
  induction h2 with
  | refl => exact h1
  | step hk _ ih => exact Desc.step hk ih

theorem desc_cases {f n : ν} (h : Desc f n) : f = n ∨ ∃ k ∈ pushed n, Desc f k := by
  cases h with
  | refl => exact Or.inl rfl
  | step hk hd => exact Or.inr ⟨_, hk, hd⟩

theorem inv_init (root : ν) (top T : Nat)
    (htop : ∀ f sc, Desc f root → IsFeas f sc → sc ≤ top) : Inv root top (init root top T) := by
  refine ⟨?_, ?_, ?_, ?_⟩
  · intro n ps h
    simp [init] at h
    obtain ⟨rfl, rfl⟩ := h
    exact ⟨Desc.refl _, htop⟩
  · intro n ⟨t, h⟩
    simp [init, List.getElem?_replicate] at h
  · intro f sc hd hf _
    exact Or.inl ⟨root, top, by simp [init], hd⟩
  · exact Or.inl rfl


/-! ### preservation -/

theorem inFlight_setPc_of (c : Cfg ν σ) (t : Nat) (pc : Pc ν) (n : ν)
    (h : inFlight (setPc c t pc) n) :
    inFlight c n ∨ (t < c.pcs.length ∧ (pc = .solving n ∨ pc = .want (some n))) := by
  obtain ⟨u, hu⟩ := h
  simp only [setPc, List.getElem?_set] at hu
  by_cases htu : t = u
  · subst htu
    by_cases hlt : t < c.pcs.length
    · simp [hlt] at hu
      right; exact ⟨hlt, by rcases hu with h | h <;> simp [h]⟩
    · simp [hlt] at hu
  · simp [htu] at hu
    left; exact ⟨u, hu⟩

theorem inFlight_setPc_keep (c : Cfg ν σ) (t : Nat) (pc : Pc ν) (n : ν)
    (h : inFlight c n) (hne : ∀ u : Nat, (c.pcs[u]? = some (Pc.solving n) ∨ c.pcs[u]? = some (Pc.want (some n))) → u ≠ t) :
    inFlight (setPc c t pc) n := by
  obtain ⟨u, hu⟩ := h
  refine ⟨u, ?_⟩
  have := hne u hu
  simp only [setPc, List.getElem?_set]
  simp [Ne.symm this, hu]


theorem mem_eraseIdx_or {α : Type} {l : List α} {k : Nat} {x y : α} (hx : x ∈ l) (hy : l[k]? = some y) :
    x ∈ l.eraseIdx k ∨ x = y := by
  rw [List.mem_iff_getElem?] at hx
  obtain ⟨i, hi⟩ := hx
  by_cases hik : i = k
  · subst hik; right; simp_all
  · left; rw [List.mem_eraseIdx_iff_getElem?]; exact ⟨i, hik, hi⟩

theorem mem_of_mem_eraseIdx' {α : Type} {l : List α} {k : Nat} {x : α} (hx : x ∈ l.eraseIdx k) : x ∈ l :=
  List.mem_of_mem_eraseIdx hx

/-- Inv is insensitive to pc changes that neither create nor destroy in-flight nodes -/
theorem inv_setPc_neutral {root : ν} {top : Nat} {c : Cfg ν σ} (t : Nat) (pc : Pc ν)
    (hinv : Inv root top c)
    (hold : ∀ n, c.pcs[t]? ≠ some (Pc.solving n) ∧ c.pcs[t]? ≠ some (Pc.want (some n)))
    (hnew : ∀ n, pc ≠ .solving n ∧ pc ≠ .want (some n)) :
    Inv root top (setPc c t pc) := by
  have keep : ∀ n, inFlight c n → inFlight (setPc c t pc) n := by
    intro n h
    apply inFlight_setPc_keep _ _ _ _ h
    intro u hu htu; subst htu
    rcases hu with hu | hu
    · exact (hold n).1 hu
    · exact (hold n).2 hu
  have back : ∀ n, inFlight (setPc c t pc) n → inFlight c n := by
    intro n h
    rcases inFlight_setPc_of _ _ _ _ h with h | ⟨_, h | h⟩
    · exact h
    · exact absurd h (hnew n).1
    · exact absurd h (hnew n).2
  refine ⟨hinv.pend, fun n h => hinv.fly n (back n h), ?_, hinv.inc⟩
  intro f sc hd hf hgt
  rcases hinv.cover f sc hd hf hgt with h | ⟨n, hn, hdn⟩
  · exact Or.inl h
  · exact Or.inr ⟨n, keep n hn, hdn⟩


theorem inv_congr {root : ν} {top : Nat} {c c' : Cfg ν σ}
    (h1 : c'.pending = c.pending) (h2 : c'.pcs = c.pcs) (h3 : c'.best = c.best)
    (h4 : c'.bestScore = c.bestScore) (h : Inv root top c) : Inv root top c' := by
  have hf : ∀ n, inFlight c' n ↔ inFlight c n := by intro n; simp [inFlight, h2]
  refine ⟨?_, ?_, ?_, ?_⟩
  · rw [h1]; exact h.pend
  · intro n hn; exact h.fly n ((hf n).1 hn)
  · intro f sc hd hfe hgt
    rw [h3, h4] at hgt
    rcases h.cover f sc hd hfe hgt with h | ⟨n, hn, hdn⟩
    · left; rw [h1]; exact h
    · right; exact ⟨n, (hf n).2 hn, hdn⟩
  · rw [h3, h4]; exact h.inc

/-- applying the result of an in-flight node `n` held by thread `t` -/
theorem inv_applyRes {root : ν} {top : Nat} {c : Cfg ν σ} {t : Nat} {n : ν}
    (hb : Bounded root) (hinv : Inv root top c) (ht : c.pcs[t]? = some (Pc.want (some n))) (pc : Pc ν)
    (hnew : ∀ m, pc ≠ .solving m ∧ pc ≠ .want (some m)) (hnp : isPanic (Solver.res n) = false) :
    Inv root top (setPc (applyRes c n) t pc) := by
  have hnroot : Desc n root := hinv.fly n ⟨t, Or.inr ht⟩
  have hpcs : (applyRes c n).pcs = c.pcs := by
    unfold applyRes; cases Solver.res n <;> simp <;> split <;> simp
  -- in-flight nodes afterwards are in-flight nodes before
  have back : ∀ m, inFlight (setPc (applyRes c n) t pc) m → inFlight c m := by
    intro m h
    rcases inFlight_setPc_of _ _ _ _ h with h | ⟨_, h | h⟩
    · simpa [inFlight, hpcs] using h
    · exact absurd h (hnew m).1
    · exact absurd h (hnew m).2
  -- in-flight nodes of other threads stay in flight
  have keep : ∀ m (u : Nat), u ≠ t → (c.pcs[u]? = some (Pc.solving m) ∨ c.pcs[u]? = some (Pc.want (some m))) →
      inFlight (setPc (applyRes c n) t pc) m := by
    intro m u hut hu
    refine ⟨u, ?_⟩
    simp only [setPc, List.getElem?_set, hpcs]
    simp [Ne.symm hut, hu]
  cases hres : Solver.res n with
  | panic => simp [hres, isPanic] at hnp
  | noSol =>
    have e : applyRes c n = { c with busy := c.busy - 1 } := by simp [applyRes, hres]
    refine ⟨?_, fun m h => hinv.fly m (back m h), ?_, ?_⟩
    · simpa [e, setPc] using hinv.pend
    · intro f sc hd hf hgt
      have hgt' : c.best = none ∨ sc > c.bestScore := by simpa [e, setPc] using hgt
      rcases hinv.cover f sc hd hf hgt' with h | ⟨m, ⟨u, hu⟩, hdm⟩
      · left; simpa [e, setPc] using h
      · by_cases hut : u = t
        · subst hut
          have : m = n := by rcases hu with hu | hu <;> simp_all
          subst this
          rcases desc_cases hdm with rfl | ⟨k, hk, _⟩
          · obtain ⟨sol, hsol⟩ := hf; simp_all
          · simp [pushed, hres] at hk
        · right; exact ⟨m, keep m u hut hu, hdm⟩
    · simpa [e, setPc] using hinv.inc
  | feasible sol sc0 =>
    by_cases hbetter : c.best = none ∨ sc0 > c.bestScore
    · have e : applyRes c n = { c with busy := c.busy - 1, best := some sol, bestScore := sc0 } := by
        simp only [applyRes, hres, hbetter, if_true]
      refine ⟨?_, fun m h => hinv.fly m (back m h), ?_, ?_⟩
      · simpa [e, setPc] using hinv.pend
      · intro f sc hd hf hgt
        have hgt' : sc > sc0 := by simpa [e, setPc] using hgt
        have hold : c.best = none ∨ sc > c.bestScore := by
          rcases hbetter with h | h
          · exact Or.inl h
          · exact Or.inr (by omega)
        rcases hinv.cover f sc hd hf hold with h | ⟨m, ⟨u, hu⟩, hdm⟩
        · left; simpa [e, setPc] using h
        · by_cases hut : u = t
          · subst hut
            have : m = n := by rcases hu with hu | hu <;> simp_all
            subst this
            rcases desc_cases hdm with rfl | ⟨k, hk, _⟩
            · obtain ⟨sol', hsol'⟩ := hf; simp_all
            · simp [pushed, hres] at hk
          · right; exact ⟨m, keep m u hut hu, hdm⟩
      · right; exact ⟨n, sol, hnroot, by simpa [e, setPc] using hres, by simp [e, setPc]⟩
    · have e : applyRes c n = { c with busy := c.busy - 1 } := by simp only [applyRes, hres, hbetter, if_false]
      refine ⟨?_, fun m h => hinv.fly m (back m h), ?_, ?_⟩
      · simpa [e, setPc] using hinv.pend
      · intro f sc hd hf hgt
        have hgt' : c.best = none ∨ sc > c.bestScore := by simpa [e, setPc] using hgt
        rcases hinv.cover f sc hd hf hgt' with h | ⟨m, ⟨u, hu⟩, hdm⟩
        · left; simpa [e, setPc] using h
        · by_cases hut : u = t
          · subst hut
            have : m = n := by rcases hu with hu | hu <;> simp_all
            subst this
            rcases desc_cases hdm with rfl | ⟨k, hk, _⟩
            · obtain ⟨sol', hsol'⟩ := hf
              have : sc = sc0 := by rw [hres] at hsol'; cases hsol'; rfl
              subst this
              exact absurd hgt' hbetter
            · simp [pushed, hres] at hk
          · right; exact ⟨m, keep m u hut hu, hdm⟩
      · simpa [e, setPc] using hinv.inc
  | infeasible s =>
    have e : applyRes c n = { c with busy := c.busy - 1, pending := (Solver.kids n).map (fun k => (k, s)) ++ c.pending } := by
      simp [applyRes, hres]
    refine ⟨?_, fun m h => hinv.fly m (back m h), ?_, ?_⟩
    · intro m ps hm
      simp only [e, setPc, List.mem_append, List.mem_map] at hm
      rcases hm with ⟨k, hk, hkeq⟩ | hm
      · obtain ⟨rfl, rfl⟩ := Prod.mk.inj hkeq
        refine ⟨desc_trans (Desc.step (by simp [pushed, hres, hk]) (Desc.refl _)) hnroot, ?_⟩
        intro f sc hd hf
        exact hb n hnroot _ hres k hk f sc hd hf
      · exact hinv.pend m ps hm
    · intro f sc hd hf hgt
      have hgt' : c.best = none ∨ sc > c.bestScore := by simpa [e, setPc] using hgt
      rcases hinv.cover f sc hd hf hgt' with ⟨m, ps, hm, hdm⟩ | ⟨m, ⟨u, hu⟩, hdm⟩
      · left; exact ⟨m, ps, by simp [e, setPc, hm], hdm⟩
      · by_cases hut : u = t
        · subst hut
          have : m = n := by rcases hu with hu | hu <;> simp_all
          subst this
          rcases desc_cases hdm with rfl | ⟨k, hk, hdk⟩
          · obtain ⟨sol', hsol'⟩ := hf; simp_all
          · left
            have hk' : k ∈ Solver.kids m := by simpa [pushed, hres] using hk
            exact ⟨k, s, by simp only [e, setPc, List.mem_append, List.mem_map]; exact Or.inl ⟨k, hk', rfl⟩, hdk⟩
        · right; exact ⟨m, keep m u hut hu, hdm⟩
    · simpa [e, setPc] using hinv.inc


theorem inv_step {root : ν} {top : Nat} {c c' : Cfg ν σ} {ev : Ev}
    (hb : Bounded root) (hinv : Inv root top c) (hs : step? c ev = some c') : Inv root top c' := by
  cases ev with
  | acquire t =>
    simp only [step?] at hs
    split at hs
    · -- want none
      rename_i hl hp
      cases hs
      have hh : Inv root top (setPc c t .holding) := inv_setPc_neutral t _ hinv (by intro n; simp [hp]) (by intro n; simp)
      exact inv_congr (c := setPc c t .holding) rfl rfl rfl rfl hh
    · rename_i n hl hp
      by_cases hpn : isPanic (Solver.res n) = true
      · -- the solver panicked: the node leaves the in-flight set without any effect
        simp only [hpn, if_true] at hs
        cases hs
        let c1 : Cfg ν σ := { c with busy := c.busy - 1 }
        have hlt : t < c.pcs.length := by
          rcases Nat.lt_or_ge t c.pcs.length with h | h
          · exact h
          · simp [List.getElem?_eq_none h] at hp
        have back : ∀ m, inFlight (setPc c1 t Pc.dying) m → inFlight c m := by
          intro m h
          rcases inFlight_setPc_of _ _ _ _ h with h | ⟨_, h | h⟩
          · exact h
          · cases h
          · cases h
        refine ⟨hinv.pend, fun m h => hinv.fly m (back m h), ?_, hinv.inc⟩
        intro f sc hd hf hg
        rcases hinv.cover f sc hd hf hg with h | ⟨m, ⟨u, hu⟩, hdm⟩
        · exact Or.inl h
        · by_cases hut : u = t
          · subst hut
            have : m = n := by rcases hu with hu | hu <;> simp_all
            subst this
            exfalso
            rcases desc_cases hdm with rfl | ⟨k, hk, _⟩
            · obtain ⟨sol, hsol⟩ := hf
              rw [hsol] at hpn; simp [isPanic] at hpn
            · cases hr : Solver.res m <;> simp [pushed, hr] at hk
              simp [hr, isPanic] at hpn
          · right
            refine ⟨m, ⟨u, ?_⟩, hdm⟩
            simp only [setPc, c1, List.getElem?_set]
            simp [Ne.symm hut, hu]
      · have hpn' : isPanic (Solver.res n) = false := by simpa using hpn
        simp only [hpn', Bool.false_eq_true, if_false] at hs
        cases hs
        have hh : Inv root top (setPc (applyRes c n) t .afterPop) := inv_applyRes hb hinv hp _ (by intro m; simp) hpn'
        exact inv_congr (c := setPc (applyRes c n) t .afterPop) rfl rfl rfl rfl hh
    · cases hs
  | top t k =>
    simp only [step?] at hs
    split at hs
    · rename_i hp
      split at hs
      · rename_i n ps hk
        have hmem : (n, ps) ∈ c.pending := List.mem_of_getElem? hk
        split at hs
        · -- not bounded: n becomes in-flight
          rename_i hgt
          cases hs
          let c1 : Cfg ν σ := { c with pending := c.pending.eraseIdx k }
          suffices hh : Inv root top (setPc c1 t (.solving n)) from inv_congr (c := setPc c1 t (.solving n)) rfl rfl rfl rfl hh
          have hfl : ∀ m, inFlight c m → inFlight (setPc c1 t (.solving n)) m := by
            intro m h
            apply inFlight_setPc_keep c1 t _ m h
            intro u hu htu; subst htu
            simp [c1, hp] at hu
          refine ⟨?_, ?_, ?_, hinv.inc⟩
          · intro m q hm
            exact hinv.pend m q (List.mem_of_mem_eraseIdx hm)
          · intro m h
            rcases inFlight_setPc_of _ _ _ _ h with h | ⟨_, h | h⟩
            · exact hinv.fly m h
            · cases h; exact (hinv.pend n ps hmem).1
            · cases h
          · intro f sc hd hf hg
            rcases hinv.cover f sc hd hf hg with ⟨m, q, hm, hdm⟩ | ⟨m, hm, hdm⟩
            · rcases mem_eraseIdx_or hm hk with h | h
              · left; exact ⟨m, q, h, hdm⟩
              · cases h
                right
                refine ⟨n, ⟨t, Or.inl ?_⟩, hdm⟩
                have : t < c.pcs.length := by
                  rcases Nat.lt_or_ge t c.pcs.length with h | h
                  · exact h
                  · simp [List.getElem?_eq_none h] at hp
                simp [setPc, c1, this]
            · right; exact ⟨m, hfl m hm, hdm⟩
        · -- bounded
          rename_i hle
          cases hs
          let c1 : Cfg ν σ := { c with pending := c.pending.eraseIdx k }
          have hc1 : Inv root top c1 := by
            refine ⟨?_, hinv.fly, ?_, hinv.inc⟩
            · intro m q hm; exact hinv.pend m q (List.mem_of_mem_eraseIdx hm)
            · intro f sc hd hf hg
              rcases hinv.cover f sc hd hf hg with ⟨m, q, hm, hdm⟩ | h
              · rcases mem_eraseIdx_or hm hk with h | h
                · left; exact ⟨m, q, h, hdm⟩
                · cases h
                  have := (hinv.pend n ps hmem).2 f sc hdm hf
                  have hg' : c.best = none ∨ sc > c.bestScore := hg
                  exfalso
                  apply hle
                  rcases hg' with h | h
                  · exact Or.inl h
                  · exact Or.inr (by omega)
              · right; exact h
          exact inv_setPc_neutral t _ hc1 (by intro n; simp [c1, hp]) (by intro n; simp)
      · split at hs
        · split at hs
          · cases hs
            have hh : Inv root top (setPc c t .waiting) := inv_setPc_neutral t _ hinv (by intro n; simp [hp]) (by intro n; simp)
            exact inv_congr (c := setPc c t .waiting) rfl rfl rfl rfl hh
          · cases hs
            have hh : Inv root top (setPc c t .done) := inv_setPc_neutral t _ hinv (by intro n; simp [hp]) (by intro n; simp)
            exact inv_congr (c := setPc c t .done) rfl rfl rfl rfl hh
        · cases hs
    · cases hs
  | after t =>
    simp only [step?] at hs
    split at hs
    · rename_i hp
      split at hs
      · cases hs
        -- finished: notify_all, thread exits
        have hw : ∀ (u : Nat) (m : ν), ((wakeAll c.pcs)[u]? = some (Pc.solving m) ∨ (wakeAll c.pcs)[u]? = some (Pc.want (some m))) ↔
            (c.pcs[u]? = some (Pc.solving m) ∨ c.pcs[u]? = some (Pc.want (some m))) := by
          intro u m
          simp only [wakeAll, List.getElem?_map]
          cases hcu : c.pcs[u]? with
          | none => simp
          | some pc => cases pc <;> simp
        let c1 : Cfg ν σ := { c with pcs := wakeAll c.pcs }
        have hc1 : Inv root top c1 := by
          refine ⟨hinv.pend, ?_, ?_, hinv.inc⟩
          · intro m ⟨u, hu⟩; exact hinv.fly m ⟨u, (hw u m).1 hu⟩
          · intro f sc hd hf hg
            rcases hinv.cover f sc hd hf hg with h | ⟨m, ⟨u, hu⟩, hdm⟩
            · exact Or.inl h
            · exact Or.inr ⟨m, ⟨u, (hw u m).2 hu⟩, hdm⟩
        have hh : Inv root top (setPc c1 t .done) :=
          inv_setPc_neutral t _ hc1
            (by intro n
                have := hw t n
                simp only [c1]
                constructor
                · intro h; have := this.1 (Or.inl h); simp [hp] at this
                · intro h; have := this.1 (Or.inr h); simp [hp] at this)
            (by intro n; simp)
        exact inv_congr (c := setPc c1 t .done) rfl rfl rfl rfl hh
      · cases hs
        exact inv_setPc_neutral t _ hinv (by intro n; simp [hp]) (by intro n; simp)
    · cases hs
  | solve t =>
    simp only [step?] at hs
    split at hs
    · rename_i n hp
      cases hs
      have hlt : t < c.pcs.length := by
        rcases Nat.lt_or_ge t c.pcs.length with h | h
        · exact h
        · simp [List.getElem?_eq_none h] at hp
      have hfl : ∀ m, inFlight (setPc c t (.want (some n))) m ↔ inFlight c m := by
        intro m
        constructor
        · intro h
          rcases inFlight_setPc_of _ _ _ _ h with h | ⟨_, h | h⟩
          · exact h
          · cases h
          · cases h; exact ⟨t, Or.inl hp⟩
        · intro ⟨u, hu⟩
          by_cases hut : u = t
          · subst hut
            have : m = n := by rcases hu with hu | hu <;> simp_all
            subst this
            exact ⟨u, Or.inr (by simp [setPc, hlt])⟩
          · exact ⟨u, by simpa [setPc, List.getElem?_set, Ne.symm hut] using hu⟩
      refine ⟨hinv.pend, fun m h => hinv.fly m ((hfl m).1 h), ?_, hinv.inc⟩
      intro f sc hd hf hg
      rcases hinv.cover f sc hd hf hg with h | ⟨m, hm, hdm⟩
      · exact Or.inl h
      · exact Or.inr ⟨m, (hfl m).2 hm, hdm⟩
    · cases hs
  | wake t =>
    simp only [step?] at hs
    split at hs
    · rename_i hp
      cases hs
      exact inv_setPc_neutral t _ hinv (by intro n; simp [hp]) (by intro n; simp)
    · cases hs
  | die t =>
    simp only [step?] at hs
    split at hs
    · rename_i hp
      cases hs
      have hw : ∀ (u : Nat) (m : ν), ((wakeAll c.pcs)[u]? = some (Pc.solving m) ∨ (wakeAll c.pcs)[u]? = some (Pc.want (some m))) ↔
          (c.pcs[u]? = some (Pc.solving m) ∨ c.pcs[u]? = some (Pc.want (some m))) := by
        intro u m
        simp only [wakeAll, List.getElem?_map]
        cases hcu : c.pcs[u]? with
        | none => simp
        | some pc => cases pc <;> simp
      let c1 : Cfg ν σ := { c with pcs := wakeAll c.pcs }
      have hc1 : Inv root top c1 := by
        refine ⟨hinv.pend, ?_, ?_, hinv.inc⟩
        · intro m ⟨u, hu⟩; exact hinv.fly m ⟨u, (hw u m).1 hu⟩
        · intro f sc hd hf hg
          rcases hinv.cover f sc hd hf hg with h | ⟨m, ⟨u, hu⟩, hdm⟩
          · exact Or.inl h
          · exact Or.inr ⟨m, ⟨u, (hw u m).2 hu⟩, hdm⟩
      have hh : Inv root top (setPc c1 t .dead) :=
        inv_setPc_neutral t _ hc1
          (by intro n
              have := hw t n
              simp only [c1]
              constructor
              · intro h; have := this.1 (Or.inl h); simp [hp] at this
              · intro h; have := this.1 (Or.inr h); simp [hp] at this)
          (by intro n; simp)
      exact inv_congr (c := setPc c1 t .dead) rfl rfl rfl rfl hh
    · cases hs


/-! ### deadlock freedom -/

def isFlight : Pc ν → Bool
  | .solving _ => true
  | .want (some _) => true
  | _ => false

def holdsLock : Pc ν → Bool
  | .holding => true
  | .afterPop => true
  | _ => false

structure LInv (c : Cfg ν σ) : Prop where
  /-- the lock field agrees with the program counters -/
  lock1 : ∀ t : Nat, c.lock = some t → ∃ pc, c.pcs[t]? = some pc ∧ holdsLock pc = true
  lock2 : ∀ (t : Nat) pc, c.pcs[t]? = some pc → holdsLock pc = true → c.lock = some t
  /-- busy_threads counts exactly the in-flight workers -/
  busy : c.busy = c.pcs.countP isFlight
  /-- "finished" state: every sleeper has been (or is about to be) notified -/
  fin : c.pending = [] → c.busy = 0 →
      (∀ (t : Nat), c.pcs[t]? ≠ some Pc.waiting) ∨ (∃ t : Nat, c.pcs[t]? = some Pc.afterPop) ∨
        (∃ t : Nat, c.pcs[t]? = some Pc.dying)
  /-- work is never left behind without somebody who will come back for it -/
  work : c.lock = none → c.pending ≠ [] →
      (∃ (t : Nat) (pc : Pc ν), c.pcs[t]? = some pc ∧ (isFlight pc = true ∨ pc = .want none)) ∨
      (∃ t : Nat, c.pcs[t]? = some Pc.dying) ∨ (∀ (t : Nat), c.pcs[t]? ≠ some Pc.waiting)
  /-- a worker only exits when everything is finished (and that state is absorbing) -/
  fin2 : ∀ (t : Nat), c.pcs[t]? = some Pc.done → c.pending = [] ∧ c.busy = 0

def AllDone (c : Cfg ν σ) : Prop := ∀ (t : Nat) pc, c.pcs[t]? = some pc → pc = .done
/-- every worker has stopped, normally or by a panic -/
def AllFinished (c : Cfg ν σ) : Prop := ∀ (t : Nat) pc, c.pcs[t]? = some pc → pc = .done ∨ pc = .dead

def Ev.isWake : Ev → Bool
  | .wake _ => true
  | _ => false

theorem countP_pos_exists {α : Type} {p : α → Bool} {l : List α} (h : 0 < l.countP p) :
    ∃ (i : Nat) (a : α), l[i]? = some a ∧ p a = true := by
  rw [List.countP_pos_iff] at h
  obtain ⟨a, ha, hpa⟩ := h
  obtain ⟨i, hi⟩ := List.mem_iff_getElem?.1 ha
  exact ⟨i, a, hi, hpa⟩

theorem countP_zero_forall {α : Type} {p : α → Bool} {l : List α} (h : l.countP p = 0)
    (i : Nat) (a : α) (hi : l[i]? = some a) : p a = false := by
  rw [List.countP_eq_zero] at h
  have := h a (List.mem_of_getElem? hi)
  simpa using this

/-- In every configuration satisfying the invariant that is not finished, some thread can take a
    real (non wake-up) step: no deadlock, no lost wake-up. -/
theorem no_deadlock {c : Cfg ν σ} (h : LInv c) (hnd : ¬ AllFinished c) :
    ∃ ev, ev.isWake = false ∧ (step? c ev).isSome = true := by
  cases hl : c.lock with
  | some t =>
    obtain ⟨pc, hpc, hh⟩ := h.lock1 t hl
    cases pc <;> simp [holdsLock] at hh
    · -- holding: loop top with k = 0 is always enabled
      cases hk : c.pending[0]? with
      | some np =>
        obtain ⟨n, ps⟩ := np
        by_cases hgt : c.best = none ∨ ps > c.bestScore
        · exact ⟨.top t 0, rfl, by simp only [step?, hpc, hk, hgt, if_true]; rfl⟩
        · exact ⟨.top t 0, rfl, by simp only [step?, hpc, hk, hgt, if_false]; rfl⟩
      | none =>
        have hpe : c.pending = [] := by
          cases hp : c.pending with
          | nil => rfl
          | cons a l => simp [hp] at hk
        by_cases hb : c.busy > 0
        · exact ⟨.top t 0, rfl, by simp [step?, hpc, hk, hpe, hb]⟩
        · exact ⟨.top t 0, rfl, by simp [step?, hpc, hk, hpe, hb]⟩
    · by_cases hf : c.pending = [] ∧ c.busy = 0
      · exact ⟨.after t, rfl, by simp [step?, hpc, hf]⟩
      · exact ⟨.after t, rfl, by simp [step?, hpc, hf]⟩
  | none =>
    -- some thread is not done
    have hnd' : ∃ (t : Nat) (pc : Pc ν), c.pcs[t]? = some pc ∧ pc ≠ .done ∧ pc ≠ .dead := by
      apply Classical.byContradiction
      intro hcon
      apply hnd
      intro t pc hpc
      apply Classical.byContradiction
      intro hne
      apply hcon
      refine ⟨t, pc, hpc, ?_, ?_⟩
      · intro e; exact hne (Or.inl e)
      · intro e; exact hne (Or.inr e)
    obtain ⟨t, pc, hpc, hne, hnedead⟩ := hnd'
    -- a dying thread can always finish dying
    by_cases hdy : ∃ u : Nat, c.pcs[u]? = some Pc.dying
    · obtain ⟨u, hu⟩ := hdy
      exact ⟨.die u, rfl, by simp [step?, hu]⟩
    -- is anybody in flight or wanting the lock?
    by_cases hex : ∃ (u : Nat) (q : Pc ν), c.pcs[u]? = some q ∧ (isFlight q = true ∨ q = .want none)
    · obtain ⟨u, q, hq, hq'⟩ := hex
      cases q with
      | solving n => exact ⟨.solve u, rfl, by simp [step?, hq]⟩
      | want r =>
        cases r with
        | none => exact ⟨.acquire u, rfl, by simp [step?, hq, hl]⟩
        | some n =>
          by_cases hpn : isPanic (Solver.res n) = true
          · exact ⟨.acquire u, rfl, by simp [step?, hq, hl, hpn]⟩
          · exact ⟨.acquire u, rfl, by simp [step?, hq, hl, hpn]⟩
      | _ => simp [isFlight] at hq'
    · -- nobody: then pending = [] and busy = 0, so nobody may be waiting: contradiction
      have nowait : c.pending ≠ [] → ∀ (t : Nat), c.pcs[t]? ≠ some Pc.waiting := by
        intro hp
        rcases h.work hl hp with hw | hw | hw
        · exact absurd hw hex
        · exact absurd hw hdy
        · exact hw
      have hb0 : c.busy = 0 := by
        rw [h.busy]
        by_cases hz : c.pcs.countP isFlight = 0
        · exact hz
        · obtain ⟨i, a, hi, ha⟩ := countP_pos_exists (Nat.pos_of_ne_zero hz)
          exact absurd ⟨i, a, hi, Or.inl ha⟩ hex
      exfalso
      cases pc with
      | done => exact hne rfl
      | holding => have := h.lock2 t _ hpc rfl; simp [hl] at this
      | afterPop => have := h.lock2 t _ hpc rfl; simp [hl] at this
      | solving n => exact hex ⟨t, _, hpc, Or.inl rfl⟩
      | want r =>
        cases r with
        | none => exact hex ⟨t, _, hpc, Or.inr rfl⟩
        | some n => exact hex ⟨t, _, hpc, Or.inl rfl⟩
      | dying => exact hdy ⟨t, hpc⟩
      | dead => exact hnedead rfl
      | waiting =>
        by_cases hp : c.pending = []
        · rcases h.fin hp hb0 with hw | ⟨u, hu⟩ | hu
          · exact hw t hpc
          · have := h.lock2 u _ hu rfl; simp [hl] at this
          · exact hdy hu
        · exact nowait hp t hpc


/-! ### LInv is inductive -/

theorem lt_of_getElem?_some {α : Type} {l : List α} {i : Nat} {a : α} (h : l[i]? = some a) : i < l.length := by
  rcases Nat.lt_or_ge i l.length with h' | h'
  · exact h'
  · simp [List.getElem?_eq_none h'] at h

theorem getElem_of_getElem? {α : Type} {l : List α} {i : Nat} {a : α} (h : l[i]? = some a) :
    l[i]'(lt_of_getElem?_some h) = a := by
  have := lt_of_getElem?_some h
  simpa [List.getElem?_eq_getElem this] using h

/-- effect of one pc change on the in-flight count -/
theorem countP_setPc (pcs : List (Pc ν)) (t : Nat) (old new : Pc ν) (h : pcs[t]? = some old) :
    (pcs.set t new).countP isFlight + (if isFlight old then 1 else 0)
      = pcs.countP isFlight + (if isFlight new then 1 else 0) := by
  have hlt := lt_of_getElem?_some h
  rw [List.countP_set hlt, getElem_of_getElem? h]
  have : (if isFlight old = true then 1 else 0) ≤ pcs.countP isFlight := by
    split
    · rename_i hf
      apply List.countP_pos_iff.2
      exact ⟨old, List.mem_of_getElem? h, hf⟩
    · omega
  omega

theorem wakeAll_getElem? (pcs : List (Pc ν)) (u : Nat) :
    (wakeAll pcs)[u]? = (pcs[u]?).map (fun pc => match pc with | .waiting => .want none | pc => pc) := by
  simp [wakeAll]

theorem countP_wakeAll (pcs : List (Pc ν)) : (wakeAll pcs).countP isFlight = pcs.countP isFlight := by
  simp only [wakeAll, List.countP_map]
  congr 1
  funext pc
  cases pc <;> simp [isFlight]

theorem linv_init (root : ν) (top T : Nat) (hT : 0 < T) : LInv (init root top T : Cfg ν σ) := by
  refine ⟨?_, ?_, ?_, ?_, ?_, ?_⟩
  · intro t h; simp [init] at h
  · intro t pc h hh
    simp [init, List.getElem?_replicate] at h
    obtain ⟨_, rfl⟩ := h
    simp [holdsLock] at hh
  · simp [init, List.countP_replicate, isFlight]
  · intro h; simp [init] at h
  · intro _ _
    exact Or.inl ⟨0, .want none, by simp [init, List.getElem?_replicate, hT], Or.inr rfl⟩
  · intro t h
    simp [init, List.getElem?_replicate] at h


/-- facts about a single pc update, packaged for reuse -/
theorem getElem?_setPc (c : Cfg ν σ) (t u : Nat) (pc : Pc ν) :
    (setPc c t pc).pcs[u]? = if t = u then (if t < c.pcs.length then some pc else none) else c.pcs[u]? := by
  simp only [setPc, List.getElem?_set]

theorem linv_step {c c' : Cfg ν σ} {ev : Ev} (h : LInv c) (hs : step? c ev = some c') : LInv c' := by
  cases ev with
  | wake t =>
    simp only [step?] at hs
    split at hs
    · rename_i hp
      cases hs
      have hlt := lt_of_getElem?_some hp
      have hcnt := countP_setPc c.pcs t _ (.want none) hp
      refine ⟨?_, ?_, ?_, ?_, ?_, ?_⟩
      · intro u hu
        obtain ⟨pc, hpc, hh⟩ := h.lock1 u hu
        refine ⟨pc, ?_, hh⟩
        rw [getElem?_setPc]
        by_cases htu : t = u
        · subst htu; simp [hp] at hpc; subst hpc; simp [holdsLock] at hh
        · simp [htu, hpc]
      · intro u pc hpc hh
        rw [getElem?_setPc] at hpc
        by_cases htu : t = u
        · subst htu; simp [hlt] at hpc; subst hpc; simp [holdsLock] at hh
        · simp [htu] at hpc; exact h.lock2 u pc hpc hh
      · have := h.busy
        simp [isFlight] at hcnt
        simp only [setPc]; omega
      · intro hp0 hb0
        rcases h.fin hp0 hb0 with hw | ⟨u, hu⟩ | ⟨u, hu⟩
        · exact absurd hp (hw t)
        · right; left; refine ⟨u, ?_⟩
          rw [getElem?_setPc]
          by_cases htu : t = u
          · subst htu; simp [hp] at hu
          · simp [htu, hu]
        · right; right; refine ⟨u, ?_⟩
          rw [getElem?_setPc]
          by_cases htu : t = u
          · subst htu; simp [hp] at hu
          · simp [htu, hu]
      · intro hl hpn
        exact Or.inl ⟨t, .want none, by rw [getElem?_setPc]; simp [hlt], Or.inr rfl⟩
      · intro u hu
        rw [getElem?_setPc] at hu
        by_cases htu : t = u
        · subst htu; simp [hlt] at hu
        · simp [htu] at hu; exact h.fin2 u hu
    · cases hs
  | die t =>
    simp only [step?] at hs
    split at hs
    · rename_i hp
      cases hs
      have hlt := lt_of_getElem?_some hp
      have hget : ∀ u : Nat, ((wakeAll c.pcs).set t Pc.dead)[u]? =
          if t = u then some Pc.dead else (c.pcs[u]?).map (fun pc => match pc with | .waiting => .want none | pc => pc) := by
        intro u
        rw [List.getElem?_set, wakeAll_getElem?]
        by_cases htu : t = u
        · subst htu; simp [wakeAll, hlt]
        · simp [htu]
      refine ⟨?_, ?_, ?_, ?_, ?_, ?_⟩
      · intro u hu
        obtain ⟨pc, hpc, hh⟩ := h.lock1 u hu
        refine ⟨pc, ?_, hh⟩
        simp only
        rw [hget]
        by_cases htu : t = u
        · subst htu; simp [hp] at hpc; subst hpc; simp [holdsLock] at hh
        · simp only [htu, if_false, hpc, Option.map_some]
          cases pc <;> simp_all [holdsLock]
      · intro u pc hpc hh
        simp only at hpc
        rw [hget] at hpc
        by_cases htu : t = u
        · subst htu; simp at hpc; subst hpc; simp [holdsLock] at hh
        · simp [htu] at hpc
          obtain ⟨q, hq, rfl⟩ := hpc
          have : holdsLock q = true := by
            cases q <;> first | rfl | (simp [holdsLock] at hh)
          exact h.lock2 u q hq this
      · simp only
        have h1 : (wakeAll c.pcs)[t]? = some Pc.dying := by rw [wakeAll_getElem?, hp]; rfl
        have := countP_setPc (wakeAll c.pcs) t _ Pc.dead h1
        simp [isFlight] at this
        rw [this, countP_wakeAll]; exact h.busy
      · intro _ _
        left
        intro u hu
        simp only at hu
        rw [hget] at hu
        by_cases htu : t = u
        · subst htu; simp at hu
        · simp [htu] at hu
          obtain ⟨q, _, hq⟩ := hu
          cases q <;> simp at hq
      · intro _ _
        right; right
        intro u hu
        simp only at hu
        rw [hget] at hu
        by_cases htu : t = u
        · subst htu; simp at hu
        · simp [htu] at hu
          obtain ⟨q, _, hq⟩ := hu
          cases q <;> simp at hq
      · intro u hu
        simp only at hu
        rw [hget] at hu
        by_cases htu : t = u
        · subst htu; simp at hu
        · simp [htu] at hu
          obtain ⟨q, hq, hq'⟩ := hu
          have : q = Pc.done := by cases q <;> simp_all
          subst this
          exact h.fin2 u hq
    · cases hs
  | solve t =>
    simp only [step?] at hs
    split at hs
    · rename_i n hp
      cases hs
      have hlt := lt_of_getElem?_some hp
      have hcnt := countP_setPc c.pcs t _ (.want (some n)) hp
      refine ⟨?_, ?_, ?_, ?_, ?_, ?_⟩
      · intro u hu
        obtain ⟨pc, hpc, hh⟩ := h.lock1 u hu
        refine ⟨pc, ?_, hh⟩
        rw [getElem?_setPc]
        by_cases htu : t = u
        · subst htu; simp [hp] at hpc; subst hpc; simp [holdsLock] at hh
        · simp [htu, hpc]
      · intro u pc hpc hh
        rw [getElem?_setPc] at hpc
        by_cases htu : t = u
        · subst htu; simp [hlt] at hpc; subst hpc; simp [holdsLock] at hh
        · simp [htu] at hpc; exact h.lock2 u pc hpc hh
      · have := h.busy
        simp [isFlight] at hcnt
        simp only [setPc]; omega
      · intro hp0 hb0
        -- busy = 0 impossible: t is in flight
        exfalso
        have hb : c.busy = 0 := hb0
        rw [h.busy] at hb
        have := countP_zero_forall hb t _ hp
        simp [isFlight] at this
      · intro hl hpn
        exact Or.inl ⟨t, .want (some n), by rw [getElem?_setPc]; simp [hlt], Or.inl rfl⟩
      · intro u hu
        rw [getElem?_setPc] at hu
        by_cases htu : t = u
        · subst htu; simp [hlt] at hu
        · simp [htu] at hu; exact h.fin2 u hu
    · cases hs
  | acquire t =>
    simp only [step?] at hs
    split at hs
    · -- want none → holding
      rename_i hl hp
      cases hs
      have hlt := lt_of_getElem?_some hp
      have hcnt := countP_setPc c.pcs t _ Pc.holding hp
      have nolock : ∀ (u : Nat) pc, c.pcs[u]? = some pc → holdsLock pc = false := by
        intro u pc hpc
        cases hh : holdsLock pc with
        | false => rfl
        | true => have := h.lock2 u pc hpc hh; simp [hl] at this
      refine ⟨?_, ?_, ?_, ?_, ?_, ?_⟩
      · intro u hu
        simp only at hu; cases hu
        exact ⟨.holding, by show (setPc c t Pc.holding).pcs[t]? = _; rw [getElem?_setPc]; simp [hlt], rfl⟩
      · intro u pc hpc hh
        change (setPc c t Pc.holding).pcs[u]? = some pc at hpc
        rw [getElem?_setPc] at hpc
        by_cases htu : t = u
        · subst htu; rfl
        · simp [htu] at hpc; have := nolock u pc hpc; simp [hh] at this
      · have := h.busy
        simp [isFlight] at hcnt
        show c.busy = (setPc c t Pc.holding).pcs.countP isFlight
        simp only [setPc]; omega
      · intro hp0 hb0
        rcases h.fin hp0 hb0 with hw | ⟨v, hv⟩ | ⟨v, hv⟩
        · left
          intro u hu
          change (setPc c t Pc.holding).pcs[u]? = some Pc.waiting at hu
          rw [getElem?_setPc] at hu
          by_cases htu : t = u
          · subst htu; simp [hlt] at hu
          · simp [htu] at hu; exact hw u hu
        · have := nolock v _ hv; simp [holdsLock] at this
        · right; right
          refine ⟨v, ?_⟩
          show (setPc c t Pc.holding).pcs[v]? = _
          rw [getElem?_setPc]
          by_cases htv : t = v
          · subst htv; simp [hp] at hv
          · simp [htv, hv]
      · intro hl'; simp at hl'
      · intro u hu
        change (setPc c t Pc.holding).pcs[u]? = some Pc.done at hu
        rw [getElem?_setPc] at hu
        by_cases htu : t = u
        · subst htu; simp [hlt] at hu
        · simp [htu] at hu; exact h.fin2 u hu
    · -- want (some n)
      rename_i n hl hp
      by_cases hpn : isPanic (Solver.res n) = true
      · -- the solver panicked: busy_threads -= 1, then (next event) notify_all
        simp only [hpn, if_true] at hs
        cases hs
        have hlt := lt_of_getElem?_some hp
        have hcnt := countP_setPc c.pcs t _ Pc.dying hp
        have hpos : 0 < c.pcs.countP isFlight :=
          List.countP_pos_iff.2 ⟨_, List.mem_of_getElem? hp, rfl⟩
        let c1 : Cfg ν σ := { c with busy := c.busy - 1 }
        have hget : ∀ u : Nat, (setPc c1 t Pc.dying).pcs[u]? = if t = u then some Pc.dying else c.pcs[u]? := by
          intro u; rw [getElem?_setPc]; simp [c1, hlt]
        refine ⟨?_, ?_, ?_, ?_, ?_, ?_⟩
        · intro u hu
          have : c.lock = some u := hu
          simp [hl] at this
        · intro u pc hpc hh
          rw [hget] at hpc
          by_cases htu : t = u
          · subst htu; simp at hpc; subst hpc; simp [holdsLock] at hh
          · simp [htu] at hpc; exact h.lock2 u pc hpc hh
        · have := h.busy
          simp [isFlight] at hcnt
          show c.busy - 1 = (setPc c1 t Pc.dying).pcs.countP isFlight
          simp only [setPc, c1]; omega
        · intro _ _; right; right; exact ⟨t, by rw [hget]; simp⟩
        · intro _ _; right; left; exact ⟨t, by rw [hget]; simp⟩
        · intro u hu
          rw [hget] at hu
          by_cases htu : t = u
          · subst htu; simp at hu
          · simp [htu] at hu
            have := (h.fin2 u hu).2
            rw [h.busy] at this; omega
      have hpn' : isPanic (Solver.res n) = false := by simpa using hpn
      simp only [hpn', Bool.false_eq_true, if_false] at hs
      cases hs
      have hlt := lt_of_getElem?_some hp
      have hpcs : (applyRes c n).pcs = c.pcs := by
        unfold applyRes; cases Solver.res n <;> simp <;> split <;> simp
      have hbusy : (applyRes c n).busy = c.busy - 1 := by
        unfold applyRes; cases Solver.res n <;> simp <;> split <;> simp
      have hcnt := countP_setPc c.pcs t _ Pc.afterPop hp
      have hpos : 0 < c.pcs.countP isFlight :=
        List.countP_pos_iff.2 ⟨_, List.mem_of_getElem? hp, rfl⟩
      have nolock : ∀ (u : Nat) pc, c.pcs[u]? = some pc → holdsLock pc = false := by
        intro u pc hpc
        cases hh : holdsLock pc with
        | false => rfl
        | true => have := h.lock2 u pc hpc hh; simp [hl] at this
      have hget : ∀ u : Nat, (setPc (applyRes c n) t Pc.afterPop).pcs[u]? =
          if t = u then some Pc.afterPop else c.pcs[u]? := by
        intro u; rw [getElem?_setPc, hpcs]; simp [hlt]
      refine ⟨?_, ?_, ?_, ?_, ?_, ?_⟩
      · intro u hu
        simp only at hu; cases hu
        exact ⟨.afterPop, by show (setPc (applyRes c n) t Pc.afterPop).pcs[t]? = _; rw [hget]; simp, rfl⟩
      · intro u pc hpc hh
        change (setPc (applyRes c n) t Pc.afterPop).pcs[u]? = some pc at hpc
        rw [hget] at hpc
        by_cases htu : t = u
        · subst htu; rfl
        · simp [htu] at hpc; have := nolock u pc hpc; simp [hh] at this
      · have := h.busy
        simp [isFlight] at hcnt
        show (applyRes c n).busy = (setPc (applyRes c n) t Pc.afterPop).pcs.countP isFlight
        simp only [setPc, hpcs, hbusy]; omega
      · intro _ _
        right; left; exact ⟨t, by show (setPc (applyRes c n) t Pc.afterPop).pcs[t]? = _; rw [hget]; simp⟩
      · intro hl'; simp at hl'
      · intro u hu
        change (setPc (applyRes c n) t Pc.afterPop).pcs[u]? = some Pc.done at hu
        rw [hget] at hu
        by_cases htu : t = u
        · subst htu; simp at hu
        · simp [htu] at hu
          -- a done thread means busy = 0, but t is in flight
          have := (h.fin2 u hu).2
          rw [h.busy] at this; omega
    · cases hs
  | after t =>
    simp only [step?] at hs
    split at hs
    · rename_i hp
      have hlt := lt_of_getElem?_some hp
      have hlock : c.lock = some t := h.lock2 t _ hp rfl
      have uniq : ∀ (u : Nat) pc, c.pcs[u]? = some pc → holdsLock pc = true → u = t := by
        intro u pc hpc hh
        have := h.lock2 u pc hpc hh
        rw [hlock] at this; cases this; rfl
      split at hs
      · -- finished: notify_all and exit
        rename_i hfin
        cases hs
        have hget : ∀ u : Nat, ((wakeAll c.pcs).set t Pc.done)[u]? =
            if t = u then some Pc.done else (c.pcs[u]?).map (fun pc => match pc with | .waiting => .want none | pc => pc) := by
          intro u
          rw [List.getElem?_set, wakeAll_getElem?]
          by_cases htu : t = u
          · subst htu; simp [wakeAll, hlt]
          · simp [htu]
        refine ⟨?_, ?_, ?_, ?_, ?_, ?_⟩
        · intro u hu; simp at hu
        · intro u pc hpc hh
          simp only at hpc
          rw [hget] at hpc
          by_cases htu : t = u
          · subst htu; simp at hpc; subst hpc; simp [holdsLock] at hh
          · simp [htu] at hpc
            obtain ⟨q, hq, rfl⟩ := hpc
            have : holdsLock q = true := by cases q <;> simp_all [holdsLock]
            exact absurd (uniq u q hq this) (Ne.symm htu)
        · -- busy count
          simp only
          have h1 : (wakeAll c.pcs)[t]? = some Pc.afterPop := by rw [wakeAll_getElem?, hp]; rfl
          have := countP_setPc (wakeAll c.pcs) t _ Pc.done h1
          simp [isFlight] at this
          rw [this, countP_wakeAll]; exact h.busy
        · intro _ _
          left
          intro u hu
          simp only at hu
          rw [hget] at hu
          by_cases htu : t = u
          · subst htu; simp at hu
          · simp [htu] at hu
            obtain ⟨q, _, hq⟩ := hu
            cases q <;> simp at hq
        · intro _ hpn; exact absurd hfin.1 hpn
        · intro u _; exact hfin
      · -- not finished: back to loop top
        rename_i hnf
        cases hs
        have hcnt := countP_setPc c.pcs t _ Pc.holding hp
        refine ⟨?_, ?_, ?_, ?_, ?_, ?_⟩
        · intro u hu
          have hu' : c.lock = some u := hu
          rw [hlock] at hu'; cases hu'
          exact ⟨.holding, by rw [getElem?_setPc]; simp [hlt], rfl⟩
        · intro u pc hpc hh
          rw [getElem?_setPc] at hpc
          by_cases htu : t = u
          · subst htu; exact hlock
          · simp [htu] at hpc; exact h.lock2 u pc hpc hh
        · have := h.busy
          simp [isFlight] at hcnt
          simp only [setPc]; omega
        · intro hp0 hb0; exact absurd ⟨hp0, hb0⟩ hnf
        · intro hl'; have : c.lock = none := hl'; simp [hlock] at this
        · intro u hu
          rw [getElem?_setPc] at hu
          by_cases htu : t = u
          · subst htu; simp [hlt] at hu
          · simp [htu] at hu; exact h.fin2 u hu
    · cases hs
  | top t k =>
    simp only [step?] at hs
    split at hs
    · rename_i hp
      have hlt := lt_of_getElem?_some hp
      have hlock : c.lock = some t := h.lock2 t _ hp rfl
      have uniq : ∀ (u : Nat) pc, c.pcs[u]? = some pc → holdsLock pc = true → u = t := by
        intro u pc hpc hh
        have := h.lock2 u pc hpc hh
        rw [hlock] at this; cases this; rfl
      have nodone : c.pending ≠ [] → ∀ u : Nat, c.pcs[u]? ≠ some Pc.done := by
        intro hne u hu; exact hne (h.fin2 u hu).1
      split at hs
      · rename_i n ps hk
        have hne : c.pending ≠ [] := by
          intro he; simp [he] at hk
        split at hs
        · -- pop, not bounded → solving
          cases hs
          let c1 : Cfg ν σ := { c with pending := c.pending.eraseIdx k }
          have hcnt := countP_setPc c.pcs t _ (Pc.solving n) hp
          have hget : ∀ u : Nat, (setPc c1 t (Pc.solving n)).pcs[u]? =
              if t = u then some (Pc.solving n) else c.pcs[u]? := by
            intro u; rw [getElem?_setPc]; simp [c1, hlt]
          refine ⟨?_, ?_, ?_, ?_, ?_, ?_⟩
          · intro u hu; simp at hu
          · intro u pc hpc hh
            change (setPc c1 t (Pc.solving n)).pcs[u]? = some pc at hpc
            rw [hget] at hpc
            by_cases htu : t = u
            · subst htu; simp at hpc; subst hpc; simp [holdsLock] at hh
            · simp [htu] at hpc; exact absurd (uniq u pc hpc hh) (Ne.symm htu)
          · have := h.busy
            simp [isFlight] at hcnt
            show c.busy + 1 = (setPc c1 t (Pc.solving n)).pcs.countP isFlight
            simp only [setPc, c1]; omega
          · intro _ hb0; simp at hb0
          · intro _ _
            exact Or.inl ⟨t, .solving n, by show (setPc c1 t (Pc.solving n)).pcs[t]? = _; rw [hget]; simp, Or.inl rfl⟩
          · intro u hu
            change (setPc c1 t (Pc.solving n)).pcs[u]? = some Pc.done at hu
            rw [hget] at hu
            by_cases htu : t = u
            · subst htu; simp at hu
            · simp [htu] at hu; exact absurd hu (nodone hne u)
        · -- bounded → afterPop (still holding the lock)
          cases hs
          let c1 : Cfg ν σ := { c with pending := c.pending.eraseIdx k }
          have hcnt := countP_setPc c.pcs t _ Pc.afterPop hp
          have hget : ∀ u : Nat, (setPc c1 t Pc.afterPop).pcs[u]? =
              if t = u then some Pc.afterPop else c.pcs[u]? := by
            intro u; rw [getElem?_setPc]; simp [c1, hlt]
          refine ⟨?_, ?_, ?_, ?_, ?_, ?_⟩
          · intro u hu
            have hu' : c.lock = some u := hu
            rw [hlock] at hu'; cases hu'
            exact ⟨.afterPop, by rw [hget]; simp, rfl⟩
          · intro u pc hpc hh
            rw [hget] at hpc
            by_cases htu : t = u
            · subst htu; exact hlock
            · simp [htu] at hpc; exact h.lock2 u pc hpc hh
          · have := h.busy
            simp [isFlight] at hcnt
            show c.busy = (setPc c1 t Pc.afterPop).pcs.countP isFlight
            simp only [setPc, c1]; omega
          · intro _ _; right; left; exact ⟨t, by rw [hget]; simp⟩
          · intro hl'; have : c.lock = none := hl'; simp [hlock] at this
          · intro u hu
            rw [hget] at hu
            by_cases htu : t = u
            · subst htu; simp at hu
            · simp [htu] at hu; exact absurd hu (nodone hne u)
      · split at hs
        · rename_i hpe
          split at hs
          · -- wait
            rename_i hb
            cases hs
            have hcnt := countP_setPc c.pcs t _ Pc.waiting hp
            have hget : ∀ u : Nat, (setPc c t Pc.waiting).pcs[u]? =
                if t = u then some Pc.waiting else c.pcs[u]? := by
              intro u; rw [getElem?_setPc]; simp [hlt]
            refine ⟨?_, ?_, ?_, ?_, ?_, ?_⟩
            · intro u hu; simp at hu
            · intro u pc hpc hh
              change (setPc c t Pc.waiting).pcs[u]? = some pc at hpc
              rw [hget] at hpc
              by_cases htu : t = u
              · subst htu; simp at hpc; subst hpc; simp [holdsLock] at hh
              · simp [htu] at hpc; exact absurd (uniq u pc hpc hh) (Ne.symm htu)
            · have := h.busy
              simp [isFlight] at hcnt
              show c.busy = (setPc c t Pc.waiting).pcs.countP isFlight
              simp only [setPc]; omega
            · intro _ hb0
              have : c.busy = 0 := hb0
              omega
            · intro _ hpn; exact absurd hpe hpn
            · intro u hu
              change (setPc c t Pc.waiting).pcs[u]? = some Pc.done at hu
              rw [hget] at hu
              by_cases htu : t = u
              · subst htu; simp at hu
              · simp [htu] at hu; exact h.fin2 u hu
          · -- exit
            rename_i hb
            have hb0 : c.busy = 0 := by omega
            cases hs
            have hcnt := countP_setPc c.pcs t _ Pc.done hp
            have hget : ∀ u : Nat, (setPc c t Pc.done).pcs[u]? =
                if t = u then some Pc.done else c.pcs[u]? := by
              intro u; rw [getElem?_setPc]; simp [hlt]
            refine ⟨?_, ?_, ?_, ?_, ?_, ?_⟩
            · intro u hu; simp at hu
            · intro u pc hpc hh
              change (setPc c t Pc.done).pcs[u]? = some pc at hpc
              rw [hget] at hpc
              by_cases htu : t = u
              · subst htu; simp at hpc; subst hpc; simp [holdsLock] at hh
              · simp [htu] at hpc; exact absurd (uniq u pc hpc hh) (Ne.symm htu)
            · have := h.busy
              simp [isFlight] at hcnt
              show c.busy = (setPc c t Pc.done).pcs.countP isFlight
              simp only [setPc]; omega
            · intro _ _
              rcases h.fin hpe hb0 with hw | ⟨v, hv⟩ | ⟨v, hv⟩
              · left
                intro u hu
                change (setPc c t Pc.done).pcs[u]? = some Pc.waiting at hu
                rw [hget] at hu
                by_cases htu : t = u
                · subst htu; simp at hu
                · simp [htu] at hu; exact hw u hu
              · have := uniq v _ hv rfl
                subst this; simp [hp] at hv
              · right; right
                refine ⟨v, ?_⟩
                show (setPc c t Pc.done).pcs[v]? = _
                rw [hget]
                by_cases htv : t = v
                · subst htv; simp [hp] at hv
                · simp [htv, hv]
            · intro _ hpn; exact absurd hpe hpn
            · intro u _; exact ⟨hpe, hb0⟩
        · cases hs
    · cases hs


/-! ### capstones -/

theorem step_len {c c' : Cfg ν σ} {ev : Ev} (hs : step? c ev = some c') : c'.pcs.length = c.pcs.length := by
  have hap : ∀ n, (applyRes c n).pcs = c.pcs := by
    intro n; unfold applyRes; cases Solver.res n <;> simp <;> split <;> simp
  cases ev <;> simp only [step?] at hs <;> (repeat' split at hs) <;> cases hs <;>
    simp [setPc, wakeAll, hap]

theorem reach_len {root : ν} {top T : Nat} {c : Cfg ν σ} (hr : Reach root top T c) : c.pcs.length = T := by
  induction hr with
  | init => simp [init]
  | step _ hs ih => rw [step_len hs, ih]

theorem reach_inv {root : ν} {top T : Nat} {c : Cfg ν σ} (hb : Bounded root)
    (htop : ∀ f sc, Desc f root → IsFeas f sc → sc ≤ top) (hr : Reach root top T c) : Inv root top c := by
  induction hr with
  | init => exact inv_init root top T htop
  | step _ hs ih => exact inv_step hb ih hs

theorem reach_linv {root : ν} {top T : Nat} {c : Cfg ν σ} (hT : 0 < T) (hr : Reach root top T c) : LInv c := by
  induction hr with
  | init => exact linv_init root top T hT
  | step _ hs ih => exact linv_step ih hs

/-- C04 (core): in every reachable, unfinished configuration some thread can take a real step. -/
theorem C04_no_deadlock {root : ν} {top T : Nat} {c : Cfg ν σ} (hT : 0 < T)
    (hr : Reach root top T c) (hnd : ¬ AllFinished c) :
    ∃ ev, ev.isWake = false ∧ (step? c ev).isSome = true :=
  no_deadlock (reach_linv hT hr) hnd

/-- C09 (core): when all workers have stopped, the incumbent is a solution of the tree and no
    feasible node of the tree scores more — for every thread count and every schedule. -/
theorem C09_final {root : ν} {top T : Nat} {c : Cfg ν σ} (hT : 0 < T) (hb : Bounded root)
    (htop : ∀ f sc, Desc f root → IsFeas f sc → sc ≤ top)
    (hr : Reach root top T c) (hd : AllDone c) :
    (∀ f sc, Desc f root → IsFeas f sc → c.best ≠ none ∧ sc ≤ c.bestScore) ∧
    (c.best = none ∨
      (∃ f sol, Desc f root ∧ Solver.res f = .feasible sol c.bestScore ∧ c.best = some sol)) := by
  have hinv := reach_inv hb htop hr
  have hl := reach_linv hT hr
  have hlen := reach_len hr
  have h0 : c.pcs[0]? = some Pc.done := by
    have : 0 < c.pcs.length := by omega
    have hx : c.pcs[0]? = some c.pcs[0] := List.getElem?_eq_getElem this
    rw [hx, hd 0 _ hx]
  have hpe := (hl.fin2 0 h0).1
  refine ⟨?_, hinv.inc⟩
  intro f sc hdf hf
  apply Classical.byContradiction
  intro hgt
  have hcond : c.best = none ∨ sc > c.bestScore := by
    by_cases hb : c.best = none
    · exact Or.inl hb
    · right
      apply Classical.byContradiction
      intro hle
      exact hgt ⟨hb, by omega⟩
  rcases hinv.cover f sc hdf hf hcond with ⟨n, ps, hm, _⟩ | ⟨n, ⟨u, hu⟩, _⟩
  · simp [hpe] at hm
  · rcases hu with hu | hu
    · have := hd u _ hu; cases this
    · have := hd u _ hu; cases this

/-- C03 for the engine: two finished runs — any thread counts, any schedules — agree on whether a
    solution was found and on its score. -/
theorem C03_engine {root : ν} {top T₁ T₂ : Nat} {c₁ c₂ : Cfg ν σ} (h1 : 0 < T₁) (h2 : 0 < T₂)
    (hb : Bounded root) (htop : ∀ f sc, Desc f root → IsFeas f sc → sc ≤ top)
    (hr1 : Reach root top T₁ c₁) (hd1 : AllDone c₁) (hr2 : Reach root top T₂ c₂) (hd2 : AllDone c₂) :
    (c₁.best = none ↔ c₂.best = none) ∧ (c₁.best ≠ none → c₁.bestScore = c₂.bestScore) := by
  obtain ⟨a1, b1⟩ := C09_final h1 hb htop hr1 hd1
  obtain ⟨a2, b2⟩ := C09_final h2 hb htop hr2 hd2
  refine ⟨⟨?_, ?_⟩, ?_⟩
  · intro hn
    rcases b2 with h | ⟨f, sol, hd, hf, _⟩
    · exact h
    · exact absurd hn (a1 f _ hd ⟨sol, hf⟩).1
  · intro hn
    rcases b1 with h | ⟨f, sol, hd, hf, _⟩
    · exact h
    · exact absurd hn (a2 f _ hd ⟨sol, hf⟩).1
  · intro hne
    rcases b1 with h | ⟨f1, s1, hd1', hf1, _⟩
    · exact absurd h hne
    · have hne2 : c₂.best ≠ none := (a2 f1 _ hd1' ⟨s1, hf1⟩).1
      rcases b2 with h | ⟨f2, s2, hd2', hf2, _⟩
      · exact absurd h hne2
      · have := (a1 f2 _ hd2' ⟨s2, hf2⟩).2
        have := (a2 f1 _ hd1' ⟨s1, hf1⟩).2
        omega

#print axioms C09_final
#print axioms C04_no_deadlock
#print axioms C03_engine

/-! ### statistics (bab.rs:60-80, 230-272) as a layer on top of the transition system

The counters never influence control flow, so they are computed alongside. `gen` (subproblems
generated so far) and `panicked` are ghost counters. -/

structure Stats where
  executed : Nat := 0
  noSol : Nat := 0
  infeasible : Nat := 0
  feasible : Nat := 0
  newBest : Nat := 0
  bound : Nat := 0
  gen : Nat := 1
  panicked : Nat := 0

def statsUpd (c : Cfg ν σ) (st : Stats) : Ev → Stats
  | .acquire t =>
    match c.lock, c.pcs[t]? with
    | none, some (.want (some n)) =>
      match Solver.res n with
      | .panic => { st with panicked := st.panicked + 1 }
      | .noSol => { st with executed := st.executed + 1, noSol := st.noSol + 1 }
      | .feasible _ sc =>
        { st with executed := st.executed + 1, feasible := st.feasible + 1,
                  newBest := if c.best = none ∨ sc > c.bestScore then st.newBest + 1 else st.newBest }
      | .infeasible _ =>
        { st with executed := st.executed + 1, infeasible := st.infeasible + 1,
                  gen := st.gen + (Solver.kids n).length }
    | _, _ => st
  | .top t k =>
    match c.pcs[t]?, c.pending[k]? with
    | some .holding, some (_, ps) => if c.best = none ∨ ps > c.bestScore then st else { st with bound := st.bound + 1 }
    | _, _ => st
  | _ => st

/-- the product system -/
def stepS (c : Cfg ν σ) (st : Stats) (ev : Ev) : Option (Cfg ν σ × Stats) :=
  (step? c ev).map (fun c' => (c', statsUpd c st ev))

structure SInv (c : Cfg ν σ) (st : Stats) : Prop where
  exec : st.executed = st.noSol + st.infeasible + st.feasible
  gen : st.gen = st.executed + st.bound + c.pending.length + c.busy + st.panicked

theorem sinv_init (root : ν) (top T : Nat) : SInv (init root top T : Cfg ν σ) {} := by
  refine ⟨rfl, ?_⟩
  simp [init]

theorem sinv_step {c c' : Cfg ν σ} {st : Stats} {ev : Ev} (hl : LInv c) (h : SInv c st)
    (hs : step? c ev = some c') : SInv c' (statsUpd c st ev) := by
  cases ev with
  | wake t =>
    simp only [step?] at hs
    split at hs
    · cases hs; exact ⟨h.exec, by simpa [statsUpd, setPc] using h.gen⟩
    · cases hs
  | solve t =>
    simp only [step?] at hs
    split at hs
    · cases hs; exact ⟨h.exec, by simpa [statsUpd, setPc] using h.gen⟩
    · cases hs
  | die t =>
    simp only [step?] at hs
    split at hs
    · cases hs; exact ⟨h.exec, by simpa [statsUpd] using h.gen⟩
    · cases hs
  | after t =>
    simp only [step?] at hs
    split at hs
    · split at hs
      · cases hs; exact ⟨h.exec, by simpa [statsUpd] using h.gen⟩
      · cases hs; exact ⟨h.exec, by simpa [statsUpd, setPc] using h.gen⟩
    · cases hs
  | top t k =>
    simp only [step?] at hs
    split at hs
    · rename_i hp
      split at hs
      · rename_i n ps hk
        have hlen : (c.pending.eraseIdx k).length + 1 = c.pending.length := by
          have : k < c.pending.length := by
            rcases Nat.lt_or_ge k c.pending.length with h' | h'
            · exact h'
            · simp [List.getElem?_eq_none h'] at hk
          rw [List.length_eraseIdx]; simp [this]; omega
        split at hs
        · rename_i hgt
          cases hs
          refine ⟨by simp only [statsUpd, hp, hk]; simp only [hgt, if_true]; exact h.exec, ?_⟩
          simp only [statsUpd, hp, hk]
          simp only [hgt, if_true]
          have := h.gen
          simp only [setPc]
          omega
        · rename_i hgt
          cases hs
          refine ⟨by simp only [statsUpd, hp, hk]; simp only [hgt, if_false]; exact h.exec, ?_⟩
          simp only [statsUpd, hp, hk]
          simp only [hgt, if_false]
          have := h.gen
          simp only [setPc]
          omega
      · rename_i hk
        have hk' : c.pending[k]? = none := hk
        split at hs
        · split at hs
          · cases hs; exact ⟨by simp only [statsUpd, hp, hk']; exact h.exec, by simp only [statsUpd, hp, hk']; simpa [setPc] using h.gen⟩
          · cases hs; exact ⟨by simp only [statsUpd, hp, hk']; exact h.exec, by simp only [statsUpd, hp, hk']; simpa [setPc] using h.gen⟩
        · cases hs
    · rename_i hnp
      cases hs
  | acquire t =>
    simp only [step?] at hs
    split at hs
    · rename_i hl' hp
      cases hs
      exact ⟨by simp only [statsUpd, hl', hp]; exact h.exec, by simp only [statsUpd, hl', hp]; simpa [setPc] using h.gen⟩
    · rename_i n hl' hp
      have hpos : 0 < c.busy := by
        rw [hl.busy]
        exact List.countP_pos_iff.2 ⟨_, List.mem_of_getElem? hp, rfl⟩
      have hgen := h.gen
      have hexec := h.exec
      by_cases hpn : isPanic (Solver.res n) = true
      · simp only [hpn, if_true] at hs
        cases hs
        cases hres : Solver.res n <;> simp [hres, isPanic] at hpn
        refine ⟨by simp only [statsUpd, hl', hp, hres]; exact hexec, ?_⟩
        simp only [statsUpd, hl', hp, hres, setPc]
        omega
      · have hpn' : isPanic (Solver.res n) = false := by simpa using hpn
        simp only [hpn', Bool.false_eq_true, if_false] at hs
        cases hs
        cases hres : Solver.res n with
        | panic => simp [hres, isPanic] at hpn'
        | noSol =>
          refine ⟨by simp only [statsUpd, hl', hp, hres]; omega, ?_⟩
          simp only [statsUpd, hl', hp, hres, setPc, applyRes]
          omega
        | feasible sol sc =>
          refine ⟨by simp only [statsUpd, hl', hp, hres]; omega, ?_⟩
          simp only [statsUpd, hl', hp, hres, setPc, applyRes]
          split <;> simp <;> omega
        | infeasible sc =>
          refine ⟨by simp only [statsUpd, hl', hp, hres]; omega, ?_⟩
          simp only [statsUpd, hl', hp, hres, setPc, applyRes, List.length_append, List.length_map]
          omega
    · cases hs

#print axioms sinv_step
end Eng3
