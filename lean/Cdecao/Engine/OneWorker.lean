import Cdecao.Engine.Final
/-! # One worker: the search is a function of the heap's choices

The transition system `step?` abstracts the order of the priority queue: `top t k` may hand out ANY
pending entry `k`. With one worker thread this is the ONLY choice there is: in every configuration
with a single program counter at most one kind of event is enabled, and two enabled events lead to
the same configuration unless they are two pops of different pending entries. Hence, once the
queue's behaviour is fixed as a function of what happened so far (`pol`, the history ↦ the index
popped next — `std::collections::BinaryHeap` is such a function), the whole run, its final
configuration and the incumbent in it are determined: no interleaving, no wake-up choice and no
spurious wake-up is left (the single worker never waits). This is the model-level content of
"with one worker thread the written assignments do not change" (C13): post-reader determinism
rests on `BinaryHeap` being deterministic and on the node solver being a function, nothing else. -/
namespace Eng3
variable {ν σ : Type} [Solver ν σ]

def Ev.thread : Ev → Nat
  | .acquire t | .top t _ | .after t | .solve t | .wake t | .die t => t

theorem step_thread_lt {c c' : Cfg ν σ} {ev : Ev} (h : step? c ev = some c') : ev.thread < c.pcs.length := by
  have key : ∀ t, (c.pcs[t]? = none → False) → t < c.pcs.length := by
    intro t ht
    rcases Nat.lt_or_ge t c.pcs.length with h | h
    · exact h
    · exact absurd (List.getElem?_eq_none h) (by intro hn; exact ht hn)
  cases ev <;> simp only [Ev.thread] <;> apply key <;> intro hn <;> simp [step?, hn] at h

/-- with a single program counter two enabled events lead to the same configuration, unless they
    are pops of two different pending entries -/
theorem one_worker_step_det {c c1 c2 : Cfg ν σ} {e1 e2 : Ev} (hlen : c.pcs.length = 1)
    (h1 : step? c e1 = some c1) (h2 : step? c e2 = some c2) :
    c1 = c2 ∨ ∃ k1 k2, e1 = .top 0 k1 ∧ e2 = .top 0 k2 ∧ k1 ≠ k2 ∧ k1 < c.pending.length ∧ k2 < c.pending.length := by
  have t1 := step_thread_lt h1
  have t2 := step_thread_lt h2
  rw [hlen] at t1 t2
  obtain ⟨pc, hpc⟩ : ∃ pc, c.pcs = [pc] := by
    match hp : c.pcs, hlen with
    | [pc], _ => exact ⟨pc, rfl⟩
  have hget : c.pcs[0]? = some pc := by rw [hpc]; rfl
  cases e1 <;> cases e2 <;> simp only [Ev.thread, Nat.lt_one_iff] at t1 t2 <;> subst t1 <;> subst t2
  all_goals (simp only [step?, hget] at h1 h2)
  all_goals (cases pc <;> try (simp at h1 h2; done))
  -- remaining: same kind of event on both sides (or impossible combinations that simp leaves)
  all_goals first
    | (left; rw [h1] at h2; exact Option.some.inj h2)
    | skip
  rename_i k1 k2
  by_cases hk : k1 = k2
  · subst hk; left; rw [h1] at h2; exact Option.some.inj h2
  · simp only at h1 h2
    cases hp1 : c.pending[k1]? with
    | none =>
      rw [hp1] at h1
      simp only at h1
      by_cases he : c.pending = []
      · have hp2 : c.pending[k2]? = none := by rw [he]; rfl
        rw [hp2] at h2
        left; rw [h1] at h2; exact Option.some.inj h2
      · simp [he] at h1
    | some e1 =>
      cases hp2 : c.pending[k2]? with
      | none =>
        rw [hp2] at h2
        simp only at h2
        by_cases he : c.pending = []
        · rw [he] at hp1; simp at hp1
        · simp [he] at h2
      | some e2 =>
        right
        refine ⟨k1, k2, rfl, rfl, hk, ?_, ?_⟩
        · exact (List.getElem?_eq_some_iff.1 hp1).1
        · exact (List.getElem?_eq_some_iff.1 hp2).1

/-! ### runs under a fixed queue behaviour -/

/-- does the event respect the queue's choice `p`? (only pops are constrained) -/
def okEv (p : Nat) : Ev → Bool
  | .top _ k => k == p
  | _ => true

/-- execute a list of events under the queue policy `pol` (the configurations visited so far ↦ the
    index popped next; the real heap's layout is a function of the pushes and pops so far, which
    the visited configurations determine) -/
def execP (pol : List (Cfg ν σ) → Nat) : List (Cfg ν σ) → Cfg ν σ → List Ev → Option (Cfg ν σ)
  | _, c, [] => some c
  | hist, c, e :: es =>
    if okEv (pol hist) e then
      match step? c e with
      | some c' => execP pol (hist ++ [c']) c' es
      | none => none
    else none

/-- two enabled events that both respect the policy lead to the same configuration -/
theorem one_worker_step_pol {c c1 c2 : Cfg ν σ} {e1 e2 : Ev} (hlen : c.pcs.length = 1) (p : Nat)
    (f1 : okEv p e1 = true) (f2 : okEv p e2 = true)
    (h1 : step? c e1 = some c1) (h2 : step? c e2 = some c2) : c1 = c2 := by
  rcases one_worker_step_det hlen h1 h2 with h | ⟨k1, k2, rfl, rfl, hne, -, -⟩
  · exact h
  · simp only [okEv, beq_iff_eq] at f1 f2
    exact absurd (f1.trans f2.symm) hne

/-- nothing is enabled once every worker has stopped -/
theorem finished_no_step {c : Cfg ν σ} (h : AllFinished c) (e : Ev) : step? c e = none := by
  have key : ∀ t : Nat, c.pcs[t]? = none ∨ c.pcs[t]? = some Pc.done ∨ c.pcs[t]? = some Pc.dead := by
    intro t
    cases hp : c.pcs[t]? with
    | none => exact Or.inl rfl
    | some pc => rcases h t pc hp with rfl | rfl <;> simp
  cases e with
  | acquire t => simp only [step?]; rcases key t with h | h | h <;> rw [h] <;> (split <;> simp_all)
  | top t k => simp only [step?]; rcases key t with h | h | h <;> rw [h]
  | after t => simp only [step?]; rcases key t with h | h | h <;> rw [h]
  | solve t => simp only [step?]; rcases key t with h | h | h <;> rw [h]
  | wake t => simp only [step?]; rcases key t with h | h | h <;> rw [h]
  | die t => simp only [step?]; rcases key t with h | h | h <;> rw [h]

/-- **one worker: the outcome is determined by the queue's behaviour.** Two complete runs (ending
    with the worker stopped) from the same configuration under the same queue policy end in the
    same configuration — same incumbent, same score —, however the events are named or scheduled -/
theorem one_worker_final_det (pol : List (Cfg ν σ) → Nat) :
    ∀ (es1 es2 : List Ev) (hist : List (Cfg ν σ)) (c c1 c2 : Cfg ν σ), c.pcs.length = 1 →
      execP pol hist c es1 = some c1 → execP pol hist c es2 = some c2 →
      AllFinished c1 → AllFinished c2 → c1 = c2
  | [], [], _, c, c1, c2, _, h1, h2, _, _ => by
    simp only [execP, Option.some.injEq] at h1 h2
    exact h1.symm.trans h2
  | [], e :: _, _, c, c1, c2, _, h1, h2, f1, _ => by
    simp only [execP, Option.some.injEq] at h1
    subst h1
    simp only [execP, finished_no_step f1 e] at h2
    split at h2 <;> cases h2
  | e :: _, [], _, c, c1, c2, _, h1, h2, _, f2 => by
    simp only [execP, Option.some.injEq] at h2
    subst h2
    simp only [execP, finished_no_step f2 e] at h1
    split at h1 <;> cases h1
  | e1 :: es1, e2 :: es2, hist, c, c1, c2, hlen, h1, h2, f1, f2 => by
    simp only [execP] at h1 h2
    split at h1
    · rename_i ok1
      split at h2
      · rename_i ok2
        cases hs1 : step? c e1 with
        | none => rw [hs1] at h1; cases h1
        | some d1 =>
          cases hs2 : step? c e2 with
          | none => rw [hs2] at h2; cases h2
          | some d2 =>
            rw [hs1] at h1; rw [hs2] at h2
            simp only at h1 h2
            have hd : d1 = d2 := one_worker_step_pol hlen (pol hist) ok1 ok2 hs1 hs2
            subst hd
            exact one_worker_final_det pol es1 es2 (hist ++ [d1]) d1 c1 c2 ((step_len hs1).trans hlen) h1 h2 f1 f2
      · cases h2
    · cases h1

/-- the single worker never sleeps: `waiting` is unreachable, so neither a wake-up choice nor a
    spurious wake-up exists with one worker -/
theorem one_worker_never_waits {root : ν} {top : Nat} {c : Cfg ν σ} (hr : Reach root top 1 c) :
    c.pcs[0]? ≠ some Pc.waiting := by
  induction hr with
  | init => simp [init]
  | @step c ev c' hr hs ih =>
    have hl := reach_linv (Nat.one_pos) hr
    have hlen := reach_len hr
    obtain ⟨pc, hpc⟩ : ∃ pc, c.pcs = [pc] := by
      match hp : c.pcs, hlen with
      | [pc], _ => exact ⟨pc, rfl⟩
    have hget : c.pcs[0]? = some pc := by rw [hpc]; rfl
    have ht := step_thread_lt hs
    rw [hlen] at ht
    have hb := hl.busy
    rw [hpc] at hb
    intro hw
    cases ev <;> simp only [Ev.thread, Nat.lt_one_iff] at ht <;> subst ht <;> simp only [step?, hget] at hs
    all_goals (cases pc <;> try (simp at hs; done))
    all_goals (try (simp [hget] at ih; done))
    all_goals (repeat' split at hs)
    all_goals (try contradiction)
    all_goals (simp only [Option.some.injEq] at hs; subst hs; simp [setPc, hpc, wakeAll] at hw)
    · rw [applyRes_pcs, hpc] at hw; simp at hw
    · simp [isFlight] at hb; omega

end Eng3
