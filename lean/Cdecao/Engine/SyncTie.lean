import Cdecao.Model.SyncConstants
import Cdecao.Engine.Core
/-! # Structural tie of the engine model to bab.rs: the synchronisation skeleton

The transition system `Eng3.step?` (Engine/Core.lean) was written against this shape of bab.rs:

* ALL shared state — the queue, the busy counter, the incumbent, its score, the statistics — lives
  in one `struct SharedState` behind ONE `Mutex`; there is one `Condvar`; nothing else is shared
  (no atomics, no second lock, no timed or conditional waits, no channels, no `unsafe`);
* the synchronisation operations occur in the source in this order: `solve` spawns the workers and
  joins them; `worker` takes the lock once at the top (`acquire`), gives it up around the node
  solver call (`solve` events run outside the lock) and re-takes it afterwards (`after`); the
  failure path (`catch_unwind` … `lock`, `notify_all`, `resume_unwind`) is the `die` event;
  `notify_one` per pushed child beyond the first, `notify_all` at the finished-check, `wait` when
  there is nothing to pop.

`bin/gen_constants.py` re-extracts the skeleton from /repo/src/bab.rs on every run into
`Const.BAB_*`; the theorem below compares it with the one recorded here. A change that moves the
busy counter into an atomic, adds a lock-free path or a second lock, or reorders / adds / removes a
synchronisation operation changes the generated constants and this file no longer checks: the model
is then no longer known to describe the code (the scheduler shim switches threads only at `lock`,
`wait` and `join`, so it could not exhibit an interleaving inside such a lock-free path). -/
namespace Eng3

def sharedFields : List String := ["pending_nodes", "busy_threads", "best_result", "best_score", "statistics"]
/-- the types of the shared fields: the queue is a `BinaryHeap` — a multiset of pending entries (two
    entries that compare equal are both kept), which is how `Cfg.pending` models it -/
def sharedTypes : List String :=
  ["BinaryHeap<PendingProblem<SubProblem, Score>>", "u32", "Option<Solution>", "Score", "Statistics"]
def syncImports : List String := ["Arc", "Condvar", "Mutex"]
def syncOps : List String :=
  ["spawn", "join",                                   -- solve: start the workers, join them in order
   "lock",                                            -- worker: `acquire`
   "catch_unwind", "lock", "notify_all", "resume_unwind",   -- failing node solver: `die`
   "lock",                                            -- after the node solver returned: `after`
   "notify_one",                                      -- per pushed child beyond the first
   "notify_all",                                      -- finished-check
   "wait"]                                            -- nothing to pop

/-- the wiring of `caobab::solve`, token by token (parameter list and body, comments stripped): the
    parameters `rooms`, `report_no_solution`, `num_threads`; `let … = precompute_problem(…, rooms)`;
    `bab::solve(` closure → `run_bab_node(…, report_no_solution)`, root `BABNode { … }` (the return
    type names `BABNode` first), `num_threads )`. The caobab-level theorems are about the engine
    instantiated with exactly this solver (`N2.solverOf`): the node solver is `run_bab_node` on the
    precomputed problem and nothing else, the worker count reaches only the engine -/
def solveWiring : List String :=
  ["rooms", "report_no_solution", "num_threads", "let", "precompute_problem", "rooms", "bab::solve", "BABNode",
   "run_bab_node", "report_no_solution", "BABNode", "num_threads"]

theorem solve_wiring_tie : Const.CAOBAB_SOLVE_WIRING = solveWiring := rfl

theorem sync_tie :
    Const.BAB_SHARED_FIELDS = sharedFields ∧ Const.BAB_SYNC_IMPORTS = syncImports ∧
    Const.BAB_SYNC_OPS = syncOps ∧ Const.BAB_SYNC_OTHER = [] ∧ Const.BAB_SHARED_TYPES = sharedTypes :=
  ⟨rfl, rfl, rfl, rfl, rfl⟩

end Eng3
