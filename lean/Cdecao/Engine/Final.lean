import Cdecao.Engine.Core
/-! # Engine corollaries for C04 and C19

* `ReachS`: reachability in the product of the transition system with the statistics layer;
  `reachS_sinv` (the statistics equations hold in every reachable pair), `reachS_pinv` (the ghost
  counter `panicked` is the number of workers that are `dying` or `dead`), `stats_at_done`,
  `stats_at_finished`.
* `step_keeps_stopped`: `done` and `dead` are absorbing.
* `outcome`: the join loop of `bab::solve`; `failure_reported`.

Core only (no Mathlib). -/
namespace Eng3
variable {ν σ : Type} [Solver ν σ]

/-! ### product reachability -/

/-- reachability in the product system (configuration, statistics): start with the initial
    configuration and the default counters (`gen = 1`: the root), step with `stepS`. -/
inductive ReachS (root : ν) (top T : Nat) : Cfg ν σ × Stats → Prop where
  | init : ReachS root top T (init root top T, {})
  | step {p p' : Cfg ν σ × Stats} {ev : Ev} :
      ReachS root top T p → stepS p.1 p.2 ev = some p' → ReachS root top T p'

theorem stepS_eq_some {c : Cfg ν σ} {st : Stats} {ev : Ev} {p' : Cfg ν σ × Stats}
    (h : stepS c st ev = some p') : step? c ev = some p'.1 ∧ p'.2 = statsUpd c st ev := by
  unfold stepS at h
  cases hs : step? c ev with
  | none => simp [hs] at h
  | some c' =>
    simp only [hs, Option.map_some, Option.some.injEq] at h
    subst h
    exact ⟨rfl, rfl⟩

theorem stepS_of_step {c c' : Cfg ν σ} (st : Stats) {ev : Ev} (h : step? c ev = some c') :
    stepS c st ev = some (c', statsUpd c st ev) := by
  simp [stepS, h]

/-- the first component of a reachable pair is a reachable configuration -/
theorem reachS_reach {root : ν} {top T : Nat} {p : Cfg ν σ × Stats} (h : ReachS root top T p) :
    Reach root top T p.1 := by
  induction h with
  | init => exact Reach.init
  | step _ hs ih => exact Reach.step ih (stepS_eq_some hs).1

/-- every reachable configuration carries some statistics (the layer never blocks a step) -/
theorem reach_reachS {root : ν} {top T : Nat} {c : Cfg ν σ} (h : Reach root top T c) :
    ∃ st, ReachS root top T (c, st) := by
  induction h with
  | init => exact ⟨{}, ReachS.init⟩
  | step _ hs ih =>
    obtain ⟨st, hst⟩ := ih
    exact ⟨_, ReachS.step hst (stepS_of_step st hs)⟩

/-- the statistics equations hold in every reachable pair -/
theorem reachS_sinv {root : ν} {top T : Nat} {p : Cfg ν σ × Stats} (hT : 0 < T)
    (h : ReachS root top T p) : SInv p.1 p.2 := by
  induction h with
  | init => exact sinv_init root top T
  | step hr hs ih =>
    obtain ⟨h1, h2⟩ := stepS_eq_some hs
    rw [h2]
    exact sinv_step (reach_linv hT (reachS_reach hr)) ih h1

/-! ### the panic counter -/

/-- the worker was ended by a panic of the node solver (or is about to be) -/
def isGone : Pc ν → Bool
  | .dying => true
  | .dead => true
  | _ => false

/-- `panicked` counts the workers that are `dying` or `dead` -/
def PInv (c : Cfg ν σ) (st : Stats) : Prop := st.panicked = c.pcs.countP isGone

theorem countP_set_of_getElem? {α : Type} (p : α → Bool) (l : List α) (t : Nat) (old new : α)
    (h : l[t]? = some old) :
    (l.set t new).countP p + (if p old then 1 else 0) = l.countP p + (if p new then 1 else 0) := by
  have hlt := lt_of_getElem?_some h
  rw [List.countP_set hlt, getElem_of_getElem? h]
  have : (if p old = true then 1 else 0) ≤ l.countP p := by
    split
    · rename_i hf
      apply List.countP_pos_iff.2
      exact ⟨old, List.mem_of_getElem? h, hf⟩
    · omega
  omega

theorem countP_gone_set_keep {pcs : List (Pc ν)} {t : Nat} {old : Pc ν} (new : Pc ν)
    (h : pcs[t]? = some old) (ho : isGone old = false) (hn : isGone new = false) :
    (pcs.set t new).countP isGone = pcs.countP isGone := by
  have := countP_set_of_getElem? isGone pcs t old new h
  simp [ho, hn] at this
  exact this

theorem countP_gone_wakeAll (pcs : List (Pc ν)) : (wakeAll pcs).countP isGone = pcs.countP isGone := by
  simp only [wakeAll, List.countP_map]
  congr 1
  funext pc
  cases pc <;> simp [isGone]

theorem wakeAll_getElem?_of {pcs : List (Pc ν)} {t : Nat} {pc : Pc ν} (h : pcs[t]? = some pc)
    (hw : pc ≠ .waiting) : (wakeAll pcs)[t]? = some pc := by
  rw [wakeAll_getElem?, h]
  cases pc <;> first | rfl | exact absurd rfl hw

theorem pinv_init (root : ν) (top T : Nat) : PInv (init root top T : Cfg ν σ) {} := by
  simp [PInv, init, List.countP_replicate, isGone]

theorem applyRes_pcs (c : Cfg ν σ) (n : ν) : (applyRes c n).pcs = c.pcs := by
  unfold applyRes; cases Solver.res n <;> simp <;> split <;> simp

theorem pinv_step {c c' : Cfg ν σ} {st : Stats} {ev : Ev} (h : PInv c st)
    (hs : step? c ev = some c') : PInv c' (statsUpd c st ev) := by
  unfold PInv at *
  cases ev with
  | wake t =>
    simp only [step?] at hs
    split at hs
    · rename_i hp
      cases hs
      simp only [statsUpd, setPc]
      rw [countP_gone_set_keep _ hp rfl rfl]; exact h
    · cases hs
  | solve t =>
    simp only [step?] at hs
    split at hs
    · rename_i n hp
      cases hs
      simp only [statsUpd, setPc]
      rw [countP_gone_set_keep _ hp rfl rfl]; exact h
    · cases hs
  | die t =>
    simp only [step?] at hs
    split at hs
    · rename_i hp
      cases hs
      simp only [statsUpd]
      have h1 : (wakeAll c.pcs)[t]? = some Pc.dying := wakeAll_getElem?_of hp (by simp)
      have := countP_set_of_getElem? isGone (wakeAll c.pcs) t _ Pc.dead h1
      simp only [isGone, if_true] at this
      rw [countP_gone_wakeAll] at this
      omega
    · cases hs
  | after t =>
    simp only [step?] at hs
    split at hs
    · rename_i hp
      split at hs
      · cases hs
        simp only [statsUpd]
        have h1 : (wakeAll c.pcs)[t]? = some Pc.afterPop := wakeAll_getElem?_of hp (by simp)
        rw [countP_gone_set_keep _ h1 rfl rfl, countP_gone_wakeAll]; exact h
      · cases hs
        simp only [statsUpd, setPc]
        rw [countP_gone_set_keep _ hp rfl rfl]; exact h
    · cases hs
  | top t k =>
    have hst : (statsUpd c st (.top t k)).panicked = st.panicked := by
      simp only [statsUpd]
      split
      · split <;> rfl
      · rfl
    rw [hst]
    simp only [step?] at hs
    split at hs
    · rename_i hp
      split at hs
      · split at hs
        · cases hs
          simp only [setPc]
          rw [countP_gone_set_keep _ hp rfl rfl]; exact h
        · cases hs
          simp only [setPc]
          rw [countP_gone_set_keep _ hp rfl rfl]; exact h
      · split at hs
        · split at hs
          · cases hs
            simp only [setPc]
            rw [countP_gone_set_keep _ hp rfl rfl]; exact h
          · cases hs
            simp only [setPc]
            rw [countP_gone_set_keep _ hp rfl rfl]; exact h
        · cases hs
    · cases hs
  | acquire t =>
    simp only [step?] at hs
    split at hs
    · rename_i hl' hp
      cases hs
      simp only [statsUpd, hl', hp, setPc]
      rw [countP_gone_set_keep _ hp rfl rfl]; exact h
    · rename_i n hl' hp
      by_cases hpn : isPanic (Solver.res n) = true
      · simp only [hpn, if_true] at hs
        cases hs
        cases hres : Solver.res n <;> simp [hres, isPanic] at hpn
        simp only [statsUpd, hl', hp, hres, setPc]
        have := countP_set_of_getElem? isGone c.pcs t _ Pc.dying hp
        simp [isGone] at this
        omega
      · have hpn' : isPanic (Solver.res n) = false := by simpa using hpn
        simp only [hpn', Bool.false_eq_true, if_false] at hs
        cases hs
        have hcnt : ((applyRes c n).pcs.set t Pc.afterPop).countP isGone = c.pcs.countP isGone := by
          rw [applyRes_pcs, countP_gone_set_keep _ hp rfl rfl]
        cases hres : Solver.res n with
        | panic => simp [hres, isPanic] at hpn'
        | noSol => simp only [statsUpd, hl', hp, hres, setPc]; rw [hcnt]; exact h
        | feasible sol sc => simp only [statsUpd, hl', hp, hres, setPc]; rw [hcnt]; exact h
        | infeasible sc => simp only [statsUpd, hl', hp, hres, setPc]; rw [hcnt]; exact h
    · cases hs

/-- in every reachable pair `panicked` is the number of workers that are `dying` or `dead` -/
theorem reachS_pinv {root : ν} {top T : Nat} {p : Cfg ν σ × Stats}
    (h : ReachS root top T p) : PInv p.1 p.2 := by
  induction h with
  | init => exact pinv_init root top T
  | step _ hs ih =>
    obtain ⟨h1, h2⟩ := stepS_eq_some hs
    rw [h2]
    exact pinv_step ih h1

/-- `panicked > 0` exactly when some worker is `dying` or `dead` -/
theorem panicked_pos_iff {root : ν} {top T : Nat} {c : Cfg ν σ} {st : Stats}
    (h : ReachS root top T (c, st)) :
    0 < st.panicked ↔ ∃ t : Nat, c.pcs[t]? = some Pc.dying ∨ c.pcs[t]? = some Pc.dead := by
  have hp : st.panicked = c.pcs.countP isGone := reachS_pinv h
  rw [hp]
  constructor
  · intro hpos
    obtain ⟨i, a, hi, ha⟩ := countP_pos_exists hpos
    refine ⟨i, ?_⟩
    cases a <;> simp [isGone] at ha
    · exact Or.inl hi
    · exact Or.inr hi
  · rintro ⟨t, ht | ht⟩
    · exact List.countP_pos_iff.2 ⟨_, List.mem_of_getElem? ht, rfl⟩
    · exact List.countP_pos_iff.2 ⟨_, List.mem_of_getElem? ht, rfl⟩

/-- C04: when all workers have stopped normally, every generated subproblem has been either
    executed or bounded, and every executed one has exactly one verdict. -/
theorem stats_at_done {root : ν} {top T : Nat} {c : Cfg ν σ} {st : Stats} (hT : 0 < T)
    (hr : ReachS root top T (c, st)) (hd : AllDone c) :
    st.executed = st.noSol + st.infeasible + st.feasible ∧ st.gen = st.executed + st.bound := by
  have hs : SInv c st := reachS_sinv hT hr
  have hp : st.panicked = c.pcs.countP isGone := reachS_pinv hr
  have hreach : Reach root top T c := reachS_reach hr
  have hl := reach_linv hT hreach
  have hlen := reach_len hreach
  have h0 : c.pcs[0]? = some Pc.done := by
    have : 0 < c.pcs.length := by omega
    have hx : c.pcs[0]? = some c.pcs[0] := List.getElem?_eq_getElem this
    rw [hx, hd 0 _ hx]
  obtain ⟨hpe, hb⟩ := hl.fin2 0 h0
  have hz : c.pcs.countP isGone = 0 := by
    rw [List.countP_eq_zero]
    intro a ha
    obtain ⟨i, hi⟩ := List.mem_iff_getElem?.1 ha
    rw [hd i a hi]; simp [isGone]
  refine ⟨hs.exec, ?_⟩
  have := hs.gen
  rw [hpe, hb, hp, hz] at this
  simpa using this

/-- the same when some workers were ended by a panic: what remains in the queue and the
    subproblems whose solver panicked are the only ones not accounted for -/
theorem stats_at_finished {root : ν} {top T : Nat} {c : Cfg ν σ} {st : Stats} (hT : 0 < T)
    (hr : ReachS root top T (c, st)) (hd : AllFinished c) :
    st.executed = st.noSol + st.infeasible + st.feasible ∧
    st.gen = st.executed + st.bound + c.pending.length + st.panicked ∧
    st.panicked = c.pcs.countP (fun pc => match pc with | .dead => true | _ => false) := by
  have hs : SInv c st := reachS_sinv hT hr
  have hp : st.panicked = c.pcs.countP isGone := reachS_pinv hr
  have hl := reach_linv hT (reachS_reach hr)
  have hb : c.busy = 0 := by
    rw [hl.busy, List.countP_eq_zero]
    intro a ha
    obtain ⟨i, hi⟩ := List.mem_iff_getElem?.1 ha
    rcases hd i a hi with rfl | rfl <;> simp [isFlight]
  refine ⟨hs.exec, ?_, ?_⟩
  · have := hs.gen
    rw [hb] at this
    simpa using this
  · rw [hp]
    apply List.countP_congr
    intro a ha
    obtain ⟨i, hi⟩ := List.mem_iff_getElem?.1 ha
    rcases hd i a hi with rfl | rfl <;> simp [isGone]

/-! ### `done` and `dead` are absorbing -/

/-- every step changes the program counter of exactly one worker, which has not stopped, and
    possibly wakes sleepers -/
theorem step_shape {c c' : Cfg ν σ} {ev : Ev} (hs : step? c ev = some c') :
    ∃ (u : Nat) (old new : Pc ν), c.pcs[u]? = some old ∧ old ≠ .done ∧ old ≠ .dead ∧
      (c'.pcs = c.pcs.set u new ∨ c'.pcs = (wakeAll c.pcs).set u new) := by
  cases ev with
  | acquire t =>
    simp only [step?] at hs
    split at hs
    · rename_i hl hp
      cases hs
      exact ⟨t, _, .holding, hp, by simp, by simp, Or.inl rfl⟩
    · rename_i n hl hp
      split at hs
      · cases hs
        exact ⟨t, _, .dying, hp, by simp, by simp, Or.inl rfl⟩
      · cases hs
        exact ⟨t, _, .afterPop, hp, by simp, by simp, Or.inl (by simp [setPc, applyRes_pcs])⟩
    · cases hs
  | top t k =>
    simp only [step?] at hs
    split at hs
    · rename_i hp
      split at hs
      · split at hs
        · cases hs; exact ⟨t, _, _, hp, by simp, by simp, Or.inl rfl⟩
        · cases hs; exact ⟨t, _, _, hp, by simp, by simp, Or.inl rfl⟩
      · split at hs
        · split at hs
          · cases hs; exact ⟨t, _, _, hp, by simp, by simp, Or.inl rfl⟩
          · cases hs; exact ⟨t, _, _, hp, by simp, by simp, Or.inl rfl⟩
        · cases hs
    · cases hs
  | after t =>
    simp only [step?] at hs
    split at hs
    · rename_i hp
      split at hs
      · cases hs; exact ⟨t, _, _, hp, by simp, by simp, Or.inr rfl⟩
      · cases hs; exact ⟨t, _, _, hp, by simp, by simp, Or.inl rfl⟩
    · cases hs
  | solve t =>
    simp only [step?] at hs
    split at hs
    · rename_i n hp
      cases hs; exact ⟨t, _, _, hp, by simp, by simp, Or.inl rfl⟩
    · cases hs
  | wake t =>
    simp only [step?] at hs
    split at hs
    · rename_i hp
      cases hs; exact ⟨t, _, _, hp, by simp, by simp, Or.inl rfl⟩
    · cases hs
  | die t =>
    simp only [step?] at hs
    split at hs
    · rename_i hp
      cases hs; exact ⟨t, _, _, hp, by simp, by simp, Or.inr rfl⟩
    · cases hs

/-- a worker that has stopped (`done` or `dead`) keeps its state under every step -/
theorem step_keeps_stopped {c c' : Cfg ν σ} {ev : Ev} (hs : step? c ev = some c') {t : Nat}
    {pc : Pc ν} (hp : c.pcs[t]? = some pc) (hst : pc = .done ∨ pc = .dead) :
    c'.pcs[t]? = some pc := by
  obtain ⟨u, old, new, hu, h1, h2, hsh⟩ := step_shape hs
  have hne : u ≠ t := by
    intro e; subst e
    rw [hu] at hp
    cases hp
    rcases hst with e | e
    · exact h1 e
    · exact h2 e
  rcases hsh with e | e
  · rw [e, List.getElem?_set_ne hne]; exact hp
  · rw [e, List.getElem?_set_ne hne]
    exact wakeAll_getElem?_of hp (by rcases hst with e | e <;> simp [e])

/-- C04/C19 absorbing: once `done`, always `done` -/
theorem done_absorbing {c c' : Cfg ν σ} {ev : Ev} (hs : step? c ev = some c') {t : Nat}
    (hp : c.pcs[t]? = some Pc.done) : c'.pcs[t]? = some Pc.done :=
  step_keeps_stopped hs hp (Or.inl rfl)

/-- C19 absorbing: once `dead`, always `dead` -/
theorem dead_absorbing {c c' : Cfg ν σ} {ev : Ev} (hs : step? c ev = some c') {t : Nat}
    (hp : c.pcs[t]? = some Pc.dead) : c'.pcs[t]? = some Pc.dead :=
  step_keeps_stopped hs hp (Or.inr rfl)

/-- finitely many steps -/
inductive Steps : Cfg ν σ → Cfg ν σ → Prop where
  | refl (c : Cfg ν σ) : Steps c c
  | step {c c' c'' : Cfg ν σ} {ev : Ev} : Steps c c' → step? c' ev = some c'' → Steps c c''

theorem reach_steps {root : ν} {top T : Nat} {c c' : Cfg ν σ} (hr : Reach root top T c)
    (hs : Steps c c') : Reach root top T c' := by
  induction hs with
  | refl => exact hr
  | step _ h ih => exact Reach.step ih h

theorem reach_iff_steps {root : ν} {top T : Nat} {c : Cfg ν σ} :
    Reach root top T c ↔ Steps (init root top T) c := by
  constructor
  · intro h
    induction h with
    | init => exact Steps.refl _
    | step _ hs ih => exact Steps.step ih hs
  · intro h; exact reach_steps Reach.init h

theorem steps_keep_stopped {c c' : Cfg ν σ} (hs : Steps c c') {t : Nat} {pc : Pc ν}
    (hp : c.pcs[t]? = some pc) (hst : pc = .done ∨ pc = .dead) : c'.pcs[t]? = some pc := by
  induction hs with
  | refl => exact hp
  | step _ h ih => exact step_keeps_stopped h ih hst

theorem steps_len {c c' : Cfg ν σ} (hs : Steps c c') : c'.pcs.length = c.pcs.length := by
  induction hs with
  | refl => rfl
  | step _ h ih => rw [step_len h, ih]

/-! ### the join loop of `bab::solve` (bab.rs:188-191) -/

/-- `for worker in workers { worker.join().unwrap(); }`: scan the workers in spawn order.
    `some false`: every worker ended normally, `solve` returns its result;
    `some true`: the first worker that has not ended normally was ended by a panic, the `unwrap`
    panics — `solve` fails;
    `none`: the scan is blocked in `join` on a worker that is still running. -/
def outcome : List (Pc ν) → Option Bool
  | [] => some false
  | .done :: r => outcome r
  | .dead :: _ => some true
  | _ :: _ => none

theorem outcome_false_iff (pcs : List (Pc ν)) :
    outcome pcs = some false ↔ ∀ pc ∈ pcs, pc = Pc.done := by
  induction pcs with
  | nil => simp [outcome]
  | cons a r ih => cases a <;> simp [outcome, ih]

/-- `solve` returns normally exactly in the configurations in which all workers are `done` -/
theorem outcome_false_iff_allDone (c : Cfg ν σ) : outcome c.pcs = some false ↔ AllDone c := by
  rw [outcome_false_iff]
  constructor
  · intro h t pc hp; exact h pc (List.mem_of_getElem? hp)
  · intro h pc hm
    obtain ⟨i, hi⟩ := List.mem_iff_getElem?.1 hm
    exact h i pc hi

theorem outcome_ne_false_of_dead {pcs : List (Pc ν)} {t : Nat} (h : pcs[t]? = some Pc.dead) :
    outcome pcs ≠ some false := by
  intro hf
  have := (outcome_false_iff pcs).1 hf _ (List.mem_of_getElem? h)
  cases this

/-- a blocked scan waits for a worker that has not stopped -/
theorem outcome_none {pcs : List (Pc ν)} (h : outcome pcs = none) :
    ∃ (t : Nat) (pc : Pc ν), pcs[t]? = some pc ∧ pc ≠ .done ∧ pc ≠ .dead ∧
      ∀ u, u < t → pcs[u]? = some Pc.done := by
  induction pcs with
  | nil => simp [outcome] at h
  | cons a r ih =>
    cases a with
    | done =>
      obtain ⟨t, pc, h1, h2, h3, h4⟩ := ih (by simpa [outcome] using h)
      refine ⟨t + 1, pc, by simpa using h1, h2, h3, ?_⟩
      intro u hu
      cases u with
      | zero => rfl
      | succ u => simpa using h4 u (by omega)
    | dead => simp [outcome] at h
    | _ => exact ⟨0, _, rfl, by simp, by simp, by intro u hu; omega⟩

/-- when every worker has stopped and one of them is dead, `solve` panics -/
theorem outcome_true_of_finished {pcs : List (Pc ν)}
    (hf : ∀ pc ∈ pcs, pc = Pc.done ∨ pc = Pc.dead) (hd : Pc.dead ∈ pcs) : outcome pcs = some true := by
  induction pcs with
  | nil => simp at hd
  | cons a r ih =>
    rcases hf a (by simp) with rfl | rfl
    · simp only [outcome]
      apply ih
      · intro pc hpc; exact hf pc (by simp [hpc])
      · simpa using hd
    · rfl

/-- `outcome = some true` means: a dead worker, preceded by `done` workers only -/
theorem outcome_true_iff (pcs : List (Pc ν)) :
    outcome pcs = some true ↔
      ∃ t : Nat, pcs[t]? = some Pc.dead ∧ ∀ u, u < t → pcs[u]? = some Pc.done := by
  induction pcs with
  | nil => simp [outcome]
  | cons a r ih =>
    cases a with
    | done =>
      simp only [outcome, ih]
      constructor
      · rintro ⟨t, h1, h2⟩
        refine ⟨t + 1, by simpa using h1, ?_⟩
        intro u hu
        cases u with
        | zero => rfl
        | succ u => simpa using h2 u (by omega)
      · rintro ⟨t, h1, h2⟩
        cases t with
        | zero => simp at h1
        | succ t =>
          refine ⟨t, by simpa using h1, ?_⟩
          intro u hu
          simpa using h2 (u + 1) (by omega)
    | dead =>
      simp only [outcome, true_iff]
      exact ⟨0, rfl, by intro u hu; omega⟩
    | _ =>
      simp only [outcome]
      constructor
      · intro h; cases h
      · rintro ⟨t, h1, h2⟩
        cases t with
        | zero => simp at h1
        | succ t => have := h2 0 (by omega); simp at this

/-- a decided outcome is final: no later step changes it -/
theorem outcome_stable {c c' : Cfg ν σ} {b : Bool} (hs : Steps c c') (h : outcome c.pcs = some b) :
    outcome c'.pcs = some b := by
  cases b with
  | false =>
    rw [outcome_false_iff_allDone] at h ⊢
    intro t pc hp
    have hlt : t < c.pcs.length := by rw [← steps_len hs]; exact lt_of_getElem?_some hp
    have hx : c.pcs[t]? = some c.pcs[t] := List.getElem?_eq_getElem hlt
    have hd := h t _ hx
    rw [hd] at hx
    have := steps_keep_stopped hs hx (Or.inl rfl)
    rw [this] at hp; cases hp; rfl
  | true =>
    rw [outcome_true_iff] at h ⊢
    obtain ⟨t, h1, h2⟩ := h
    exact ⟨t, steps_keep_stopped hs h1 (Or.inr rfl),
      fun u hu => steps_keep_stopped hs (h2 u hu) (Or.inl rfl)⟩

/-- C19: a failing worker makes the search fail, not hang. If some worker is `dead` in a reachable
    configuration `c`, then in every configuration `c'` reachable from `c`:
    the worker is still dead; the join loop does not report success; as long as some worker has
    not stopped some non-wake step is enabled (nobody waits forever); and once every worker has
    stopped the join loop panics (`outcome = some true`). -/
theorem failure_reported {root : ν} {top T : Nat} {c c' : Cfg ν σ} {t : Nat} (hT : 0 < T)
    (hr : Reach root top T c) (hdead : c.pcs[t]? = some Pc.dead) (hs : Steps c c') :
    c'.pcs[t]? = some Pc.dead ∧
    outcome c'.pcs ≠ some false ∧
    (¬ AllFinished c' → ∃ ev, ev.isWake = false ∧ (step? c' ev).isSome = true) ∧
    (AllFinished c' → outcome c'.pcs = some true) := by
  have hd' : c'.pcs[t]? = some Pc.dead := steps_keep_stopped hs hdead (Or.inr rfl)
  refine ⟨hd', outcome_ne_false_of_dead hd', ?_, ?_⟩
  · intro hnf
    exact C04_no_deadlock hT (reach_steps hr hs) hnf
  · intro hf
    apply outcome_true_of_finished
    · intro pc hm
      obtain ⟨i, hi⟩ := List.mem_iff_getElem?.1 hm
      exact hf i pc hi
    · exact List.mem_of_getElem? hd'

/-- a blocked join loop is never stuck: if `outcome = none` in a reachable configuration, some
    non-wake step is enabled -/
theorem outcome_none_progress {root : ν} {top T : Nat} {c : Cfg ν σ} (hT : 0 < T)
    (hr : Reach root top T c) (h : outcome c.pcs = none) :
    ∃ ev, ev.isWake = false ∧ (step? c ev).isSome = true := by
  obtain ⟨t, pc, h1, h2, h3, _⟩ := outcome_none h
  apply C04_no_deadlock hT hr
  intro hf
  rcases hf t pc h1 with e | e
  · exact h2 e
  · exact h3 e

/-- at `AllFinished` the join loop has an answer, and it is `some true` iff some worker is dead -/
theorem outcome_at_finished {c : Cfg ν σ} (hf : AllFinished c) :
    (outcome c.pcs = some true ↔ ∃ t : Nat, c.pcs[t]? = some Pc.dead) ∧
    (outcome c.pcs = some false ↔ ¬ ∃ t : Nat, c.pcs[t]? = some Pc.dead) := by
  have hall : ∀ pc ∈ c.pcs, pc = Pc.done ∨ pc = Pc.dead := by
    intro pc hm
    obtain ⟨i, hi⟩ := List.mem_iff_getElem?.1 hm
    exact hf i pc hi
  constructor
  · constructor
    · intro h
      obtain ⟨t, h1, _⟩ := (outcome_true_iff _).1 h
      exact ⟨t, h1⟩
    · rintro ⟨t, ht⟩
      exact outcome_true_of_finished hall (List.mem_of_getElem? ht)
  · constructor
    · rintro h ⟨t, ht⟩
      exact outcome_ne_false_of_dead ht h
    · intro hno
      rw [outcome_false_iff]
      intro pc hm
      rcases hall pc hm with e | e
      · exact e
      · subst e
        obtain ⟨i, hi⟩ := List.mem_iff_getElem?.1 hm
        exact absurd ⟨i, hi⟩ hno

/-! ### a concrete run (the hypotheses are satisfiable) -/

section Example
/-- one-node tree whose solver panics -/
local instance exSolver : Solver Unit Unit := ⟨fun _ => .panic, fun _ => []⟩

/-- one worker, root panics: acquire, top (pop root), solve, acquire (panic), die -/
example : ∃ c : Cfg Unit Unit, Reach () 0 1 c ∧ c.pcs[0]? = some Pc.dead ∧ AllFinished c ∧
    outcome c.pcs = some true := by
  let c0 : Cfg Unit Unit := init () 0 1
  have r0 : Reach () 0 1 c0 := Reach.init
  refine ⟨{ pending := [], busy := 0, best := none, bestScore := 0, lock := none, pcs := [.dead] },
    ?_, rfl, ?_, rfl⟩
  · have r1 := Reach.step (ev := .acquire 0) r0 rfl
    have r2 := Reach.step (ev := .top 0 0) r1 rfl
    have r3 := Reach.step (ev := .solve 0) r2 rfl
    have r4 := Reach.step (ev := .acquire 0) r3 rfl
    exact Reach.step (ev := .die 0) r4 rfl
  · intro t pc h
    cases t with
    | zero => simp at h; exact Or.inr h.symm
    | succ t => simp at h
end Example

section Example2
/-- two-node tree: the root is infeasible with one child, the child is feasible -/
local instance exSolver2 : Solver Bool Unit :=
  ⟨fun b => if b then .infeasible 7 else .feasible () 5, fun b => if b then [false] else []⟩

/-- the hypotheses of `stats_at_done` are satisfiable: one worker runs the two-node tree to the end
    (acquire, pop root, solve, apply, continue, pop child, solve, apply, finish) -/
example : ∃ (c : Cfg Bool Unit) (st : Stats), ReachS true 10 1 (c, st) ∧ AllDone c ∧
    st.gen = 2 ∧ st.executed = 2 ∧ st.infeasible = 1 ∧ st.feasible = 1 ∧ st.bound = 0 := by
  have r0 : ReachS true 10 1 ((init true 10 1 : Cfg Bool Unit), {}) := ReachS.init
  have r1 := ReachS.step (ev := .acquire 0) r0 rfl
  have r2 := ReachS.step (ev := .top 0 0) r1 rfl
  have r3 := ReachS.step (ev := .solve 0) r2 rfl
  have r4 := ReachS.step (ev := .acquire 0) r3 rfl
  have r5 := ReachS.step (ev := .after 0) r4 rfl
  have r6 := ReachS.step (ev := .top 0 0) r5 rfl
  have r7 := ReachS.step (ev := .solve 0) r6 rfl
  have r8 := ReachS.step (ev := .acquire 0) r7 rfl
  have r9 := ReachS.step (ev := .after 0) r8 rfl
  refine ⟨{ pending := [], busy := 0, best := some (), bestScore := 5, lock := none, pcs := [.done] },
    { executed := 2, noSol := 0, infeasible := 1, feasible := 1, newBest := 1, bound := 0, gen := 2,
      panicked := 0 }, r9, ?_, rfl, rfl, rfl, rfl, rfl⟩
  intro t pc h
  cases t with
  | zero => simp at h; exact h.symm
  | succ t => simp at h
end Example2

#print axioms reachS_sinv
#print axioms reachS_pinv
#print axioms stats_at_done
#print axioms stats_at_finished
#print axioms done_absorbing
#print axioms dead_absorbing
#print axioms outcome_stable
#print axioms failure_reported
#print axioms outcome_none_progress
end Eng3
