import Lean.Data.Json
import Cdecao.Model.Hungarian
import Cdecao.Model.HungarianI32
import Cdecao.Model.Node
import Cdecao.Model.NodeS
import Cdecao.Model.Util
import Cdecao.Engine.Core
import Cdecao.Spec.Hard
import Cdecao.Spec.Score
import Cdecao.Spec.Hung
import Cdecao.Spec.Room
import Cdecao.Spec.Valid
import Cdecao.Model.Cdedb
import Cdecao.Model.Simple
import Cdecao.Model.Cli
import Cdecao.Model.Rooms
import Cdecao.Model.Listing
import Cdecao.Model.Score
import Cdecao.Model.RoomsInput
import Cdecao.Model.Main
/-! Model driver: one request per line (`TAG<TAB>payload`), one answer line per request.
    The harness (Rust, calling the real code) writes the same cases and diffs the answers. -/
open Lean

/-! ## small parsers -/

def natList (s : String) (sep : String) : List Nat :=
  if s == "-" || s == "" then [] else (s.splitOn sep).map (·.toNat!)

def parseBools (s : String) : H2.Vec Bool := ⟨(s.toList.map (· == '1')).toArray⟩

/-! ## H: hungarian_algorithm -/

def parseHung (payload : String) : Option (H2.Inp × List String) :=
  match payload.splitOn "|" with
  | dims :: ws :: d :: m :: sx :: sy :: rest =>
    match dims.splitOn " " with
    | [a, b] =>
      let nx := a.toNat!; let ny := b.toNat!
      let flat : Array Int := ((ws.splitOn " ").filter (· ≠ "")).toArray.map (fun s => s.toInt!)
      let w : H2.Vec (H2.Vec Int) := H2.Vec.tab nx (fun x => H2.Vec.tab ny (fun y => flat.getD (x * ny + y) 0))
      some ({ nx, ny, w, dummy := parseBools d, mand := parseBools m, skipx := parseBools sx, skipy := parseBools sy }, rest)
    | _ => none
  | _ => none

def fmtOptNatList (l : List Nat) : String := ",".intercalate (l.map toString)

/-- `H`: run the model. Answer `M <matching> <score>` or `P` (model reaches a panic site) -/
def handleH (payload : String) : String :=
  match parseHung payload with
  | some (I, _) =>
    match H2.run I with
    | none => "P"
    | some (mm, sc) => s!"M {fmtOptNatList ((List.range I.ny).map mm.get)} {sc}"
  | none => "bad"

/-- `HB`: the range-checked (i32) model of the matching routine: `P` when any intermediate value
    leaves the i32 range (the real code, built with overflow checks, panics there) -/
def handleHB (payload : String) : String :=
  match parseHung payload with
  | some (I, _) =>
    match H2B.run32 I with
    | none => "P"
    | some (mm, sc) => s!"M {fmtOptNatList ((List.range I.ny).map mm.get)} {sc}"
  | none => "bad"

/-- `HO`: the optimum, as the score of the (proved optimal) model of the unchanged routine -/
def handleHO (payload : String) : String :=
  match parseHung payload with
  | some (I, _) =>
    match H2.run I with
    | none => "opt=none"
    | some (_, sc) => s!"opt={sc}"
  | none => "bad"

/-- `HS`: evaluate the C07 specification on the implementation's answer (`…|matching|score`):
    `perfect=<b> weight=<w> scoreok=<b> admits=<b>` -/
def handleHS (payload : String) : String :=
  match parseHung payload with
  | some (I, [ms, sc]) =>
    let mm : H2.Vec Nat := ⟨(natList ms ",").toArray⟩
    let score := sc.toInt!
    let pf := HSpec.perfectb I mm.get
    let w := HSpec.weight I mm.get
    s!"perfect={pf} weight={w} scoreok={decide (w = score)}"
  | _ => "bad"

/-! ## N: run_bab_node -/
open N2 in
structure CF where
  c : Course
  factor : Float32
  offset : Float32

open N2 in
def parseCourse (s : String) : CF :=
  match s.splitOn "," with
  | [mn, mx, fx, fb, ob, ins] =>
    { c := { numMin := mn.toNat!, numMax := mx.toNat!, fixed := fx == "1", instructors := natList ins ";" },
      factor := Float32.ofBits fb.toNat!.toUInt32, offset := Float32.ofBits ob.toNat!.toUInt32 }
  | _ => { c := default, factor := 1, offset := 0 }

open N2 in
def parsePart (s : String) : Part :=
  if s == "-" then ⟨[]⟩ else
  ⟨(s.splitOn ";").map (fun c => match c.splitOn ":" with
    | [a, b] => ⟨a.toNat!, b.toNat!⟩
    | _ => ⟨0, 0⟩)⟩

open N2 in
def parseNode (s : String) : Node :=
  match s.splitOn "|" with
  | [c, e, sh] =>
    { cancelled := natList c ",", enforced := natList e ",",
      shrinked := if sh == "-" then [] else (sh.splitOn ",").map (fun x => match x.splitOn ":" with
        | [a, b] => (a.toNat!, b.toNat!)
        | _ => (0, 0)) }
  | _ => ⟨[], [], []⟩

open N2 in
def fmtNode (n : Node) : String :=
  let l (v : List Nat) := if v.isEmpty then "-" else ",".intercalate (v.map toString)
  let s := if n.shrinked.isEmpty then "-" else ",".intercalate (n.shrinked.map (fun (c, s) => s!"{c}:{s}"))
  s!"{l n.cancelled}|{l n.enforced}|{s}"

open N2 in
/-- instance = `courses#participants#rooms` (courses/participants separated by blanks) -/
def parseInst (cs ps rooms : String) : Inst × RoomFns :=
  let cfs := (if cs == "" then [] else (cs.splitOn " ").map parseCourse).toArray
  let I : Inst := { cs := cfs.toList.map (·.c), ps := if ps == "" then [] else (ps.splitOn " ").map parsePart,
                    rooms := if rooms == "-" then none else some (natList (rooms.drop 1).toString ",") }
  let R : RoomFns :=
    { eff := fun c n => let f := cfs.getD c { c := default, factor := 1, offset := 0 }
                        (f.offset + f.factor * Float32.ofNat n).ceil.toUSize.toNat
      quot := fun c r => let f := cfs.getD c { c := default, factor := 1, offset := 0 }
                         ((Float32.ofNat r - f.offset) / f.factor).floor.toUSize.toNat }
  (I, R)

def fmtAssign (a : List (Option Nat)) : String :=
  ",".intercalate (a.map (fun x => match x with | none => "_" | some c => toString c))

open N2 in
def fmtRes : M Res → String
  | .error e => s!"P {e}"
  | .ok .noSol => "N"
  | .ok (.feasible a s) => s!"F {s} " ++ fmtAssign a
  | .ok (.infeasible kids s) => s!"I {s} " ++ ";".intercalate (kids.map fmtNode)

open N2 in
def handleN (payload : String) : String :=
  match payload.splitOn "#" with
  | [cs, ps, rooms, node] =>
    let (I, R) := parseInst cs ps rooms
    fmtRes (runNodeS I R (parseNode node))
  | _ => "bad"

open N2 in
/-- `PC`: `precompute_problem` as the model has it — rows, columns, column → course map, first column of
    every course, dummy rows, always-skipped rows, padded room list and the weight matrix (row-major) -/
def handlePC (payload : String) : String :=
  match payload.splitOn "#" with
  | [cs, ps, rooms] =>
    let (I, _) := parseInst cs ps rooms
    if !I.precomputeOk then "P precompute" else
    let n := I.n
    let m := I.m
    let b2s (b : Bool) : String := if b then "1" else "0"
    let colc := ",".intercalate ((List.range m).map (fun cp => toString (I.colCourse cp)))
    let invs := ",".intercalate ((List.range I.C).map (fun c => toString (inv I c)))
    let dummy := "".intercalate ((List.range n).map (fun x => b2s (decide (I.P ≤ x))))
    let skip := "".intercalate ((List.range n).map (fun x => b2s (decide (x < I.P) && I.instructorOnly x)))
    let rs := match I.roomSizes with
      | none => "-"
      | some l => ",".intercalate (l.map toString)
    let w := ";".intercalate ((List.range n).map (fun x =>
      ",".intercalate ((List.range m).map (fun cp => toString (I.weight x cp)))))
    s!"n={n} m={m} col={colc} inv={invs} dummy={dummy} skip={skip} rooms={rs} w={w}"
  | _ => "bad"

def parseAssign (s : String) : Array (Option Nat) :=
  if s == "" then #[] else ((s.splitOn ",").map (fun x => if x == "_" then none else some x.toNat!)).toArray

open N2 N2.G in
/-- `A`: evaluate the specification predicates on an assignment the implementation reported:
    `instance#assignment` → `hard=<b> score=<n> room=<b>` (`room` is `true` without a room list) -/
def handleA (payload : String) : String :=
  match payload.splitOn "#" with
  | [cs, ps, rooms, asg] =>
    let (I, R) := parseInst cs ps rooms
    let av := parseAssign asg
    let a : Nat → Option Nat := fun p => (av.getD p none)
    let hard := decide (av.size = I.P) && hardOKb I a
    let room := match I.rooms with
      | none => true
      | some r => RSpec.roomOKb I R a r
    s!"valid={validb I} hard={hard} score={scoreOfL I a} room={room}"
  | _ => "bad"

/-! ## B: the model's own whole-search result (maximum over the feasible nodes of the model's
    full, unpruned tree). Used to tell the known incompleteness of the algorithm (the unchanged
    code and the model agree on a sub-optimal answer) from a new defect. -/
open N2 in
partial def modelBestGo (I : Inst) (R : RoomFns) (limit : Nat) (work : List Node) (best : Option Nat) (cnt : Nat) :
    Option Nat × Nat × Bool :=
  match work with
  | [] => (best, cnt, true)
  | nd :: rest =>
    if cnt ≥ limit then (best, cnt, false) else
    match runNodeS I R nd with
    | .ok (.feasible _ s) =>
      modelBestGo I R limit rest (match best with | none => some s | some b => some (max b s)) (cnt + 1)
    | .ok (.infeasible kids _) => modelBestGo I R limit (kids ++ rest) best (cnt + 1)
    | _ => modelBestGo I R limit rest best (cnt + 1)

/- maximum feasible score below a node of the model's tree, and whether the tree is `Bounded`
   there (no feasible node below a child of an infeasible node scores more than that node) -/
open N2 in
partial def modelBoundedGo (I : Inst) (R : RoomFns) (fuel : Nat) (nd : Node) : Option Nat × Bool × Nat :=
  if fuel == 0 then (none, true, 0) else
  match runNodeS I R nd with
  | .ok (.feasible _ s) => (some s, true, fuel - 1)
  | .ok (.infeasible kids s) =>
    kids.foldl (fun (acc : Option Nat × Bool × Nat) k =>
      let (best, ok, f) := acc
      let (b, okk, f') := modelBoundedGo I R f k
      let ok' := ok && okk && (match b with | some x => decide (x ≤ s) | none => true)
      let best' := match best, b with
        | some x, some y => some (max x y)
        | none, y => y
        | x, none => x
      (best', ok', f')) (none, true, fuel - 1)
  | _ => (none, true, fuel - 1)

/- all feasible scores of the model's (unpruned) tree -/
open N2 in
partial def modelScoresGo (I : Inst) (R : RoomFns) (limit : Nat) (work : List Node) (acc : List Nat) (cnt : Nat) : List Nat :=
  match work with
  | [] => acc
  | nd :: rest =>
    if cnt ≥ limit then acc else
    match runNodeS I R nd with
    | .ok (.feasible _ s) => modelScoresGo I R limit rest (if acc.contains s then acc else s :: acc) (cnt + 1)
    | .ok (.infeasible kids _) => modelScoresGo I R limit (kids ++ rest) acc (cnt + 1)
    | _ => modelScoresGo I R limit rest acc (cnt + 1)

open N2 in
def handleB (payload : String) : String :=
  match payload.splitOn "#" with
  | [cs, ps, rooms] =>
    let (I, R) := parseInst cs ps rooms
    let (best, _, complete) := modelBestGo I R 5000 [⟨[], [], []⟩] none 0
    let b := match best with | none => "none" | some s => toString s
    let (_, bounded, left) := modelBoundedGo I R 5000 ⟨[], [], []⟩
    let scores := modelScoresGo I R 5000 [⟨[], [], []⟩] [] 0
    s!"best={b} complete={complete} bounded={bounded && left > 0} scores={",".intercalate (scores.map toString)}"
  | _ => "bad"

/-! ## S: k-selection iterator and binom -/

/-- `S n k` → `binom;hint0;sel1/hint1;sel2/hint2;…` following the iterator protocol: the hint
    before the first call, then every yielded selection with the hint after it -/
partial def handleS (payload : String) : String :=
  match (payload.splitOn " ").map (·.toNat!) with
  | [n, k] =>
    let rec go (st : Option (List Nat)) (acc : List String) (fuel : Nat) : List String :=
      match fuel with
      | 0 => ("FUEL" :: acc)
      | fuel + 1 =>
        match S.iterNext n k st with
        | none => acc
        | some idx => go (some idx) (s!"{fmtOptNatList idx}/{S.sizeHint n k (some idx)}" :: acc) fuel
    let items := (go none [] (S.binom n k + 1)).reverse
    ";".intercalate (s!"{S.binom n k}" :: s!"{S.sizeHint n k none}" :: items)
  | _ => "bad"

/-- `SB n` → `binom n 0, …, binom n (n+1)` -/
def handleSB (payload : String) : String :=
  let n := payload.trimAscii.toString.toNat!
  ",".intercalate ((List.range (n + 2)).map (fun k => toString (S.binom n k)))

/-! ## T: replay of a scheduler trace of the real `bab::solve` through `Eng3.step?` -/
namespace TR
open Eng3

structure NodeD where
  res : Res Nat
  kids : List Nat

instance : Inhabited NodeD := ⟨⟨.noSol, []⟩⟩

def parseNodeD (j : Json) : NodeD :=
  let k := (j.getObjValAs? String "k").toOption.getD ""
  let s := (j.getObjValAs? Nat "s").toOption.getD 0
  let kids := (j.getObjValAs? (List Nat) "kids").toOption.getD []
  match k with
  | "n" => ⟨.noSol, []⟩
  | "f" => ⟨.feasible ((j.getObjValAs? Nat "sol").toOption.getD 4000000000) s, []⟩  -- default: node id, patched below
  | "i" => ⟨.infeasible s, kids⟩
  | _ => ⟨.panic, []⟩

def mkSolver (nodes : Array NodeD) : Solver Nat Nat :=
  { res := fun n => match (nodes.getD n default).res with
      | .feasible sol s => .feasible (if sol == 4000000000 then n else sol) s
      | r => r
    kids := fun n => (nodes.getD n default).kids }

structure RState where
  c : Cfg Nat Nat
  st : Stats
  err : Option String := none

def pcName : Pc Nat → String
  | .want none => "want"
  | .want (some n) => s!"want({n})"
  | .holding => "holding"
  | .afterPop => "afterPop"
  | .solving n => s!"solving({n})"
  | .waiting => "waiting"
  | .done => "done"
  | .dying => "dying"
  | .dead => "dead"

section
variable (inst : Solver Nat Nat)

def doEv (s : RState) (ev : Ev) (what : String) : RState :=
  if s.err.isSome then s else
  match @step? Nat Nat inst s.c ev with
  | some c' => { s with c := c', st := @statsUpd Nat Nat inst s.c s.st ev }
  | none => { s with err := some s!"model cannot do {what}" }

def fail (s : RState) (msg : String) : RState := if s.err.isSome then s else { s with err := some msg }

def pcOf (s : RState) (t : Nat) : Pc Nat := s.c.pcs.getD t .done

/-- replay one slice of worker `t` (0-based), given its pops and how it left -/
def slice (s : RState) (t : Nat) (pops : List (Nat × Bool)) (left : String) : RState := Id.run do
  let mut s := s
  match pcOf s t with
  | .want _ => s := doEv inst s (.acquire t) s!"acquire {t}"
  | pc => s := fail s s!"slice of thread {t} starts in {pcName pc}"
  if let .dying := pcOf s t then
    if s.c.pcs.any (fun pc => match pc with | .waiting => true | _ => false) then
      s := fail s s!"notify_all of dying thread {t} missed a sleeper"
    s := doEv inst s (.die t) s!"die {t}"
    if left != "panicked" then s := fail s s!"thread {t}: model dead, real {left}"
    return s
  if let .afterPop := pcOf s t then s := doEv inst s (.after t) s!"after {t}"
  for (n, bounded) in pops do
    match pcOf s t with
    | .holding =>
      match s.c.pending.findIdx? (fun p => p.1 == n) with
      | none => s := fail s s!"thread {t} popped node {n} which is not pending in the model"
      | some k =>
        s := doEv inst s (.top t k) s!"top {t} {k}"
        match pcOf s t with
        | .afterPop =>
          if !bounded then s := fail s s!"node {n}: model bounds, code solves"
          s := doEv inst s (.after t) s!"after {t}"
        | .solving _ =>
          if bounded then s := fail s s!"node {n}: model solves, code bounds"
        | pc => s := fail s s!"after pop thread {t} is {pcName pc}"
    | pc => s := fail s s!"thread {t} pops while model pc is {pcName pc}"
  match pcOf s t with
  | .holding => s := doEv inst s (.top t 0) s!"top {t} 0 (empty)"
  | _ => pure ()
  match pcOf s t, left with
  | .solving _, "solving" => s := doEv inst s (.solve t) s!"solve {t}"
  | .waiting, "waiting" => pure ()
  | .done, "exited" => pure ()
  | pc, l => s := fail s s!"thread {t}: model {pcName pc}, real {l}"
  return s

end

/-- compare the model's shared state at the end of a critical section with what the real worker
    noted just before it released the lock: queue length, busy counter, incumbent score (if any),
    the six statistics counters -/
def cmpState (s : RState) (noted : List Nat × Option Nat) (whr : String) : RState :=
  if s.err.isSome then s else
  let model : List Nat := [s.c.pending.length, s.c.busy, s.st.executed, s.st.bound, s.st.noSol, s.st.infeasible, s.st.feasible, s.st.newBest]
  let mbest : Option Nat := if s.c.best.isSome then some s.c.bestScore else none
  if model != noted.1 then { s with err := some s!"shared state at the end of a critical section of {whr}: model {model}, real {noted.1} (pending, busy, executed, bound, no-solution, infeasible, feasible, new-best)" }
  else if mbest != noted.2 then { s with err := some s!"incumbent score at the end of a critical section of {whr}: model {mbest}, real {noted.2}" }
  else s

def handle (line : String) : String :=
  match Json.parse line with
  | .error e => s!"bad json {e}"
  | .ok j =>
    let T := (j.getObjValAs? Nat "threads").toOption.getD 0
    let nodes := ((j.getObjValAs? (Array Json) "nodes").toOption.getD #[]).map parseNodeD
    let trace := (j.getObjValAs? (Array Json) "trace").toOption.getD #[]
    let inst := mkSolver nodes
    let top := (j.getObjValAs? Nat "top").toOption.getD 4294967295
    Id.run do
      let mut s : RState := { c := init 0 top T, st := {} }
      -- the shared state the real worker noted when it was about to release the lock (hook in bab.rs)
      let mut noted : Option (List Nat × Option Nat) := none
      let mut ncmp := 0
      let mut pops : List (Nat × Bool) := []
      let mut started : Array Bool := Array.replicate (T + 1) false
      let mut nev := 0
      for e in trace do
        let a := (e.getArr?).toOption.getD #[]
        let tag := (a.getD 0 Json.null).getStr?.toOption.getD ""
        let t := (a.getD 1 Json.null).getNat?.toOption.getD 0
        match tag with
        | "run" => pops := []; noted := none
        | "state" =>
          let nums := ((a.getD 2 Json.null).getArr?.toOption.getD #[]).toList.map (fun x => x.getNat?.toOption.getD 0)
          noted := some (nums, (a.getD 3 Json.null).getNat?.toOption)
        | "wake" =>
          s := doEv inst s (.wake (t - 1)) s!"wake {t - 1}"; nev := nev + 1
        | "pop" =>
          let n := (a.getD 2 Json.null).getNat?.toOption.getD 0
          let w := (a.getD 3 Json.null).getStr?.toOption.getD ""
          pops := pops ++ [(n, w == "bound")]
        | "block" =>
          if t == 0 then pure () else
          let st := (a.getD 2 Json.null).getStr?.toOption.getD ""
          if !(started.getD t false) then
            started := started.set! t true
          else
            let left := if st == "Waiting" then "waiting" else "solving"
            s := slice inst s (t - 1) pops left; nev := nev + 1
            if let some nt := noted then
              s := cmpState s nt s!"thread {t} ({left})"; ncmp := ncmp + 1
          pops := []; noted := none
        | "exit" =>
          let p := (a.getD 2 Json.null).getBool?.toOption.getD false
          if !(started.getD t false) then
            s := fail s s!"thread {t} exits before its first lock()"
          s := slice inst s (t - 1) pops (if p then "panicked" else "exited"); nev := nev + 1
          if let some nt := noted then
            if !p then
              s := cmpState s nt s!"thread {t} (exit)"; ncmp := ncmp + 1
          pops := []; noted := none
        | "deadlock" => s := fail s "real run: no runnable thread (deadlock)"
        | "budget" => s := fail s "real run: step budget used up"
        | _ => pure ()
      if let some e := s.err then return s!"MISMATCH {e}"
      let r := (j.getObjVal? "result").toOption.getD Json.null
      let anyDead := s.c.pcs.any (fun pc => match pc with | .dead => true | _ => false)
      let allFin := s.c.pcs.all (fun pc => match pc with | .dead => true | .done => true | _ => false)
      let realPanic := (r.getObjValAs? Bool "panic").toOption.getD false
      if realPanic then
        let firstDead := s.c.pcs.findIdx? (fun pc => match pc with | .dead => true | _ => false)
        match firstDead with
        | none => return "MISMATCH code failed, model has no dead worker"
        | some d =>
          let earlierDone := (s.c.pcs.take d).all (fun pc => match pc with | .done => true | _ => false)
          return if earlierDone then s!"ok panic ev={nev}" else "MISMATCH join order"
      if !allFin then return "MISMATCH model not finished at end of trace"
      if anyDead then return "MISMATCH model failed, code did not"
      let found := (r.getObjValAs? Bool "found").toOption.getD false
      let score := (r.getObjValAs? Nat "score").toOption.getD 0
      let sol := (r.getObjValAs? Nat "sol").toOption.getD 0
      let g (k : String) := (r.getObjValAs? Nat k).toOption.getD 0
      if found != s.c.best.isSome then return "MISMATCH found"
      if found && (score != s.c.bestScore || some sol != s.c.best) then return s!"MISMATCH best {s.c.best} {s.c.bestScore}"
      if g "exec" != s.st.executed || g "bound" != s.st.bound || g "nosol" != s.st.noSol || g "inf" != s.st.infeasible
         || g "feas" != s.st.feasible || g "newbest" != s.st.newBest then return "MISMATCH stats"
      if s.st.gen != s.st.executed + s.st.bound then return "MISMATCH generated != executed + bound"
      return s!"ok ev={nev} cmp={ncmp}"
end TR

/-! ## CR: io::cdedb::read on a (tagged) JSON value -/
namespace CDD
open JS CD

/-- tagged encoding written by the harness from `serde_json::Value`:
    null / true / false / {"s":str} / {"u":n} / {"i":-n} / {"f":f64 bits} / {"a":[…]} / {"o":[[k,v],…]} -/
partial def untag (j : Json) : J :=
  match j with
  | .null => .null
  | .bool b => .bool b
  | .obj _ =>
    match j.getObjVal? "s" with
    | .ok (.str s) => .str s
    | _ =>
    match j.getObjVal? "u" with
    | .ok v => .num (.pos (v.getNat?.toOption.getD 0))
    | _ =>
    match j.getObjVal? "i" with
    | .ok v => .num (.neg ((v.getInt?.toOption.getD 0).natAbs))
    | _ =>
    match j.getObjVal? "f" with
    | .ok v => .num (.flt (v.getNat?.toOption.getD 0).toUInt64)
    | _ =>
    match j.getObjVal? "a" with
    | .ok (.arr l) => .arr (l.toList.map untag)
    | _ =>
    match j.getObjVal? "o" with
    | .ok (.arr l) => .obj (l.toList.map (fun kv =>
        match kv with
        | .arr #[.str k, v] => (k, untag v)
        | _ => ("", .null)))
    | _ => .null
  | _ => .null

def numToF32 : Num → Float32
  | .pos n => (Float.ofNat n).toFloat32
  | .neg n => (-(Float.ofNat n)).toFloat32
  | .flt b => (Float.ofBits b).toFloat32

def fvalF32 (v : FVal) (dflt : Float32) : Float32 :=
  match v with
  | .dflt => dflt
  | .ofNum n => numToF32 n

/-- final (factor, offset) of a course as f32 bit patterns: `offset += (instr + att) as f32 * factor` -/
def courseFloats (c : Course) : Nat × Nat :=
  let f := fvalF32 c.factor 1.0
  let o := fvalF32 c.offset 0.0
  let o' := o + Float32.ofNat (c.invInstr + c.invAtt) * f
  (f.toBits.toNat, o'.toBits.toNat)

def optNat : Option Nat → Json
  | none => .null
  | some n => toJson n

def parseOpts (j : Json) : Opts :=
  { track := (j.getObjValAs? Nat "track").toOption
    ignoreCancelled := (j.getObjValAs? Bool "ic").toOption.getD false
    ignoreAssigned := (j.getObjValAs? Bool "ia").toOption.getD false
    factorField := (j.getObjValAs? String "rff").toOption
    offsetField := (j.getObjValAs? String "rof").toOption }

def dumpRead (parts : List Part) (courses : List Course) (amb : Ambience) : Json :=
  Json.mkObj [
    ("courses", Json.arr (courses.map (fun c =>
      let (fb, ob) := courseFloats c
      Json.arr #[toJson c.dbid, toJson c.name, toJson c.numMin, toJson c.numMax, toJson c.instructors,
                 toJson fb, toJson ob, toJson c.fixed, toJson c.hidden])).toArray),
    ("parts", Json.arr (parts.map (fun p =>
      Json.arr #[toJson p.dbid, toJson p.name, Json.arr (p.choices.map (fun (c, pen) => Json.arr #[toJson c, toJson pen])).toArray])).toArray),
    ("amb", Json.arr #[toJson amb.eventId, toJson amb.trackId,
      (match amb.external with
       | none => Json.null
       | some (n, pens) => Json.arr #[toJson n, toJson pens]),
      (match amb.trackName with | none => Json.null | some s => toJson s),
      optNat amb.ignoredCourses, optNat amb.ignoredRegs])]

def handleCR (payload : String) : String :=
  match Json.parse payload with
  | .error e => s!"bad json {e}"
  | .ok j =>
    let doc := untag ((j.getObjVal? "doc").toOption.getD Json.null)
    let o := parseOpts ((j.getObjVal? "opts").toOption.getD Json.null)
    match CD.read doc o with
    | .error _ => "ERR"
    | .ok (parts, courses, amb) => (dumpRead parts courses amb).compress

end CDD

/-! ## CE / CQ: end to end on a CdE export and the import file the real program wrote -/
namespace CDD
open JS CD

def instOf (parts : List Part) (courses : List Course) (rooms : Option (List Nat)) : N2.Inst × N2.RoomFns :=
  let fl := (courses.map courseFloats).toArray
  let I : N2.Inst :=
    { cs := courses.map (fun c => ⟨c.numMin, c.numMax, c.fixed, c.instructors⟩)
      ps := parts.map (fun p => ⟨p.choices.map (fun (c, pen) => ⟨c, pen⟩)⟩)
      rooms := rooms }
  let R : N2.RoomFns :=
    { eff := fun c n => let (fb, ob) := fl.getD c (1065353216, 0)
                        (Float32.ofBits ob.toUInt32 + Float32.ofBits fb.toUInt32 * Float32.ofNat n).ceil.toUSize.toNat
      quot := fun c r => let (fb, ob) := fl.getD c (1065353216, 0)
                         ((Float32.ofNat r - Float32.ofBits ob.toUInt32) / Float32.ofBits fb.toUInt32).floor.toUSize.toNat }
  (I, R)

/-- the assignment (by participant index) that the import file encodes, and whether the file names
    only participants / courses of the problem, only the selected track -/
def decodeImport (parts : List Part) (courses : List Course) (track : Nat) (imp : J) : Bool × List (Option Nat) × List (Nat × Nat) × List (Nat × Bool) :=
  let regs := ((imp.get "registrations").bind J.asObject).getD []
  let crs := ((imp.get "courses").bind J.asObject).getD []
  let t := toString track
  let regPairs : List (Option (Nat × Nat)) := regs.map (fun (k, v) =>
    match parseNat k, v.asObject with
    | some rid, some [("tracks", .obj [(t', .obj [("course_id", cv)])])] =>
      if t' == t then (cv.asU64).map (fun cid => (rid, cid)) else none
    | _, _ => none)
  let crsPairs : List (Option (Nat × Bool)) := crs.map (fun (k, v) =>
    match parseNat k, v.asObject with
    | some cid, some (("segments", .obj [(t', .bool b)]) :: _) => if t' == t then some (cid, b) else none
    | some cid, some (_ :: ("segments", .obj [(t', .bool b)]) :: _) => if t' == t then some (cid, b) else none
    | _, _ => none)
  let rp := regPairs.filterMap id
  let cp := crsPairs.filterMap id
  let shapeOk := rp.length == regPairs.length && cp.length == crsPairs.length
  let namesOk := rp.all (fun (rid, cid) => parts.any (fun p => p.dbid == rid) && courses.any (fun c => c.dbid == cid)) &&
                 cp.all (fun (cid, _) => courses.any (fun c => c.dbid == cid))
  let a : List (Option Nat) := parts.map (fun p =>
    match rp.find? (fun x => x.1 == p.dbid) with
    | some (_, cid) => courses.findIdx? (fun c => c.dbid == cid)
    | none => none)
  (shapeOk && namesOk, a, rp, cp)

def sortPairs (l : List (Nat × Nat)) : List (Nat × Nat) := l.mergeSort (fun a b => decide (a.1 ≤ b.1))
def sortPairsB (l : List (Nat × Bool)) : List (Nat × Bool) := l.mergeSort (fun a b => decide (a.1 ≤ b.1))

def handleCE (payload : String) : String :=
  match Json.parse payload with
  | .error e => s!"bad json {e}"
  | .ok j =>
    let doc := untag ((j.getObjVal? "doc").toOption.getD Json.null)
    let imp := untag ((j.getObjVal? "imp").toOption.getD Json.null)
    let o := parseOpts ((j.getObjVal? "opts").toOption.getD Json.null)
    let rooms := (j.getObjValAs? (List Nat) "rooms").toOption
    match CD.read doc o with
    | .error _ => "read=ERR"
    | .ok (parts, courses, amb) =>
      let (fileOk, a, rp, cp) := decodeImport parts courses amb.trackId imp
      let writeOk := sortPairs (writeRegs parts courses a) == sortPairs rp &&
                     sortPairsB (writeCourses courses a) == sortPairsB cp
      let (I, R) := instOf parts courses rooms
      let av := a.toArray
      let af : Nat → Option Nat := fun p => av.getD p none
      let hard := N2.G.hardOKb I af
      let room := match rooms with
        | none => true
        | some r => RSpec.roomOKb I R af r
      s!"file={if fileOk then "ok" else "BAD"} write={if writeOk then "ok" else "BAD"} hard={hard} room={room}"

/-- `CP`: the C18 specification on the possible-rooms field of the import file
    (`--possible-rooms-field`): `sound=… nonempty=…` -/
def handleCP (payload : String) : String :=
  match Json.parse payload with
  | .error e => s!"bad json {e}"
  | .ok j =>
    let doc := untag ((j.getObjVal? "doc").toOption.getD Json.null)
    let imp := untag ((j.getObjVal? "imp").toOption.getD Json.null)
    let o := parseOpts ((j.getObjVal? "opts").toOption.getD Json.null)
    let rooms := (j.getObjValAs? (List Nat) "rooms").toOption.getD []
    let field := (j.getObjValAs? String "field").toOption.getD ""
    match CD.read doc o with
    | .error _ => "read=ERR"
    | .ok (parts, courses, amb) =>
      let (_, a, _, _) := decodeImport parts courses amb.trackId imp
      let (I, R) := instOf parts courses (some rooms)
      let av := a.toArray
      let af : Nat → Option Nat := fun p => av.getD p none
      let sizes := RSpec.sizes I R af
      let crs := ((imp.get "courses").bind J.asObject).getD []
      let listed : List (List Nat) := courses.map (fun c =>
        match (J.lookup (toString c.dbid) crs).bind (fun v => v.get "fields") |>.bind (fun f => f.get field) |>.bind J.asStr with
        | some s => ((s.splitOn ",").map (fun x => x.trimAscii.toString)).filterMap (fun x => x.toNat?)
        | none => [])
      s!"sound={RM.specSound sizes rooms listed} nonempty={RM.specNonempty sizes listed}"

/-- quality figures of a CdE run as exact fractions: `sq=num/den oq=num/den score=…` -/
def handleCQ (payload : String) : String :=
  match Json.parse payload with
  | .error e => s!"bad json {e}"
  | .ok j =>
    let doc := untag ((j.getObjVal? "doc").toOption.getD Json.null)
    let imp := untag ((j.getObjVal? "imp").toOption.getD Json.null)
    let o := parseOpts ((j.getObjVal? "opts").toOption.getD Json.null)
    match CD.read doc o with
    | .error _ => "read=ERR"
    | .ok (parts, courses, amb) =>
      let (_, a, _, _) := decodeImport parts courses amb.trackId imp
      let (I, _) := instOf parts courses none
      let av := a.toArray
      let af : Nat → Option Nat := fun p => av.getD p none
      let score := N2.G.scoreOfL I af
      let (sn, sd) := QM.quality I score
      let (on, od) := match amb.external with
        | none => (sn, sd)
        | some (ei, ep) => QM.combined I score ei ep
      s!"score={score} sq={sn}/{sd} oq={on}/{od}"

end CDD

/-! ## Q / L / RL / RP: simple-format quality figures, listing, possible rooms -/

open N2 in
def handleQ (payload : String) : String :=
  match payload.splitOn "#" with
  | [cs, ps, rooms, asg] =>
    let (I, _) := parseInst cs ps rooms
    let av := parseAssign asg
    let a : Nat → Option Nat := fun p => (av.getD p none)
    let score := G.scoreOfL I a
    let m := QM.theoreticalMax I
    let (sn, sd) := QM.quality I score
    let (mn, md) := QM.quality I m
    s!"score={score} max={m} sq={sn}/{sd} mq={mn}/{md}"
  | _ => "bad"

/-- `AQ`: `AssignmentQualityInfo::from_caobab_assignment` + `get_quality` -/
def handleAQ (payload : String) : String :=
  match payload.splitOn "#" with
  | [cs, ps, rooms, asg, u, f] =>
    let (I, _) := parseInst cs ps rooms
    let av := parseAssign asg
    let a : Nat → Option Nat := fun p => (av.getD p none)
    match u.trimAscii.toString.toNat?, f.trimAscii.toString.toNat? with
    | some u, some f =>
      let q := QM.fromAssignment I a u f
      let (n, d) := QM.getQuality q
      let pens := ",".intercalate (q.2.map toString)
      s!"ni={q.1} pens={pens} q={n}/{d}"
    | _, _ => "bad"
  | _ => "bad"

def handleL (payload : String) : String :=
  match Json.parse payload with
  | .error e => s!"bad json {e}"
  | .ok j =>
    let it := (j.getObjValAs? String "inst").toOption.getD ""
    let asg := (j.getObjValAs? String "a").toOption.getD ""
    let names := (j.getObjVal? "names").toOption.getD Json.null
    let cn := (names.getObjValAs? (List String) "c").toOption.getD []
    let pn := (names.getObjValAs? (List String) "p").toOption.getD []
    let hn := (names.getObjValAs? (List (List String)) "h").toOption.getD []
    let rooms := (j.getObjValAs? (List String) "rooms").toOption
    match it.splitOn "#" with
    | [cs, ps, rs] =>
      let (I, _) := parseInst cs ps rs
      let av := parseAssign asg
      let a : Nat → Option Nat := fun p => (av.getD p none)
      (Json.str (LM.render I a cn pn hn rooms)).compress
    | _ => "bad"

def parseNatCsv (s : String) : List Nat :=
  ((s.splitOn ",").map (fun x => x.trimAscii.toString)).filterMap (fun x => x.toNat?)

/-- `RL`: the C18 specification on the room sizes the program listed -/
def handleRL (payload : String) : String :=
  match Json.parse payload with
  | .error e => s!"bad json {e}"
  | .ok j =>
    let it := (j.getObjValAs? String "inst").toOption.getD ""
    let asg := (j.getObjValAs? String "a").toOption.getD ""
    let rooms := (j.getObjValAs? (List Nat) "rooms").toOption.getD []
    let listed := ((j.getObjValAs? (List String) "listed").toOption.getD []).map parseNatCsv
    match it.splitOn "#" with
    | [cs, ps, rs] =>
      let (I, R) := parseInst cs ps rs
      let av := parseAssign asg
      let a : Nat → Option Nat := fun p => (av.getD p none)
      let sizes := RSpec.sizes I R a
      s!"sound={RM.specSound sizes rooms listed} nonempty={RM.specNonempty sizes listed}"
    | _ => "bad"

/-- `RP`: exact model of the possible-rooms listing, given the rank order the real sort produced -/
def handleRP (payload : String) : String :=
  match Json.parse payload with
  | .error e => s!"bad json {e}"
  | .ok j =>
    let sizes := (j.getObjValAs? (List Nat) "sizes").toOption.getD []
    let order := (j.getObjValAs? (List Nat) "order").toOption.getD []
    let rooms := (j.getObjValAs? (List Nat) "rooms").toOption.getD []
    if !RM.orderOk sizes order then "order=BAD" else
    match (j.getObjVal? "kinds").toOption with
    | some (.arr ks) =>
      let kinds : List RM.Kind := ks.toList.map (fun k =>
        { name := (k.getObjValAs? String "name").toOption.getD "", capacity := (k.getObjValAs? Nat "capacity").toOption.getD 0,
          quantity := (k.getObjValAs? Nat "quantity").toOption.getD 0 })
      let (rs, sorted) := RM.readKinds kinds
      let names := RM.kindNames sizes order sorted
      let poss := RM.possibleByCourse sizes order rs
      (Json.mkObj [("rooms", toJson rs), ("list", toJson names),
        ("sound", toJson (RM.specSound sizes rs poss)), ("nonempty", toJson (RM.specNonempty sizes poss))]).compress
    | _ =>
      let poss := RM.possibleByCourse sizes order rooms
      (Json.mkObj [("rooms", toJson rooms), ("list", toJson (RM.sizeList sizes order rooms)),
        ("sound", toJson (RM.specSound sizes rooms poss)), ("nonempty", toJson (RM.specNonempty sizes poss))]).compress

/-- `RS`: the C18 specification evaluated on what the REAL code listed (size lists, or kind names
    together with the kinds of the rooms file) -/
def handleRS (payload : String) : String :=
  match Json.parse payload with
  | .error e => s!"bad json {e}"
  | .ok j =>
    let sizes := (j.getObjValAs? (List Nat) "sizes").toOption.getD []
    let rooms := (j.getObjValAs? (List Nat) "rooms").toOption.getD []
    let listed := (j.getObjValAs? (List String) "listed").toOption.getD []
    match (j.getObjVal? "kinds").toOption with
    | some (.arr ks) =>
      let kinds : List RM.Kind := ks.toList.map (fun k =>
        { name := (k.getObjValAs? String "name").toOption.getD "", capacity := (k.getObjValAs? Nat "capacity").toOption.getD 0,
          quantity := (k.getObjValAs? Nat "quantity").toOption.getD 0 })
      let names : List (List String) := listed.map (fun s => if s == "" then [] else s.splitOn ", ")
      -- a listed name stands for SOME kind of that name (names may repeat across capacities) that has
      -- rooms and whose capacity is usable for the course
      let sound := (List.range sizes.length).all (fun c => (names.getD c []).all (fun nm =>
        kinds.any (fun k => k.name == nm && decide (0 < k.quantity) && RM.usable sizes rooms c k.capacity)))
      let nonempty := (List.range sizes.length).all (fun c => sizes.getD c 0 == 0 || !(names.getD c []).isEmpty)
      s!"sound={sound} nonempty={nonempty}"
    | _ =>
      let l := listed.map parseNatCsv
      s!"sound={RM.specSound sizes rooms l} nonempty={RM.specNonempty sizes l}"

/-! ## SR / OS: simple-format reader + validation, output stage -/

def handleSR (payload : String) : String :=
  match Json.parse payload with
  | .error e => s!"bad json {e}"
  | .ok j =>
    let doc := CDD.untag ((j.getObjVal? "doc").toOption.getD Json.null)
    if SM.accepts doc then "ACCEPT" else "REFUSE"

/-- f32 bit pattern of a number the simple reader stores in an `f32` field (via f64 — serde's own `f32` visitor rounds an integer literal ONCE: the two differ by one unit in the last place for integers above 2^53, which no generator writes) -/
def numBitsF32 (n : Option JS.Num) (dflt : Float32) : Nat :=
  match n with
  | none => dflt.toBits.toNat
  | some v => (CDD.numToF32 v).toBits.toNat

/-- `SD`: the complete result of the simple-format reader model on a document: `ERR`, or the dump
    `{"courses": [[index, name, min, max, instructors, factor bits, offset bits, fixed, hidden] …],
      "parts": [[index, name, [[course, penalty] …]] …], "consistent": bool}` -/
def handleSD (payload : String) : String :=
  match Json.parse payload with
  | .error e => s!"bad json {e}"
  | .ok j =>
    let doc := CDD.untag ((j.getObjVal? "doc").toOption.getD Json.null)
    match SM.read doc with
    | .error _ => "ERR"
    | .ok (parts, courses) =>
      let cs := courses.zipIdx.map (fun (c, i) =>
        Json.arr #[toJson i, toJson c.name, toJson c.numMin, toJson c.numMax, toJson c.instructors,
                   toJson (numBitsF32 c.factor 1.0), toJson (numBitsF32 c.offset 0.0), toJson c.fixed, toJson c.hidden])
      let ps := parts.zipIdx.map (fun (p, i) =>
        Json.arr #[toJson i, toJson p.name, Json.arr (p.choices.map (fun ch => Json.arr #[toJson ch.course, toJson ch.penalty])).toArray])
      let cons := (MainM.Data.simple parts courses).consistent
      (Json.mkObj [("courses", Json.arr cs.toArray), ("parts", Json.arr ps.toArray), ("consistent", toJson cons)]).compress

/-- `RI`: the two room inputs: `{"str": …}` → `ok a,b,c` / `REFUSE`; `{"file": tagged}` → `ok n` / `REFUSE` -/
def handleRI (payload : String) : String :=
  match Json.parse payload with
  | .error e => s!"bad json {e}"
  | .ok j =>
    match (j.getObjValAs? String "str").toOption with
    | some s =>
      match RI.parseRoomsStr s with
      | some l => "ok " ++ ",".intercalate (l.map toString)
      | none => "REFUSE"
    | none =>
      match RI.kindsOf (CDD.untag ((j.getObjVal? "file").toOption.getD Json.null)) with
      | some ks => s!"ok {ks.length}"
      | none => "REFUSE"

def handleOS (payload : String) : String :=
  match Json.parse payload with
  | .error e => s!"bad json {e}"
  | .ok j =>
    let g (k : String) := (j.getObjValAs? Bool k).toOption.getD false
    let o := CLI.outputStage2 true (g "print") { requested := true, created := g "created", written := g "written" } (g "closed")
    s!"exit={o.exit} listing={o.listing}"

/-! ## MF: main.rs as a whole — everything before the solver (`MainM.front`) -/

def fileIn (j : Option Json) : MainM.FileIn :=
  match j with
  | some (.str "missing") => .cannotOpen
  | some (.str "notjson") => .notJson
  | some v =>
    match v.getObjVal? "doc" with
    | .ok d => .doc (CDD.untag d)
    | _ => .cannotOpen
  | none => .cannotOpen

/-- `MF`: options + environment → `exit=<status>` when the program ends before the solver, else
    `solver P=<participants> C=<courses> threads=<workers> rooms=<list|none>` -/
def handleMF (payload : String) : String :=
  match Json.parse payload with
  | .error e => s!"bad json {e}"
  | .ok j =>
    let b (k : String) := (j.getObjValAs? Bool k).toOption.getD false
    let st (k : String) := (j.getObjValAs? String k).toOption
    let o : MainM.Opts :=
      { cde := b "cde", track := st "track", ignoreCancelled := b "ic", ignoreAssigned := b "ia",
        factorField := st "rff", offsetField := st "rof", rooms := st "rooms",
        roomsFile := (j.getObjVal? "roomsfile").toOption.isSome && (j.getObjVal? "roomsfile").toOption != some Json.null,
        threads := (j.getObjValAs? Nat "threads").toOption, print := b "print", output := b "output" }
    let e : MainM.Env :=
      { input := fileIn (j.getObjVal? "input").toOption, roomsFile := fileIn (j.getObjVal? "roomsfile").toOption,
        cpus := (j.getObjValAs? Nat "cpus").toOption.getD 1 }
    match MainM.front o e with
    | .error c => s!"exit={c}"
    | .ok pb =>
      let rooms := match pb.rooms with
        | none => "none"
        | some l => ",".intercalate (l.map toString)
      s!"solver P={pb.data.numParts} C={pb.data.numCourses} threads={pb.threads} rooms={rooms}"

/-! ## main loop -/

def dispatch (line : String) : String :=
  let line := line.trimAscii.toString
  match line.splitOn "\t" with
  | [tag, payload] =>
    match tag with
    | "H" => handleH payload
    | "HB" => handleHB payload
    | "HO" => handleHO payload
    | "HS" => handleHS payload
    | "N" => handleN payload
    | "PC" => handlePC payload
    | "A" => handleA payload
    | "B" => handleB payload
    | "S" => handleS payload
    | "SB" => handleSB payload
    | "T" => TR.handle payload
    | "CR" => CDD.handleCR payload
    | "CE" => CDD.handleCE payload
    | "CQ" => CDD.handleCQ payload
    | "CP" => CDD.handleCP payload
    | "Q" => handleQ payload
    | "AQ" => handleAQ payload
    | "L" => handleL payload
    | "RL" => handleRL payload
    | "RP" => handleRP payload
    | "RS" => handleRS payload
    | "SR" => handleSR payload
    | "OS" => handleOS payload
    | "RI" => handleRI payload
    | "MF" => handleMF payload
    | "SD" => handleSD payload
    | _ => "bad tag"
  | _ => "bad line"

partial def loop (h : IO.FS.Stream) : IO Unit := do
  let line ← h.getLine
  if line.isEmpty then return ()
  IO.println (dispatch line)
  loop h

def main : IO Unit := do loop (← IO.getStdin)
